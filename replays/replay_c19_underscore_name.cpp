#include "quill/Backend.h"
#include "quill/Frontend.h"
#include "quill/LogMacros.h"
#include "quill/Logger.h"
#include "quill/sinks/Sink.h"
#include <cstdio>
#include <string>
#include <vector>
struct Cap : quill::Sink {
  std::vector<std::string> lines;
  void write_log(quill::MacroMetadata const*, uint64_t, std::string_view, std::string_view, std::string const&, std::string_view, quill::LogLevel,
                 std::string_view, std::string_view, std::vector<std::pair<std::string, std::string>> const* named, std::string_view msg, std::string_view) override {
    std::string l = "msg=[" + std::string(msg) + "]";
    if (named) for (auto& kv : *named) l += " (" + kv.first + "=" + kv.second + ")";
    lines.push_back(l);
  }
  void flush_sink() override {}
};
struct S { int _size = 7; int m_count = 3; };
int main(){
  quill::BackendOptions bo; std::vector<std::string> errs; bo.error_notifier = [&](std::string const& e){ errs.push_back(e); };
  quill::Backend::start(bo);
  auto sink = quill::Frontend::create_or_get_sink<Cap>("cap");
  auto* l = quill::Frontend::create_or_get_logger("root", sink);
  int _count = 5; int count = 6; S s;
  LOGJ_INFO(l, "plain", count);
  LOGJ_INFO(l, "underscore", _count);
  LOGJ_INFO(l, "mixed", count, _count);
  LOG_INFO(l, "hand written {_count}", _count);
  l->flush_log();
  for (auto& x : static_cast<Cap*>(sink.get())->lines) std::printf("%s\n", x.c_str());
  for (auto& e : errs) std::printf("notifier: %s\n", e.c_str());
  quill::Backend::stop();
}
