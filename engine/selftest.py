#!/usr/bin/env python3
"""selftest — tests the checker both ways on scratch copies of /repo/include (never touches /repo):
  * every mutant in selftest/mutants.py (one small breaking edit that still compiles) must make the named
    check exit 1 and report the named rule;
  * every benign edit in selftest/benign.py (behaviour-preserving) must leave the named checks at exit 0.
  * every seeded change written by a sub-agent (seeded/<id>/patch.diff) must be reported by the check of its own property
    (or stay silent when its meta.json says it is benign on the repaired tree, or end as analysis-broken, exit 2, when its
    meta.json says the change swaps an anchored construct for one the analysis does not decide).
usage: selftest.py [--only substr] [--jobs N] [--kind mutants|benign|refactors|all]
Not a MANIFEST command; scratch copies are removed after each case."""
import argparse, os, shutil, subprocess, sys, tempfile, importlib.util
from concurrent.futures import ThreadPoolExecutor

VERIF = os.path.dirname(os.path.dirname(os.path.abspath(__file__)))

def load(name):
    p = os.path.join(VERIF, "selftest", name + ".py")
    if not os.path.exists(p):
        return []
    spec = importlib.util.spec_from_file_location(name, p)
    mod = importlib.util.module_from_spec(spec)
    spec.loader.exec_module(mod)
    return mod.CASES

def seeded_cases():
    """every stored seeded change (seeded/<id>/patch.diff) is a regression case for the check of its own property"""
    import glob, json
    out = []
    for d in sorted(glob.glob(os.path.join(VERIF, "seeded", "*"))):
        if not os.path.exists(os.path.join(d, "patch.diff")):
            continue
        meta = json.load(open(os.path.join(d, "meta.json")))
        exp = meta.get("expect_on_current_tree")
        out.append((dict(name="seed-" + os.path.basename(d), ids=[meta["property"]], rule=None, subs=[], patch=os.path.join(d, "patch.diff")),
                    "benign" if exp == "silent" else "undecided" if exp == "analysis-broken" else "mutants"))
    return out

def refactor_cases():
    """behaviour-preserving changes written by sub-agents that saw nothing of /verif (selftest/refactors/<id>/patch.diff): no check may
    report a violation on any of them. Exit 2 (a shape the analysis does not decide) is tolerated and printed; meta "undecided" lists
    the properties for which that is the recorded outcome."""
    import glob, json
    out = []
    for d in sorted(glob.glob(os.path.join(VERIF, "selftest", "refactors", "*"))):
        if not os.path.exists(os.path.join(d, "patch.diff")):
            continue
        out.append((dict(name="refactor-" + os.path.basename(d), ids=["C%02d" % i for i in range(1, 21)], rule=None, subs=[],
                         patch=os.path.join(d, "patch.diff")), "noalarm"))
    return out

def apply(tmp, case):
    if case.get("patch"):
        r = subprocess.run(["patch", "-p1", "-s", "-d", tmp, "-i", case["patch"]], capture_output=True, text=True)
        if r.returncode != 0:
            return "PATCH FAILED: " + (r.stdout + r.stderr)[-200:]
    for (f, old, new) in case["subs"]:
        p = os.path.join(tmp, "include", "quill", f)
        s = open(p).read()
        cnt = s.count(old)
        if cnt != 1:
            return "SUB FAILED: %d occurrences of %r in %s" % (cnt, old[:60], f)
        open(p, "w").write(s.replace(old, new))
    return None

def run_case(case, kind):
    tmp = tempfile.mkdtemp(prefix="qv-")
    try:
        shutil.copytree("/repo/include", os.path.join(tmp, "include"))
        err = apply(tmp, case)
        if err:
            return (case["name"], False, err)
        env = dict(os.environ, QV_SRC=os.path.join(tmp, "include"), QV_OUT=os.path.join(tmp, "out"))
        msgs = []
        ok = True
        for pid in case["ids"]:
            r = subprocess.run([sys.executable, os.path.join(VERIF, "engine", "qcheck.py"), pid, "--tier", case.get("tier", "quick")],
                               capture_output=True, text=True, env=env, cwd=VERIF)
            if kind == "mutants":
                hit = r.returncode == 1 and (case.get("rule") is None or any(case["rule"] in l for l in r.stdout.splitlines() if l.startswith("  C")))
                if not hit:
                    ok = False
                    msgs.append("%s rc=%d expected VIOLATION by %s; got: %s" % (pid, r.returncode, case.get("rule"),
                                " | ".join(l.strip()[:160] for l in r.stdout.splitlines()[:4]) + r.stderr[-300:]))
            elif kind == "noalarm":
                if r.returncode not in (0, 2):
                    ok = False
                    msgs.append("%s rc=%d expected no alarm; got: %s" % (pid, r.returncode, " | ".join(l.strip()[:200] for l in r.stdout.splitlines()[:4]) + r.stderr[-300:]))
                elif r.returncode == 2:
                    msgs.append("%s undecided (exit 2)" % pid)
            elif kind == "undecided":
                # the change replaces a construct the rule is anchored in by something the analysis does not decide: exit 2, never a pass
                if r.returncode != 2:
                    ok = False
                    msgs.append("%s rc=%d expected ANALYSIS-BROKEN (exit 2)" % (pid, r.returncode))
            else:
                if r.returncode != 0:
                    ok = False
                    msgs.append("%s rc=%d expected silence; got: %s" % (pid, r.returncode, " | ".join(l.strip()[:200] for l in r.stdout.splitlines()[:4]) + r.stderr[-300:]))
        return (case["name"], ok, "; ".join(msgs))
    finally:
        shutil.rmtree(tmp, ignore_errors=True)

def main():
    ap = argparse.ArgumentParser()
    ap.add_argument("--only", default="")
    ap.add_argument("--jobs", type=int, default=12)
    ap.add_argument("--kind", default="all")
    a = ap.parse_args()
    todo = []
    if a.kind in ("all", "mutants"):
        todo += [(c, "mutants") for c in load("mutants")]
    if a.kind in ("all", "benign"):
        todo += [(c, "benign") for c in load("benign")]
    if a.kind == "all":
        todo += seeded_cases()
    if a.kind in ("all", "refactors"):
        todo += refactor_cases()
    todo = [(c, k) for (c, k) in todo if a.only in c["name"] or a.only in ",".join(c["ids"])]
    bad = 0
    with ThreadPoolExecutor(a.jobs) as ex:
        for (name, ok, msg), (c, k) in zip(ex.map(lambda ck: run_case(*ck), todo), todo):
            print("%-7s %-8s %-55s %s" % ("ok" if ok else "FAIL", k, name, msg))
            bad += 0 if ok else 1
    print("%d case(s), %d failed" % (len(todo), bad))
    return 1 if bad else 0

if __name__ == "__main__":
    sys.exit(main())
