#!/usr/bin/env python3
"""seedconfirm — confirm a seeded change delivered by a sub-agent in its scratch worktree, then run the checks against it.

usage: seedconfirm.py <worktree> <changedir> <seed-id> [--tests TEST_A,TEST_B] [--checks C01,C09|all]
 1. demo WITHOUT the change must pass, 2. apply patch (git apply), build+run the named existing tests (must pass),
 3. demo WITH the change must fail, 4. restore the worktree, 5. run the checks on a scratch copy carrying the patch
 (engine/mut.py; /repo is not touched), 6. store patch.diff, demo, meta.json (+ what was run) under /verif/seeded/<seed-id>/."""
import argparse, json, os, shutil, subprocess, sys
VERIF = os.path.dirname(os.path.dirname(os.path.abspath(__file__)))

def sh(cmd, cwd=None, timeout=1800):
    r = subprocess.run(cmd, shell=True, cwd=cwd, capture_output=True, text=True, errors="replace", timeout=timeout)
    return r.returncode, (r.stdout + r.stderr)

def main():
    ap = argparse.ArgumentParser()
    ap.add_argument("worktree"); ap.add_argument("changedir"); ap.add_argument("seedid")
    ap.add_argument("--tests", default=""); ap.add_argument("--checks", default="all"); ap.add_argument("--demo-cmd", default="")
    ap.add_argument("--tier", default="quick")
    a = ap.parse_args()
    wt, cd = a.worktree, a.changedir
    meta = json.load(open(os.path.join(cd, "meta.json")))
    patch = os.path.join(cd, "patch.diff")
    demo_cmd = a.demo_cmd or meta.get("demo_cmd") or "g++ -std=c++17 -O1 -pthread -I%s/include demo.cpp -o demo && timeout 120 ./demo" % wt
    log = {}
    rc, out = sh("git -C %s status --porcelain -- include" % wt)
    if out.strip():
        print("worktree include/ is not clean:\n" + out); return 2
    rc0, out0 = sh(demo_cmd, cwd=cd, timeout=900)
    log["demo_without_change"] = {"rc": rc0, "tail": out0[-600:]}
    print("demo without change: rc=%d" % rc0)
    rc, out = sh("git -C %s apply %s" % (wt, patch))
    if rc != 0:
        print("patch does not apply:\n" + out); return 2
    try:
        tests = [t for t in a.tests.split(",") if t]
        tres = {}
        if tests:
            if not os.path.exists(os.path.join(wt, "_b", "build.ninja")):
                sh("cmake -S %s -B %s/_b -G Ninja -DCMAKE_BUILD_TYPE=RelWithDebInfo -DQUILL_BUILD_TESTS=ON" % (wt, wt))
            rc, out = sh("cmake --build %s/_b -j8 --target %s" % (wt, " ".join(tests)), timeout=3600)
            if rc != 0:
                print("existing tests do not build with the change:\n" + out[-1500:]); tres["build"] = "FAILED"
            for t in tests:
                rc, out = sh("timeout 900 %s/_b/build/test/%s" % (wt, t), cwd=os.path.join(wt, "_b"))
                tres[t] = rc
                print("existing test %s with change: rc=%d" % (t, rc))
        log["existing_tests_with_change"] = tres
        rc1, out1 = sh(demo_cmd, cwd=cd, timeout=900)
        log["demo_with_change"] = {"rc": rc1, "tail": out1[-600:]}
        print("demo with change: rc=%d" % rc1)
    finally:
        sh("git -C %s checkout -- include" % wt)
    ids = ",".join("C%02d" % i for i in range(1, 21)) if a.checks == "all" else a.checks
    rc, out = sh("%s %s/engine/mut.py --ids %s --tier %s --patch %s" % (sys.executable, VERIF, ids, a.tier, patch), timeout=3600)
    hits = [l.strip() for l in out.splitlines() if "violated at" in l or l.startswith("C") and "rc=" in l and "rc=0" not in l]
    print("checks:\n" + "\n".join(l[:260] for l in hits[:12]) if hits else "checks: NOTHING REPORTED")
    log["checks"] = [l[:400] for l in hits[:20]]
    confirmed = (rc0 == 0 and log["demo_with_change"]["rc"] != 0 and all(v == 0 for v in log["existing_tests_with_change"].values() if isinstance(v, int)) and "build" not in log["existing_tests_with_change"])
    dst = os.path.join(VERIF, "seeded", a.seedid)
    os.makedirs(dst, exist_ok=True)
    shutil.copy(patch, os.path.join(dst, "patch.diff"))
    for f in os.listdir(cd):
        if f.startswith("demo") and os.path.isfile(os.path.join(cd, f)) and os.path.getsize(os.path.join(cd, f)) < 200000 and not os.access(os.path.join(cd, f), os.X_OK):
            shutil.copy(os.path.join(cd, f), os.path.join(dst, f))
    meta["confirmed"] = ("yes: demo passes without / fails with the change; existing tests run with the change: %s" % (log["existing_tests_with_change"] or "none")) if confirmed else "NO: " + json.dumps({k: (v if not isinstance(v, dict) else v.get("rc")) for k, v in log.items() if k != "checks"})
    meta["what_i_ran"] = {"demo_cmd": demo_cmd, "tests": a.tests, "checks": ids, "tier": a.tier}
    caught = [l for l in hits if "violated at" in l]
    meta["check_result"] = ("caught: " + "; ".join(sorted(set(l.split(" violated")[0].strip() for l in caught)))) if caught else ("not caught (" + "; ".join(hits[:3]) + ")" if hits else "not caught by any check")
    meta["log"] = log
    json.dump(meta, open(os.path.join(dst, "meta.json"), "w"), indent=1)
    print("confirmed:", confirmed, "|", meta["check_result"][:300])
    return 0

sys.exit(main())
