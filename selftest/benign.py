# Behaviour-preserving edits: every named check must stay silent (exit 0).
B = "core/BoundedSPSCQueue.h"
U = "core/UnboundedSPSCQueue.h"
CASES = [
 dict(name="b-c20-unbounded-dtor-next-first", ids=["C20", "C02"], subs=[(U, """      auto const to_delete = current_node;
      current_node = current_node->next;
      delete to_delete;""", """      Node const* const following = current_node->next;
      delete current_node;
      current_node = following;""")]),
 dict(name="b-c10-report-before-append", ids=["C10"], subs=[("backend/BackendWorker.h", """                         transit_event->macro_metadata->short_source_location(), e.what());

      transit_event->formatted_msg->append(error);
      _options.error_notifier(error);""", """                         transit_event->macro_metadata->short_source_location(), e.what());

      _options.error_notifier(error);
      transit_event->formatted_msg->append(error);""")]),
 dict(name="b-c04-sizecache-size-plus-equals-one", ids=["C04"], subs=[("core/InlinedVector.h", "    ++_size;\n", "    _size += 1;\n"), ("core/InlinedVector.h", "    if (_size == _capacity)\n", "    if (_capacity == _size)\n")]),
 dict(name="b-c19-json-newlines-std-replace", ids=["C19", "C10"], subs=[("sinks/JsonSink.h", """      for (size_t pos = 0; (pos = _format.find('\\n', pos)) != std::string::npos; pos++)
      {
        _format.replace(pos, 1, " ");
      }
""", """      std::replace(_format.begin(), _format.end(), '\\n', ' ');
"""), ("sinks/JsonSink.h", "#include <string>", "#include <algorithm>\n#include <string>")]),
 dict(name="b-c15-datetime-memo-keyed-on-all-arguments", ids=["C15", "C14"], subs=[("sinks/FileSink.h", """    // convert to seconds
    auto const time_now = static_cast<time_t>(timestamp_ns / 1000000000);
    tm now_tm;
""", """    struct LastFormatted
    {
      uint64_t timestamp_ns{0};
      Timezone time_zone{Timezone::LocalTime};
      std::string pattern;
      std::string value;
    };
    static thread_local LastFormatted last_formatted;
    if (!last_formatted.value.empty() && (last_formatted.timestamp_ns == timestamp_ns) &&
        (last_formatted.time_zone == time_zone) && (last_formatted.pattern == append_format_pattern))
    {
      return last_formatted.value;
    }

    // convert to seconds
    auto const time_now = static_cast<time_t>(timestamp_ns / 1000000000);
    tm now_tm;
"""), ("sinks/FileSink.h", """    std::strftime(buffer, buffer_size, append_format_pattern.data(), &now_tm);

    return std::string{buffer};""", """    std::strftime(buffer, buffer_size, append_format_pattern.data(), &now_tm);
    last_formatted.timestamp_ns = timestamp_ns;
    last_formatted.time_zone = time_zone;
    last_formatted.pattern = append_format_pattern;
    last_formatted.value = buffer;

    return std::string{buffer};""")]),
 dict(name="b-c12-process-id-set-in-init", ids=["C12"], subs=[("backend/BackendWorker.h", "  BackendWorker() { _process_id = std::to_string(get_process_id()); }", "  BackendWorker() {}"),
    ("backend/BackendWorker.h", "    _options = options;\n\n    if (!_options.error_notifier)", "    _options = options;\n    _process_id = std::to_string(get_process_id());\n\n    if (!_options.error_notifier)")]),
 dict(name="b-c16-consolesink-takes-notifier", ids=["C16", "C12"], subs=[("sinks/ConsoleSink.h", """  explicit ConsoleSink(ConsoleSinkConfig const& config = ConsoleSinkConfig{})
    : StreamSink{config.stream(), nullptr, config.override_pattern_formatter_options()}, _config(config)""", """  explicit ConsoleSink(ConsoleSinkConfig const& config = ConsoleSinkConfig{},
                       FileEventNotifier file_event_notifier = FileEventNotifier{})
    : StreamSink{config.stream(), nullptr, config.override_pattern_formatter_options(), std::move(file_event_notifier)}, _config(config)""")]),
 dict(name="b-c13-timegm-auto-result", ids=["C13"], subs=[("core/TimeUtilities.h", "  time_t const ret_val = ::timegm(tm);", "  auto const ret_val = ::timegm(tm);")]),
 dict(name="b-c01-guard-rewritten", ids=["C01", "C09"], subs=[(B, """    if ((_capacity - static_cast<integer_type>(_writer_pos - _reader_pos_cache)) < n)
    {
      // not enough""", """    if (n > (_capacity - static_cast<integer_type>(_writer_pos - _reader_pos_cache)))
    {
      // not enough"""), (B, """      if ((_capacity - static_cast<integer_type>(_writer_pos - _reader_pos_cache)) < n)
      {
        return nullptr;""", """      if (!((_capacity - static_cast<integer_type>(_writer_pos - _reader_pos_cache)) >= n))
      {
        return nullptr;""")]),
 dict(name="b-c01-seq_cst", ids=["C01"], subs=[(B, "_atomic_writer_pos.store(_writer_pos, std::memory_order_release)", "_atomic_writer_pos.store(_writer_pos, std::memory_order_seq_cst)"),
                                                (B, "_writer_pos_cache = _atomic_writer_pos.load(std::memory_order_acquire)", "_writer_pos_cache = _atomic_writer_pos.load()")]),
 dict(name="b-c01-empty-operands-swapped", ids=["C01"], subs=[(B, """    if (_writer_pos_cache == _reader_pos)
    {
      // if we think""", """    if (_reader_pos == _writer_pos_cache)
    {
      // if we think""")]),
 dict(name="b-c01-rename-param", ids=["C01", "C02"], subs=[(B, """  QUILL_NODISCARD QUILL_ATTRIBUTE_HOT std::byte* prepare_write(integer_type n) noexcept
  {
    if ((_capacity - static_cast<integer_type>(_writer_pos - _reader_pos_cache)) < n)
    {
      // not enough space, we need to load reader and re-check
      _reader_pos_cache = _atomic_reader_pos.load(std::memory_order_acquire);

      if ((_capacity - static_cast<integer_type>(_writer_pos - _reader_pos_cache)) < n)""", """  QUILL_NODISCARD QUILL_ATTRIBUTE_HOT std::byte* prepare_write(integer_type nbytes_wanted) noexcept
  {
    if ((_capacity - static_cast<integer_type>(_writer_pos - _reader_pos_cache)) < nbytes_wanted)
    {
      // not enough space, we need to load reader and re-check
      _reader_pos_cache = _atomic_reader_pos.load(std::memory_order_acquire);

      if ((_capacity - static_cast<integer_type>(_writer_pos - _reader_pos_cache)) < nbytes_wanted)""")]),
 dict(name="b-c02-rename-local", ids=["C02"], subs=[(U, """    Node* const next_node = _consumer->next.load(std::memory_order_acquire);

    if (next_node)
    {
      return _read_next_queue(next_node);
    }""", """    Node* const successor = _consumer->next.load(std::memory_order_acquire);

    if (successor != nullptr)
    {
      return _read_next_queue(successor);
    }""")]),
 dict(name="b-c02-extra-stats", ids=["C02", "C01"], subs=[(U, """    // switch to the new buffer, existing one is deleted
    auto const previous_capacity""", """    // switch to the new buffer, existing one is deleted
    auto const unused_hpp = _consumer->bounded_queue.huge_pages_policy(); (void)unused_hpp;
    auto const previous_capacity""")]),

 dict(name="b-lockguard-to-explicit-lock", ids=["C17", "C20"], subs=[("core/LoggerManager.h", """  QUILL_NODISCARD size_t get_number_of_loggers() const noexcept
  {
    LockGuard const lock{_spinlock};
    return _loggers.size();""", """  QUILL_NODISCARD size_t get_number_of_loggers() const noexcept
  {
    _spinlock.lock();
    size_t const n = _loggers.size();
    _spinlock.unlock();
    return n;""")]),
 dict(name="b-c09-unconditional-publish", ids=["C09", "C01"], subs=[(B, """    if ((static_cast<integer_type>(_reader_pos - _atomic_reader_pos.load(std::memory_order_relaxed)) >= _bytes_per_batch) ||
        (_reader_pos == _writer_pos_cache))
    {""", """    {""")]),
 dict(name="b-c20-counter-size_t", ids=["C20"], subs=[("core/ThreadContextManager.h", "std::atomic<uint32_t> _invalid_thread_context_count{0};", "std::atomic<size_t> _invalid_thread_context_count{0};")]),
 dict(name="b-c10-handler-via-helper", ids=["C10", "C03"], subs=[("backend/BackendWorker.h", """    QUILL_CATCH(std::exception const& e) { _options.error_notifier(e.what()); }
    QUILL_CATCH_ALL()
    {
      _options.error_notifier(std::string{"Caught unhandled exception."});
    } // clang-format on
#endif

    // Finally clean up any remaining fields in the transit event""", """    QUILL_CATCH(std::exception const& e) { std::string const msg{e.what()}; _options.error_notifier(msg); }
    QUILL_CATCH_ALL()
    {
      std::string const msg{"Caught unhandled exception."};
      _options.error_notifier(msg);
    } // clang-format on
#endif

    // Finally clean up any remaining fields in the transit event""")]),
 dict(name="b-c05-min-selection-rewritten", ids=["C05", "C03"], subs=[("backend/BackendWorker.h", "if (te && (!thread_context || (min_ts > te->timestamp)))", "if ((te != nullptr) && ((thread_context == nullptr) || (te->timestamp < min_ts)))")]),
 dict(name="b-c03-extra-metrics", ids=["C03", "C05", "C06", "C09", "C10"], subs=[("backend/BackendWorker.h", """      frontend_queue.finish_read(bytes_read);
      total_bytes_read += bytes_read;""", """      frontend_queue.finish_read(bytes_read);
      total_bytes_read += bytes_read;
      ++_stats_records_read;"""), ("backend/BackendWorker.h", "  bool _wake_up_flag{false};\n};", "  bool _wake_up_flag{false};\n  uint64_t _stats_records_read{0};\n};")]),
 dict(name="b-c18-index-reset-before-clear", ids=["C18"], subs=[("backend/BacktraceStorage.h", "    _stored_events.clear();\n    _index = 0;\n  }", "    _index = 0;\n    _stored_events.clear();\n  }")]),
 dict(name="b-c12-new-attribute-with-all-rows", ids=["C12"], subs=[("backend/PatternFormatter.h", "    NamedArgs,\n    ATTR_NR_ITEMS", "    NamedArgs,\n    Hostname,\n    ATTR_NR_ITEMS"),
      ("backend/PatternFormatter.h", '"short_source_location"_a = "", "message"_a = "", "tags"_a = "", "named_args"_a = "");', '"short_source_location"_a = "", "message"_a = "", "tags"_a = "", "named_args"_a = "", "hostname"_a = "");'),
      ("backend/PatternFormatter.h", '    _set_arg<Attribute::NamedArgs>(std::string_view("named_args"));', '    _set_arg<Attribute::NamedArgs>(std::string_view("named_args"));\n    _set_arg<Attribute::Hostname>(std::string_view("hostname"));'),
      ("backend/PatternFormatter.h", '      {"named_args", PatternFormatter::Attribute::NamedArgs}};', '      {"named_args", PatternFormatter::Attribute::NamedArgs},\n      {"hostname", PatternFormatter::Attribute::Hostname}};'),
      ("backend/PatternFormatter.h", "    _set_arg_val<Attribute::Message>(log_msg);", "    if (_is_set_in_pattern[Attribute::Hostname])\n    {\n      _set_arg_val<Attribute::Hostname>(std::string_view{\"host\"});\n    }\n\n    _set_arg_val<Attribute::Message>(log_msg);")]),
 dict(name="b-c04-consistent-reorder-of-header-words", ids=["C04", "C01"], subs=[("Logger.h", """    std::memcpy(write_buffer, &metadata, sizeof(uintptr_t));
    write_buffer += sizeof(uintptr_t);

    std::memcpy(write_buffer, &logger_ctx, sizeof(uintptr_t));
    write_buffer += sizeof(uintptr_t);
""", """    std::memcpy(write_buffer, &logger_ctx, sizeof(uintptr_t));
    write_buffer += sizeof(uintptr_t);

    std::memcpy(write_buffer, &metadata, sizeof(uintptr_t));
    write_buffer += sizeof(uintptr_t);
"""), ("backend/BackendWorker.h", """    std::memcpy(&transit_event->macro_metadata, read_pos, sizeof(transit_event->macro_metadata));
    read_pos += sizeof(transit_event->macro_metadata);

    std::memcpy(&transit_event->logger_base, read_pos, sizeof(transit_event->logger_base));
    read_pos += sizeof(transit_event->logger_base);
""", """    std::memcpy(&transit_event->logger_base, read_pos, sizeof(transit_event->logger_base));
    read_pos += sizeof(transit_event->logger_base);

    std::memcpy(&transit_event->macro_metadata, read_pos, sizeof(transit_event->macro_metadata));
    read_pos += sizeof(transit_event->macro_metadata);
""")]),
 dict(name="b-c14-rename-local", ids=["C14", "C15"], subs=[("sinks/RotatingSink.h", """      fs::path const removed_file = _get_filename(
        _created_files.back().base_filename, _created_files.back().index, _created_files.back().date_time);
      _remove_file(removed_file);""", """      fs::path const oldest = _get_filename(
        _created_files.back().base_filename, _created_files.back().index, _created_files.back().date_time);
      _remove_file(oldest);""")]),

 dict(name="b-c04-vector-operands-swapped", ids=["C04", "C11"], subs=[("std/Vector.h", "      total_size += sizeof(T) * arg.size();", "      total_size += arg.size() * sizeof(T);"),
      ("std/Vector.h", "      std::memcpy(buffer, arg.data(), sizeof(T) * arg.size());\n      buffer += sizeof(T) * arg.size();", "      size_t const nbytes = arg.size() * sizeof(T);\n      std::memcpy(buffer, arg.data(), nbytes);\n      buffer += nbytes;")]),
 dict(name="b-c04-string-len-hoisted", ids=["C04"], subs=[("core/Codec.h", "      return sizeof(uint32_t) + static_cast<uint32_t>(arg.length());", "      auto const len = static_cast<uint32_t>(arg.size());\n      return len + sizeof(uint32_t);")]),
 dict(name="b-c04-pair-size-single-expression", ids=["C04"], subs=[("std/Pair.h", """    size_t total_size = Codec<T1>::compute_encoded_size(conditional_arg_size_cache, arg.first);
    total_size += Codec<T2>::compute_encoded_size(conditional_arg_size_cache, arg.second);
    return total_size;""", """    size_t const first_size = Codec<T1>::compute_encoded_size(conditional_arg_size_cache, arg.first);
    size_t const second_size = Codec<T2>::compute_encoded_size(conditional_arg_size_cache, arg.second);
    return first_size + second_size;""")]),
 dict(name="b-c04-optional-decode-ternary-free", ids=["C04"], subs=[("std/Optional.h", """      bool const has_value = Codec<bool>::decode_arg(buffer);
      if (has_value)
      {
        arg = Codec<T>::decode_arg(buffer);
      }

      return arg;""", """      if (Codec<bool>::decode_arg(buffer))
      {
        arg = Codec<T>::decode_arg(buffer);
      }

      return arg;""")]),
 dict(name="b-c13-recalc-guard-flipped", ids=["C13"], subs=[("backend/StringFromTime.h", "    if (timestamp >= _next_recalculation_timestamp)", "    if (_next_recalculation_timestamp <= timestamp)")]),
 dict(name="b-c13-recalc-every-five-minutes", ids=["C13"], subs=[("backend/StringFromTime.h", "(timestamp / 900) * 900;", "(timestamp / 300) * 300;"),
                                                               ("backend/StringFromTime.h", "_nearest_quarter_hour_timestamp(timestamp) + 900;", "_nearest_quarter_hour_timestamp(timestamp) + 300;")]),
 dict(name="b-c13-fraction-end-in-a-local", ids=["C13"], subs=[("backend/TimestampFormatter.h", """    memcpy(&_formatted_date[_formatted_date.size() - extracted_ms_string.size()],""", """    size_t const field_end = _formatted_date.size();
    (void)field_end;
    memcpy(&_formatted_date[_formatted_date.size() - extracted_ms_string.size()],""")]),
 dict(name="b-c14-prefix-test-with-rfind", ids=["C14"], subs=[("sinks/RotatingSink.h", """          // we only check for the files of the same extension to remove
          continue;
        }

        // is_directory() does not exist in std::experimental::filesystem
        if (entry.path().filename().string().find(filename.stem().string() + ".") != 0)
        {
          // expect to find filename.stem().string() exactly at the start of the filename
          continue;
        }

        if (_config.rotation_naming_scheme() == RotatingFileSinkConfig::RotationNamingScheme::Index)
        {
          fs::remove(entry);""", """          // we only check for the files of the same extension to remove
          continue;
        }

        // is_directory() does not exist in std::experimental::filesystem
        if (!(entry.path().filename().string().rfind(filename.stem().string() + ".", 0) == 0))
        {
          // expect to find filename.stem().string() exactly at the start of the filename
          continue;
        }

        if (_config.rotation_naming_scheme() == RotatingFileSinkConfig::RotationNamingScheme::Index)
        {
          fs::remove(entry);""")]),
 dict(name="b-c15-minute-advance-spelled-out", ids=["C15"], subs=[("sinks/RotatingSink.h", "      date.tm_min += 1;", "      date.tm_min = date.tm_min + 1;"),
                                                                 ("sinks/RotatingSink.h", "      date.tm_hour += 1;", "      ++date.tm_hour;")]),
 dict(name="b-c16-line-assigned-in-both-arms", ids=["C16"], subs=[("backend/BackendWorker.h", """        std::string_view log_to_write = log_statement;

        // If the sink has an override pattern formatter to use, prepare the override formatted statement
        if (sink->_override_pattern_formatter_options)
        {""", """        std::string_view log_to_write;

        if (!sink->_override_pattern_formatter_options)
        {
          log_to_write = log_statement;
        }
        else
        {"""), ]),
 dict(name="b-c19-separator-size", ids=["C19"], subs=[("backend/BackendWorker.h", "      start = end + delimiter.length();", "      start = delimiter.size() + end;")]),
 dict(name="b-c19-separator-guard-plus-one", ids=["C19"], subs=[("backend/BackendWorker.h", "      if (i < named_args.size() - 1)\n      {\n        format_string += delimiter;", "      if (i + 1 < named_args.size())\n      {\n        format_string += delimiter;")]),
 dict(name="b-c17-insert-logger-upper-bound", ids=["C17"], subs=[("core/LoggerManager.h", """    auto search_it = std::lower_bound(_loggers.begin(), _loggers.end(), logger->get_logger_name(),
                                      [](std::unique_ptr<LoggerBase> const& a, std::string const& b)
                                      { return a->get_logger_name() < b; });""", """    auto search_it = std::upper_bound(_loggers.begin(), _loggers.end(), logger->get_logger_name(),
                                      [](std::string const& b, std::unique_ptr<LoggerBase> const& a)
                                      { return b < a->get_logger_name(); });""")]),
]
