// qfacts — clang-14 front-end plugin: fact extractor for the quill static checks.
//
// It is NOT a rule engine. For every function / method instantiation defined in
// the quill headers (bundled fmt excluded) or in the witness main file it writes
// one JSON line holding
//   * identity (qualified name with template arguments, signature, location,
//     class, noexcept, virtual, ctor/dtor, parameters),
//   * the resolved AST of the body as a tree of nodes with stable per-function
//     ids (callee FunctionDecls, FieldDecls, enum constants, evaluated sizeof /
//     integral constants, memory orders through default arguments, ...),
//   * clang's CFG of that instantiation (built with setAllAlwaysAdd so every
//     sub-expression is an element in evaluation order; no EH edges), blocks
//     refer to AST nodes by id,
// plus one line per class (fields), enum (enumerators) and namespace-scope /
// static constant with its initialiser tree.
//
// usage: clang++ -fsyntax-only -fplugin=qfacts.so -Xclang -plugin -Xclang qfacts
//          -Xclang -plugin-arg-qfacts -Xclang out=<file> [-Xclang -plugin-arg-qfacts -Xclang root=<dir>] tu.cpp

#include "clang/AST/ASTConsumer.h"
#include "clang/AST/ASTContext.h"
#include "clang/AST/DeclCXX.h"
#include "clang/AST/DeclTemplate.h"
#include "clang/AST/ExprCXX.h"
#include "clang/AST/RecursiveASTVisitor.h"
#include "clang/AST/StmtCXX.h"
#include "clang/Analysis/CFG.h"
#include "clang/Basic/SourceManager.h"
#include "clang/Frontend/CompilerInstance.h"
#include "clang/Frontend/FrontendPluginRegistry.h"
#include "llvm/Support/raw_ostream.h"

#include <map>
#include <set>
#include <string>
#include <vector>

using namespace clang;

namespace
{
std::string jesc(llvm::StringRef s)
{
  std::string o;
  o.reserve(s.size() + 2);
  for (unsigned char c : s)
  {
    switch (c)
    {
    case '"': o += "\\\""; break;
    case '\\': o += "\\\\"; break;
    case '\n': o += "\\n"; break;
    case '\r': o += "\\r"; break;
    case '\t': o += "\\t"; break;
    default:
      if (c < 0x20 || c >= 0x7f)
      {
        char b[8];
        snprintf(b, sizeof(b), "\\u%04x", c);
        o += b;
      }
      else
        o += static_cast<char>(c);
    }
  }
  return o;
}

struct Opts
{
  std::string out;
  std::string root; // directory whose files are "quill source"
};

class Extractor
{
public:
  Extractor(ASTContext& ctx, Opts const& o, llvm::raw_ostream& os)
    : Ctx(ctx), SM(ctx.getSourceManager()), O(o), OS(os), PP(ctx.getPrintingPolicy())
  {
    PP.SuppressTagKeyword = true;
    PP.Bool = true;
    PP.SuppressUnwrittenScope = true;
    PP.SuppressInlineNamespace = true;
    PP.FullyQualifiedName = true;
    PP.PrintCanonicalTypes = false;
    PP.TerseOutput = true;
  }

  ASTContext& Ctx;
  SourceManager& SM;
  Opts const& O;
  llvm::raw_ostream& OS;
  PrintingPolicy PP;
  std::set<const Decl*> Done;

  // ---- per function state
  std::map<const Stmt*, unsigned> Ids;
  unsigned NextId = 0;
  std::vector<const LambdaExpr*> PendingLambdas;

  std::string fileOf(SourceLocation L, bool& inMain)
  {
    inMain = false;
    if (L.isInvalid()) return "";
    SourceLocation E = SM.getExpansionLoc(L);
    inMain = SM.isInMainFile(E);
    return SM.getFilename(E).str();
  }

  bool isQuillFile(llvm::StringRef f)
  {
    if (f.empty()) return false;
    if (f.find("/bundled/") != llvm::StringRef::npos) return false;
    if (!O.root.empty()) return f.startswith(O.root);
    return f.find("/quill/") != llvm::StringRef::npos;
  }

  bool wanted(const Decl* D)
  {
    bool m;
    std::string f = fileOf(D->getLocation(), m);
    // generated witness units #include the hand-written ones (witness/effects.cpp): their user types and codecs count as well
    return m || isQuillFile(f) || llvm::StringRef(f).find("/witness/") != llvm::StringRef::npos;
  }

  std::string locStr(SourceLocation L)
  {
    if (L.isInvalid()) return "";
    SourceLocation E = SM.getExpansionLoc(L);
    PresumedLoc P = SM.getPresumedLoc(E);
    if (P.isInvalid()) return "";
    std::string f = P.getFilename();
    if (!O.root.empty() && llvm::StringRef(f).startswith(O.root))
    {
      f = f.substr(O.root.size());
      while (!f.empty() && f[0] == '/') f.erase(0, 1);
    }
    else
    {
      auto p = f.find("/include/quill/");
      if (p != std::string::npos) f = f.substr(p + 9);
    }
    return f + ":" + std::to_string(P.getLine()) + ":" + std::to_string(P.getColumn());
  }

  std::string tyStr(QualType T)
  {
    if (T.isNull()) return "";
    return T.getAsString(PP);
  }

  std::string declName(const NamedDecl* ND)
  {
    std::string s;
    llvm::raw_string_ostream os(s);
    ND->getNameForDiagnostic(os, PP, true);
    os.flush();
    return s;
  }

  std::string fnName(const FunctionDecl* FD) { return declName(FD); }

  static bool nothrowSafe(const FunctionProtoType* FPT)
  {
    if (isUnresolvedExceptionSpec(FPT->getExceptionSpecType())) return false;
    return FPT->isNothrow();
  }

  std::string sname(const NamedDecl* D)
  {
    if (!D) return "";
    if (D->getDeclName().isIdentifier()) return D->getName().str();
    return D->getNameAsString();
  }

  std::string fnSig(const FunctionDecl* FD) { return tyStr(FD->getType()); }

  // ------------------------------------------------------------------ AST dump
  void kv(std::string& o, const char* k, llvm::StringRef v)
  {
    o += ",\"";
    o += k;
    o += "\":\"";
    o += jesc(v);
    o += "\"";
  }
  void kvi(std::string& o, const char* k, long long v)
  {
    o += ",\"";
    o += k;
    o += "\":";
    o += std::to_string(v);
  }

  void tryConst(const Expr* E, std::string& o)
  {
    if (!E || E->isValueDependent() || E->isTypeDependent()) return;
    QualType T = E->getType();
    if (T.isNull() || !T->isIntegralOrEnumerationType()) return;
    if (!E->isPRValue() && !isa<DeclRefExpr>(E)) return;
    Expr::EvalResult R;
    if (E->EvaluateAsInt(R, Ctx, Expr::SE_NoSideEffects) && R.Val.isInt())
    {
      llvm::SmallString<32> s;
      R.Val.getInt().toString(s, 10);
      o += ",\"cval\":";
      o += s.str();
    }
  }

  void dumpChildList(const char* key, llvm::ArrayRef<const Stmt*> v, std::string& o)
  {
    o += ",\"";
    o += key;
    o += "\":[";
    bool first = true;
    for (const Stmt* s : v)
    {
      if (!first) o += ",";
      first = false;
      dumpStmt(s, o);
    }
    o += "]";
  }

  void dumpOne(const char* key, const Stmt* s, std::string& o)
  {
    o += ",\"";
    o += key;
    o += "\":";
    dumpStmt(s, o);
  }

  void dumpVarDecl(const VarDecl* VD, std::string& o)
  {
    o += "{\"k\":\"Var\"";
    kvi(o, "id", NextId++);
    kv(o, "name", sname(VD));
    kvi(o, "did", (long long)(uintptr_t)VD->getCanonicalDecl());
    kv(o, "ty", tyStr(VD->getType()));
    kv(o, "loc", locStr(VD->getLocation()));
    if (VD->isStaticLocal()) kvi(o, "static", 1);
    if (VD->getTLSKind() != VarDecl::TLS_None) kvi(o, "tls", 1);
    if (const Expr* I = VD->getInit()) dumpOne("init", I, o);
    o += "}";
  }

  void calleeInfo(const FunctionDecl* FD, std::string& o)
  {
    kv(o, "callee", fnName(FD));
    kv(o, "sig", fnSig(FD));
    if (auto* MD = dyn_cast<CXXMethodDecl>(FD))
    {
      if (MD->isVirtual()) kvi(o, "virt", 1);
      kv(o, "cls", declName(MD->getParent()));
      if (MD->isStatic()) kvi(o, "staticm", 1);
    }
    auto* FPT = FD->getType()->getAs<FunctionProtoType>();
    if (FPT && nothrowSafe(FPT)) kvi(o, "nothrow", 1);
    if (!FD->isDefined()) kvi(o, "nobody", 1);
    bool m;
    std::string f = fileOf(FD->getLocation(), m);
    if (m || isQuillFile(f)) kvi(o, "inq", 1);
  }

  void dumpStmt(const Stmt* S, std::string& o)
  {
    if (!S)
    {
      o += "null";
      return;
    }
    unsigned id;
    auto it = Ids.find(S);
    if (it == Ids.end())
    {
      id = NextId++;
      Ids[S] = id;
    }
    else
      id = it->second;

    o += "{\"k\":\"";
    o += S->getStmtClassName();
    o += "\"";
    kvi(o, "id", id);
    kv(o, "loc", locStr(S->getBeginLoc()));

    if (auto* E = dyn_cast<Expr>(S))
    {
      // cheap constant evaluation of integral prvalues that are not plain literals
      if (!isa<IntegerLiteral>(E) && !isa<CXXBoolLiteralExpr>(E) && !isa<CharacterLiteral>(E))
        tryConst(E, o);
    }

    // ---- specific kinds
    if (auto* DRE = dyn_cast<DeclRefExpr>(S))
    {
      const ValueDecl* D = DRE->getDecl();
      kv(o, "dk", D->getDeclKindName());
      if (auto* FD = dyn_cast<FunctionDecl>(D))
      {
        kv(o, "name", fnName(FD));
        kv(o, "sig", fnSig(FD));
      }
      else if (isa<ParmVarDecl>(D) || (isa<VarDecl>(D) && cast<VarDecl>(D)->isLocalVarDecl()))
      {
        kv(o, "name", sname(D));
      }
      else
      {
        kv(o, "name", declName(D));
      }
      kvi(o, "did", (long long)(uintptr_t)D->getCanonicalDecl());
      kv(o, "ty", tyStr(DRE->getType()));
      o += "}";
      return;
    }
    if (auto* ME = dyn_cast<MemberExpr>(S))
    {
      const ValueDecl* D = ME->getMemberDecl();
      kv(o, "member", declName(D));
      kv(o, "mname", sname(D));
      kv(o, "dk", D->getDeclKindName());
      if (ME->isArrow()) kvi(o, "arrow", 1);
      kv(o, "ty", tyStr(ME->getType()));
      if (auto* FD = dyn_cast<FieldDecl>(D))
      {
        if (FD->isMutable()) kvi(o, "mutable", 1);
      }
      dumpOne("base", ME->getBase(), o);
      o += "}";
      return;
    }
    if (auto* CE = dyn_cast<CallExpr>(S))
    {
      if (const FunctionDecl* FD = CE->getDirectCallee())
        calleeInfo(FD, o);
      else
        kvi(o, "indirect", 1);
      kv(o, "ty", tyStr(CE->getType()));
      if (auto* MCE = dyn_cast<CXXMemberCallExpr>(CE))
      {
        // a qualified call X::f() is not dispatched virtually
        if (auto* ME = dyn_cast<MemberExpr>(MCE->getCallee()->IgnoreParens()))
          if (ME->hasQualifier()) kvi(o, "qualified", 1);
      }
      dumpOne("fn", CE->getCallee(), o);
      std::vector<const Stmt*> args;
      for (const Expr* A : CE->arguments()) args.push_back(A);
      dumpChildList("args", args, o);
      o += "}";
      return;
    }
    if (auto* CE = dyn_cast<CXXConstructExpr>(S))
    {
      calleeInfo(CE->getConstructor(), o);
      kv(o, "ty", tyStr(CE->getType()));
      if (CE->isElidable()) kvi(o, "elidable", 1);
      if (CE->getConstructor()->isCopyOrMoveConstructor()) kvi(o, "copy", 1);
      if (CE->isListInitialization()) kvi(o, "listinit", 1);
      std::vector<const Stmt*> args;
      for (const Expr* A : CE->arguments()) args.push_back(A);
      dumpChildList("args", args, o);
      o += "}";
      return;
    }
    if (auto* NE = dyn_cast<CXXNewExpr>(S))
    {
      kv(o, "ty", tyStr(NE->getAllocatedType()));
      if (NE->getOperatorNew()) kv(o, "opnew", fnName(NE->getOperatorNew()));
      if (NE->isArray()) kvi(o, "array", 1);
      std::vector<const Stmt*> ch;
      for (const Stmt* c : NE->children()) ch.push_back(c);
      dumpChildList("c", ch, o);
      o += "}";
      return;
    }
    if (auto* DE = dyn_cast<CXXDeleteExpr>(S))
    {
      kv(o, "ty", tyStr(DE->getDestroyedType()));
      if (DE->isArrayForm()) kvi(o, "array", 1);
      dumpOne("arg", DE->getArgument(), o);
      o += "}";
      return;
    }
    if (auto* IL = dyn_cast<IntegerLiteral>(S))
    {
      llvm::SmallString<32> s;
      IL->getValue().toString(s, 10, false);
      o += ",\"val\":";
      o += s.str();
      kv(o, "ty", tyStr(IL->getType()));
      o += "}";
      return;
    }
    if (auto* BL = dyn_cast<CXXBoolLiteralExpr>(S))
    {
      kvi(o, "val", BL->getValue() ? 1 : 0);
      o += "}";
      return;
    }
    if (auto* CL = dyn_cast<CharacterLiteral>(S))
    {
      kvi(o, "val", CL->getValue());
      o += "}";
      return;
    }
    if (auto* FL = dyn_cast<FloatingLiteral>(S))
    {
      llvm::SmallString<32> s;
      FL->getValue().toString(s);
      kv(o, "fval", s.str());
      o += "}";
      return;
    }
    if (auto* SL = dyn_cast<StringLiteral>(S))
    {
      if (SL->getCharByteWidth() == 1)
        kv(o, "str", SL->getBytes());
      else
        kvi(o, "wide", 1);
      kvi(o, "len", SL->getLength());
      o += "}";
      return;
    }
    if (isa<CXXNullPtrLiteralExpr>(S) || isa<GNUNullExpr>(S))
    {
      o += "}";
      return;
    }
    if (isa<CXXThisExpr>(S))
    {
      o += "}";
      return;
    }
    if (auto* UE = dyn_cast<UnaryExprOrTypeTraitExpr>(S))
    {
      kv(o, "trait", getTraitSpelling(UE->getKind()));
      kv(o, "argty", tyStr(UE->getTypeOfArgument()));
      o += "}";
      return;
    }
    if (auto* BO = dyn_cast<BinaryOperator>(S))
    {
      kv(o, "op", BO->getOpcodeStr());
      dumpOne("lhs", BO->getLHS(), o);
      dumpOne("rhs", BO->getRHS(), o);
      o += "}";
      return;
    }
    if (auto* UO = dyn_cast<UnaryOperator>(S))
    {
      kv(o, "op", UnaryOperator::getOpcodeStr(UO->getOpcode()));
      if (UO->isPostfix()) kvi(o, "postfix", 1);
      dumpOne("sub", UO->getSubExpr(), o);
      o += "}";
      return;
    }
    if (auto* CO = dyn_cast<ConditionalOperator>(S))
    {
      dumpOne("cond", CO->getCond(), o);
      dumpOne("then", CO->getTrueExpr(), o);
      dumpOne("else", CO->getFalseExpr(), o);
      o += "}";
      return;
    }
    if (auto* CastE = dyn_cast<CastExpr>(S))
    {
      kv(o, "ck", CastE->getCastKindName());
      kv(o, "ty", tyStr(CastE->getType()));
      if (isa<ImplicitCastExpr>(S)) kvi(o, "imp", 1);
      dumpOne("sub", CastE->getSubExpr(), o);
      o += "}";
      return;
    }
    if (auto* DA = dyn_cast<CXXDefaultArgExpr>(S))
    {
      dumpOne("sub", DA->getExpr(), o);
      o += "}";
      return;
    }
    if (auto* DI = dyn_cast<CXXDefaultInitExpr>(S))
    {
      dumpOne("sub", DI->getExpr(), o);
      o += "}";
      return;
    }
    if (auto* LE = dyn_cast<LambdaExpr>(S))
    {
      PendingLambdas.push_back(LE);
      kv(o, "lambda", lambdaName(LE));
      std::vector<const Stmt*> caps;
      for (const Expr* c : LE->capture_inits()) caps.push_back(c);
      dumpChildList("caps", caps, o);
      dumpOne("body", LE->getBody(), o);
      o += "}";
      return;
    }
    if (auto* DS = dyn_cast<DeclStmt>(S))
    {
      o += ",\"decls\":[";
      bool first = true;
      for (const Decl* D : DS->decls())
      {
        if (auto* VD = dyn_cast<VarDecl>(D))
        {
          if (!first) o += ",";
          first = false;
          dumpVarDecl(VD, o);
        }
      }
      o += "]}";
      return;
    }
    if (auto* IS = dyn_cast<IfStmt>(S))
    {
      if (IS->isConstexpr()) kvi(o, "constexpr", 1);
      if (IS->getInit()) dumpOne("init", IS->getInit(), o);
      if (IS->getConditionVariableDeclStmt()) dumpOne("condvar", IS->getConditionVariableDeclStmt(), o);
      dumpOne("cond", IS->getCond(), o);
      dumpOne("then", IS->getThen(), o);
      dumpOne("else", IS->getElse(), o);
      o += "}";
      return;
    }
    if (auto* WS = dyn_cast<WhileStmt>(S))
    {
      dumpOne("cond", WS->getCond(), o);
      dumpOne("body", WS->getBody(), o);
      o += "}";
      return;
    }
    if (auto* DoS = dyn_cast<DoStmt>(S))
    {
      dumpOne("body", DoS->getBody(), o);
      dumpOne("cond", DoS->getCond(), o);
      o += "}";
      return;
    }
    if (auto* FS = dyn_cast<ForStmt>(S))
    {
      dumpOne("init", FS->getInit(), o);
      dumpOne("cond", FS->getCond(), o);
      dumpOne("inc", FS->getInc(), o);
      dumpOne("body", FS->getBody(), o);
      o += "}";
      return;
    }
    if (auto* RF = dyn_cast<CXXForRangeStmt>(S))
    {
      dumpOne("range", RF->getRangeInit(), o);
      o += ",\"loopvar\":";
      dumpVarDecl(RF->getLoopVariable(), o);
      dumpOne("rangestmt", RF->getRangeStmt(), o);
      dumpOne("beginstmt", RF->getBeginStmt(), o);
      dumpOne("endstmt", RF->getEndStmt(), o);
      dumpOne("cond", RF->getCond(), o);
      dumpOne("inc", RF->getInc(), o);
      dumpOne("loopvarstmt", RF->getLoopVarStmt(), o);
      dumpOne("body", RF->getBody(), o);
      o += "}";
      return;
    }
    if (auto* SS = dyn_cast<SwitchStmt>(S))
    {
      dumpOne("cond", SS->getCond(), o);
      dumpOne("body", SS->getBody(), o);
      o += "}";
      return;
    }
    if (auto* CS = dyn_cast<CaseStmt>(S))
    {
      dumpOne("lhs", CS->getLHS(), o);
      dumpOne("sub", CS->getSubStmt(), o);
      o += "}";
      return;
    }
    if (auto* DfS = dyn_cast<DefaultStmt>(S))
    {
      dumpOne("sub", DfS->getSubStmt(), o);
      o += "}";
      return;
    }
    if (auto* TS = dyn_cast<CXXTryStmt>(S))
    {
      dumpOne("tryblock", TS->getTryBlock(), o);
      o += ",\"handlers\":[";
      for (unsigned i = 0; i < TS->getNumHandlers(); ++i)
      {
        if (i) o += ",";
        dumpStmt(TS->getHandler(i), o);
      }
      o += "]}";
      return;
    }
    if (auto* CS = dyn_cast<CXXCatchStmt>(S))
    {
      if (CS->getExceptionDecl())
        kv(o, "caught", tyStr(CS->getCaughtType()));
      else
        kv(o, "caught", "...");
      dumpOne("body", CS->getHandlerBlock(), o);
      o += "}";
      return;
    }
    if (auto* RS = dyn_cast<ReturnStmt>(S))
    {
      dumpOne("val", RS->getRetValue(), o);
      o += "}";
      return;
    }
    if (auto* TE = dyn_cast<CXXThrowExpr>(S))
    {
      dumpOne("sub", TE->getSubExpr(), o);
      o += "}";
      return;
    }
    if (auto* IL = dyn_cast<InitListExpr>(S))
    {
      kv(o, "ty", tyStr(IL->getType()));
      std::vector<const Stmt*> ch;
      for (const Expr* c : IL->inits()) ch.push_back(c);
      dumpChildList("c", ch, o);
      o += "}";
      return;
    }
    if (auto* SOP = dyn_cast<SizeOfPackExpr>(S))
    {
      (void)SOP;
      o += "}";
      return;
    }
    if (auto* TT = dyn_cast<TypeTraitExpr>(S))
    {
      if (!TT->isValueDependent()) kvi(o, "val", TT->getValue() ? 1 : 0);
      o += "}";
      return;
    }
    if (auto* MTE = dyn_cast<MaterializeTemporaryExpr>(S))
    {
      kv(o, "ty", tyStr(MTE->getType()));
      dumpOne("sub", MTE->getSubExpr(), o);
      o += "}";
      return;
    }
    if (auto* AS = dyn_cast<ArraySubscriptExpr>(S))
    {
      dumpOne("base", AS->getBase(), o);
      dumpOne("idx", AS->getIdx(), o);
      o += "}";
      return;
    }
    // generic: children
    {
      if (auto* E = dyn_cast<Expr>(S)) kv(o, "ty", tyStr(E->getType()));
      std::vector<const Stmt*> ch;
      for (const Stmt* c : S->children()) ch.push_back(c);
      dumpChildList("c", ch, o);
      o += "}";
    }
  }

  std::string lambdaName(const LambdaExpr* LE)
  {
    return "lambda@" + locStr(LE->getBeginLoc());
  }

  // ------------------------------------------------------------------ CFG dump
  void dumpCFG(const Decl* D, const Stmt* Body, std::string& o, std::string& synth)
  {
    CFG::BuildOptions BO;
    BO.setAllAlwaysAdd();
    BO.AddImplicitDtors = true;
    BO.AddInitializers = true;
    BO.AddEHEdges = false;
    BO.AddTemporaryDtors = false;
    BO.PruneTriviallyFalseEdges = true;
    std::unique_ptr<CFG> G = CFG::buildCFG(D, const_cast<Stmt*>(Body), &Ctx, BO);
    if (!G)
    {
      o += "null";
      return;
    }
    o += "{\"entry\":" + std::to_string(G->getEntry().getBlockID()) +
      ",\"exit\":" + std::to_string(G->getExit().getBlockID()) + ",\"blocks\":[";
    bool firstB = true;
    for (const CFGBlock* B : *G)
    {
      if (!firstB) o += ",";
      firstB = false;
      o += "{\"id\":" + std::to_string(B->getBlockID());
      o += ",\"el\":[";
      bool firstE = true;
      for (const CFGElement& El : *B)
      {
        std::string e;
        if (auto S = El.getAs<CFGStmt>())
        {
          const Stmt* St = S->getStmt();
          auto it = Ids.find(St);
          unsigned id;
          if (it == Ids.end())
          {
            // synthesized statement (e.g. split DeclStmt): dump separately
            if (!synth.empty()) synth += ",";
            dumpStmt(St, synth);
            id = Ids[St];
          }
          else
            id = it->second;
          e = std::to_string(id);
        }
        else if (auto I = El.getAs<CFGInitializer>())
        {
          const CXXCtorInitializer* CI = I->getInitializer();
          e = "{\"init\":\"";
          if (CI->isAnyMemberInitializer())
            e += jesc(sname(CI->getAnyMember()));
          else if (CI->isBaseInitializer())
            e += "base";
          else
            e += "delegating";
          e += "\"";
          auto it = Ids.find(CI->getInit());
          if (it != Ids.end()) e += ",\"id\":" + std::to_string(it->second);
          e += "}";
        }
        else if (auto AD = El.getAs<CFGAutomaticObjDtor>())
        {
          const VarDecl* VD = AD->getVarDecl();
          e = "{\"dtor\":\"" + jesc(sname(VD)) + "\",\"did\":" +
            std::to_string((long long)(uintptr_t)VD->getCanonicalDecl()) + ",\"ty\":\"" +
            jesc(tyStr(VD->getType())) + "\"}";
        }
        else
          continue;
        if (!firstE) o += ",";
        firstE = false;
        o += e;
      }
      o += "]";
      // successors (null = pruned / unreachable)
      o += ",\"succ\":[";
      bool firstS = true;
      for (auto I = B->succ_begin(); I != B->succ_end(); ++I)
      {
        if (!firstS) o += ",";
        firstS = false;
        const CFGBlock* SB = I->getReachableBlock();
        if (SB)
          o += std::to_string(SB->getBlockID());
        else
          o += "null";
      }
      o += "]";
      if (const Stmt* T = B->getTerminatorStmt())
      {
        o += ",\"term\":\"";
        o += T->getStmtClassName();
        o += "\"";
        auto it = Ids.find(T);
        if (it != Ids.end()) o += ",\"termid\":" + std::to_string(it->second);
        if (const Stmt* C = B->getTerminatorCondition())
        {
          auto ic = Ids.find(C);
          if (ic != Ids.end()) o += ",\"cond\":" + std::to_string(ic->second);
        }
      }
      if (const Stmt* L = B->getLabel())
      {
        o += ",\"label\":\"";
        o += L->getStmtClassName();
        o += "\"";
        auto it = Ids.find(L);
        if (it != Ids.end()) o += ",\"labelid\":" + std::to_string(it->second);
      }
      if (B->hasNoReturnElement()) o += ",\"noreturn\":1";
      o += "}";
    }
    o += "]}";
  }

  // ------------------------------------------------------------- function emit
  void emitBody(const Decl* D, const FunctionDecl* FD, const Stmt* Body, std::string const& name,
                std::string const& parentFn)
  {
    Ids.clear();
    NextId = 0;
    std::vector<const LambdaExpr*> savedPending;
    savedPending.swap(PendingLambdas);

    std::string o = "{\"rec\":\"fn\"";
    kv(o, "fn", name);
    kv(o, "sig", fnSig(FD));
    kv(o, "loc", locStr(FD->getLocation()));
    bool m;
    fileOf(FD->getLocation(), m);
    if (m) kvi(o, "main", 1);
    if (!parentFn.empty()) kv(o, "parent", parentFn);
    if (auto* MD = dyn_cast<CXXMethodDecl>(FD))
    {
      kv(o, "cls", declName(MD->getParent()));
      if (MD->isVirtual()) kvi(o, "virt", 1);
      if (MD->isConst()) kvi(o, "const", 1);
      if (MD->isStatic()) kvi(o, "staticm", 1);
      kv(o, "access", getAccessSpelling(MD->getAccess()));
      if (isa<CXXConstructorDecl>(MD)) kvi(o, "ctor", 1);
      if (isa<CXXDestructorDecl>(MD)) kvi(o, "dtor", 1);
      for (const CXXMethodDecl* OM : MD->overridden_methods())
      {
        kv(o, "overrides", fnName(OM));
        break;
      }
    }
    auto* FPT = FD->getType()->getAs<FunctionProtoType>();
    if (FPT && nothrowSafe(FPT)) kvi(o, "nothrow", 1);
    kv(o, "ret", tyStr(FD->getReturnType()));
    kv(o, "cret", tyStr(FD->getReturnType().getCanonicalType()));
    o += ",\"params\":[";
    bool first = true;
    for (const ParmVarDecl* P : FD->parameters())
    {
      if (!first) o += ",";
      first = false;
      o += "{\"name\":\"" + jesc(sname(P)) + "\",\"did\":" +
        std::to_string((long long)(uintptr_t)P->getCanonicalDecl()) + ",\"ty\":\"" + jesc(tyStr(P->getType())) + "\"}";
    }
    o += "]";
    if (auto* TA = FD->getTemplateSpecializationArgs())
    {
      o += ",\"targs\":[";
      bool f2 = true;
      for (const TemplateArgument& A : TA->asArray())
      {
        if (!f2) o += ",";
        f2 = false;
        std::string s;
        llvm::raw_string_ostream os(s);
        A.print(PP, os, true);
        os.flush();
        o += "\"" + jesc(s) + "\"";
      }
      o += "]";
    }
    // ctor initialisers
    if (auto* CD = dyn_cast<CXXConstructorDecl>(FD))
    {
      o += ",\"inits\":[";
      bool f3 = true;
      for (const CXXCtorInitializer* CI : CD->inits())
      {
        if (!f3) o += ",";
        f3 = false;
        o += "{\"member\":\"";
        if (CI->isAnyMemberInitializer())
          o += jesc(sname(CI->getAnyMember()));
        else if (CI->isBaseInitializer())
          o += "base:" + jesc(tyStr(QualType(CI->getBaseClass(), 0)));
        else
          o += "delegating";
        o += "\"";
        if (CI->isWritten()) o += ",\"written\":1";
        dumpOne("expr", CI->getInit(), o);
        o += "}";
      }
      o += "]";
    }
    dumpOne("body", Body, o);
    std::string cfg, synth;
    dumpCFG(D, Body, cfg, synth);
    o += ",\"synth\":[" + synth + "]";
    o += ",\"cfg\":" + cfg;
    o += "}\n";
    OS << o;

    std::vector<const LambdaExpr*> mine;
    mine.swap(PendingLambdas);
    PendingLambdas.swap(savedPending);
    for (const LambdaExpr* LE : mine)
    {
      const CXXMethodDecl* CO = LE->getCallOperator();
      if (!CO) continue;
      // generic lambda: emit every instantiated specialisation of the call operator
      if (const CXXRecordDecl* LC = LE->getLambdaClass())
      {
        if (FunctionTemplateDecl* FTD = LC->getDependentLambdaCallOperator())
        {
          unsigned k = 0;
          for (FunctionDecl* Spec : FTD->specializations())
          {
            if (!Spec->hasBody() || Spec->isDependentContext()) continue;
            const FunctionDecl* Def = nullptr;
            if (!Spec->hasBody(Def) || !Def) continue;
            emitBody(Def, Def, Def->getBody(), name + "::" + lambdaName(LE) + "#" + std::to_string(k++), name);
          }
          continue;
        }
      }
      if (!CO->hasBody()) continue;
      if (CO->isDependentContext()) continue;
      emitBody(CO, CO, CO->getBody(), name + "::" + lambdaName(LE), name);
    }
  }

  void handleFunction(const FunctionDecl* FD)
  {
    if (!FD->doesThisDeclarationHaveABody()) return;
    if (FD->isDependentContext()) return;
    if (FD->isDefaulted() && !FD->getBody()) return;
    if (!wanted(FD)) return;
    if (auto* MD = dyn_cast<CXXMethodDecl>(FD))
      if (MD->getParent()->isLambda()) return; // emitted with the enclosing function
    if (!Done.insert(FD).second) return;
    const Stmt* Body = FD->getBody();
    if (!Body) return;
    emitBody(FD, FD, Body, fnName(FD), "");
  }

  void handleRecord(const CXXRecordDecl* RD)
  {
    if (!RD->isCompleteDefinition() || RD->isDependentContext() || RD->isLambda()) return;
    if (!wanted(RD)) return;
    if (!Done.insert(RD).second) return;
    if (getenv("QFACTS_DEBUG")) llvm::errs() << "class " << declName(RD) << "\n";
    std::string o = "{\"rec\":\"class\"";
    kv(o, "name", declName(RD));
    kv(o, "loc", locStr(RD->getLocation()));
    o += ",\"bases\":[";
    bool first = true;
    for (auto const& B : RD->bases())
    {
      if (!first) o += ",";
      first = false;
      o += "\"" + jesc(tyStr(B.getType())) + "\"";
    }
    o += "],\"fields\":[";
    first = true;
    for (const FieldDecl* F : RD->fields())
    {
      if (!first) o += ",";
      first = false;
      o += "{\"name\":\"" + jesc(sname(F)) + "\"";
      kv(o, "ty", tyStr(F->getType()));
      kv(o, "cty", tyStr(F->getType().getCanonicalType()));
      QualType T = F->getType();
      if (!T->isDependentType() && !T->isIncompleteType())
        kvi(o, "bits", (long long)Ctx.getTypeSize(T));
      if (T.isConstQualified()) kvi(o, "const", 1);
      if (F->isMutable()) kvi(o, "mutable", 1);
      kv(o, "access", getAccessSpelling(F->getAccess()));
      kv(o, "loc", locStr(F->getLocation()));
      if (F->hasInClassInitializer() && F->getInClassInitializer())
      {
        Ids.clear();
        NextId = 0;
        dumpOne("init", F->getInClassInitializer(), o);
      }
      o += "}";
    }
    o += "],\"methods\":[";
    first = true;
    for (const CXXMethodDecl* M : RD->methods())
    {
      if (M->isImplicit()) continue;
      if (!first) o += ",";
      first = false;
      o += "{\"name\":\"" + jesc(fnName(M)) + "\"";
      kv(o, "sig", fnSig(M));
      kv(o, "access", getAccessSpelling(M->getAccess()));
      if (M->isVirtual()) kvi(o, "virt", 1);
      if (M->isPure()) kvi(o, "pure", 1);
      auto* FPT = M->getType()->getAs<FunctionProtoType>();
      if (FPT && nothrowSafe(FPT)) kvi(o, "nothrow", 1);
      o += "}";
    }
    o += "]}\n";
    OS << o;
  }

  void handleEnum(const EnumDecl* ED)
  {
    if (!ED->isCompleteDefinition()) return;
    if (!wanted(ED)) return;
    if (!Done.insert(ED).second) return;
    std::string o = "{\"rec\":\"enum\"";
    kv(o, "name", declName(ED));
    kv(o, "loc", locStr(ED->getLocation()));
    kv(o, "underlying", tyStr(ED->getIntegerType()));
    o += ",\"enumerators\":[";
    bool first = true;
    for (const EnumConstantDecl* EC : ED->enumerators())
    {
      if (!first) o += ",";
      first = false;
      llvm::SmallString<32> s;
      EC->getInitVal().toString(s, 10);
      o += "[\"" + jesc(sname(EC)) + "\"," + s.str().str() + "]";
    }
    o += "]}\n";
    OS << o;
  }

  void handleVar(const VarDecl* VD)
  {
    if (VD->isLocalVarDeclOrParm()) return;
    if (!VD->hasInit()) return;
    if (VD->getDeclContext()->isDependentContext()) return;
    if (VD->getType()->isDependentType()) return;
    if (!wanted(VD)) return;
    if (!Done.insert(VD).second) return;
    Ids.clear();
    NextId = 0;
    std::vector<const LambdaExpr*> saved;
    saved.swap(PendingLambdas);
    std::string o = "{\"rec\":\"var\"";
    kv(o, "name", declName(VD));
    kv(o, "loc", locStr(VD->getLocation()));
    kv(o, "ty", tyStr(VD->getType()));
    if (VD->isConstexpr()) kvi(o, "constexpr", 1);
    dumpOne("init", VD->getInit(), o);
    o += "}\n";
    OS << o;
    PendingLambdas.swap(saved);
  }
};

class Visitor : public RecursiveASTVisitor<Visitor>
{
public:
  explicit Visitor(Extractor& e) : E(e) {}
  bool shouldVisitTemplateInstantiations() const { return true; }
  bool shouldVisitImplicitCode() const { return false; }
  bool VisitFunctionDecl(FunctionDecl* FD)
  {
    E.handleFunction(FD);
    return true;
  }
  bool VisitCXXRecordDecl(CXXRecordDecl* RD)
  {
    E.handleRecord(RD);
    return true;
  }
  bool VisitEnumDecl(EnumDecl* ED)
  {
    E.handleEnum(ED);
    return true;
  }
  bool VisitVarDecl(VarDecl* VD)
  {
    E.handleVar(VD);
    return true;
  }
  Extractor& E;
};

class Consumer : public ASTConsumer
{
public:
  explicit Consumer(Opts o) : O(std::move(o)) {}
  void HandleTranslationUnit(ASTContext& Ctx) override
  {
    if (Ctx.getDiagnostics().hasErrorOccurred())
    {
      llvm::errs() << "qfacts: translation unit has errors, no facts written\n";
      return;
    }
    std::error_code EC;
    llvm::raw_fd_ostream OS(O.out, EC);
    if (EC)
    {
      llvm::errs() << "qfacts: cannot open " << O.out << "\n";
      return;
    }
    Extractor E(Ctx, O, OS);
    Visitor V(E);
    V.TraverseDecl(Ctx.getTranslationUnitDecl());
    OS << "{\"rec\":\"end\"}\n";
  }
  Opts O;
};

class Action : public PluginASTAction
{
protected:
  std::unique_ptr<ASTConsumer> CreateASTConsumer(CompilerInstance&, llvm::StringRef) override
  {
    return std::make_unique<Consumer>(O);
  }
  bool ParseArgs(const CompilerInstance&, const std::vector<std::string>& args) override
  {
    for (auto const& a : args)
    {
      if (a.rfind("out=", 0) == 0) O.out = a.substr(4);
      if (a.rfind("root=", 0) == 0) O.root = a.substr(5);
    }
    if (O.out.empty()) O.out = "qfacts.jsonl";
    return true;
  }
  Opts O;
};
} // namespace

static FrontendPluginRegistry::Add<Action> X("qfacts", "quill fact extractor");
