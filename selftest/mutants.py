# Breaking edits (each still compiles; by inspection invisible to the pinned suite). 'rule' must be reported.
B = "core/BoundedSPSCQueue.h"
U = "core/UnboundedSPSCQueue.h"
BW = "backend/BackendWorker.h"
TC = "core/ThreadContextManager.h"
LM = "core/LoggerManager.h"
MAC = "LogMacros.h"
PFH = "backend/PatternFormatter.h"
TFH = "backend/TimestampFormatter.h"
SFH = "backend/StringFromTime.h"
RSH = "sinks/RotatingSink.h"
CDC = "core/Codec.h"
CASES = [
 # ---------------- C01
 dict(name="c01-commit_write-relaxed", ids=["C01"], rule="C01.R1b", subs=[(B, "_atomic_writer_pos.store(_writer_pos, std::memory_order_release)", "_atomic_writer_pos.store(_writer_pos, std::memory_order_relaxed)")]),
 dict(name="c01-commit_read-relaxed", ids=["C01"], rule="C01.R1b", subs=[(B, "_atomic_reader_pos.store(_reader_pos, std::memory_order_release)", "_atomic_reader_pos.store(_reader_pos, std::memory_order_relaxed)")]),
 dict(name="c01-empty-load-relaxed", ids=["C01"], rule="C01.R1c", subs=[(B, "_writer_pos_cache = _atomic_writer_pos.load(std::memory_order_acquire)", "_writer_pos_cache = _atomic_writer_pos.load(std::memory_order_relaxed)")]),
 dict(name="c01-prepare_write-load-relaxed", ids=["C01"], rule="C01.R1c", subs=[(B, "_reader_pos_cache = _atomic_reader_pos.load(std::memory_order_acquire)", "_reader_pos_cache = _atomic_reader_pos.load(std::memory_order_relaxed)")]),
 dict(name="c01-first-guard-le", ids=["C01"], rule="C01.R4", subs=[(B, """    if ((_capacity - static_cast<integer_type>(_writer_pos - _reader_pos_cache)) < n)
    {
      // not enough""", """    if ((_capacity - static_cast<integer_type>(_writer_pos - _reader_pos_cache)) <= n)
    {
      // not enough""")]),
 dict(name="c01-second-guard-removed", ids=["C01"], rule="C01.R4", subs=[(B, """      if ((_capacity - static_cast<integer_type>(_writer_pos - _reader_pos_cache)) < n)
      {
        return nullptr;
      }""", "")]),
 dict(name="c01-guard-drop-cast", ids=["C01"], rule="C01.R4a", subs=[(B, """    if ((_capacity - static_cast<integer_type>(_writer_pos - _reader_pos_cache)) < n)
    {
      // not enough""", """    if ((_capacity - (_writer_pos - _reader_pos_cache)) < n)
    {
      // not enough""")]),
 dict(name="c01-storage-1x", ids=["C01"], rule="C01.R5c", subs=[(B, "_alloc_aligned(\n        2ull * static_cast<uint64_t>(_capacity)", "_alloc_aligned(\n        1ull * static_cast<uint64_t>(_capacity)")]),
 dict(name="c01-mask-wrong", ids=["C01"], rule="C01.R5b", subs=[(B, "_mask(_capacity - 1),", "_mask(capacity - 1),")]),
 dict(name="c01-prepare_write-reads-reader_pos", ids=["C01"], rule="C01.R2", subs=[(B, "    return _storage + (_writer_pos & _mask);\n  }\n\n  QUILL_ATTRIBUTE_HOT void finish_write", "    if (_reader_pos == _writer_pos) { _reader_pos_cache = _reader_pos; }\n    return _storage + (_writer_pos & _mask);\n  }\n\n  QUILL_ATTRIBUTE_HOT void finish_write")]),
 dict(name="c01-commit-before-finish", ids=["C01"], rule="C01.R3b", subs=[(B, "    finish_write(n);\n    commit_write();", "    commit_write();\n    finish_write(n);")]),
 dict(name="c01-publish-cache-instead-of-pos", ids=["C01"], rule="C01.R3c", subs=[(B, "_atomic_writer_pos.store(_writer_pos, std::memory_order_release)", "_atomic_writer_pos.store(_reader_pos_cache, std::memory_order_release)")]),
 dict(name="c01-commit-before-encode", ids=["C01"], rule="C01.R3a", subs=[("Logger.h", """    // encode remaining arguments
    detail::encode(write_buffer, thread_context->get_conditional_arg_size_cache(), fmt_args...);
""", """    thread_context->get_spsc_queue<frontend_options_t::queue_type>().finish_and_commit_write(total_size);
    // encode remaining arguments
    detail::encode(write_buffer, thread_context->get_conditional_arg_size_cache(), fmt_args...);
"""), ("Logger.h", """#endif

    thread_context->get_spsc_queue<frontend_options_t::queue_type>().finish_and_commit_write(total_size);

    if constexpr (immediate_flush)""", """#endif

    if constexpr (immediate_flush)""")]),
 dict(name="c01-empty-second-test-dropped", ids=["C01"], rule="C01.R4", subs=[(B, """      if (_writer_pos_cache == _reader_pos)
      {
        return true;
      }
    }

    return false;""", """      return true;
    }

    return false;""")]),
 # ---------------- C02
 dict(name="c02-prefix-preallocate", ids=["C02"], rule="C02.R1d", subs=[("Frontend.h", "auto const volatile spsc_queue_capacity = get_thread_local_queue_capacity();", "auto const volatile spsc_queue_capacity = detail::get_local_thread_context<TFrontendOptions>()->template get_spsc_queue<TFrontendOptions::queue_type>().capacity();")]),
 dict(name="c02-next-store-relaxed", ids=["C02"], rule="C02.R1b", subs=[(U, """    _producer->next.store(next_node, std::memory_order_release);

    // producer is now using the next node
    _producer = next_node;

    // reserve again""", """    _producer->next.store(next_node, std::memory_order_relaxed);

    // producer is now using the next node
    _producer = next_node;

    // reserve again""")]),
 dict(name="c02-next-load-relaxed", ids=["C02"], rule="C02.R1c", subs=[(U, "Node* const next_node = _consumer->next.load(std::memory_order_acquire);", "Node* const next_node = _consumer->next.load(std::memory_order_relaxed);")]),
 dict(name="c02-recheck-removed", ids=["C02"], rule="C02.R3", subs=[(U, """    if (read_result.read_pos)
    {
      return read_result;
    }

    // Switch to the new buffer for reading""", """    // Switch to the new buffer for reading""")]),
 dict(name="c02-capacity-read-after-delete", ids=["C02"], rule="C02.R3e", subs=[(U, """    auto const previous_capacity = _consumer->bounded_queue.capacity();
    delete _consumer;
""", """    delete _consumer;
    auto const previous_capacity = _consumer->bounded_queue.capacity();
""")]),
 dict(name="c02-commit-old-node-after-publish", ids=["C02"], rule="C02.R2c", subs=[(U, """    // commit previous write to the old queue before switching
    _producer->bounded_queue.commit_write();

    // We failed to reserve""", """    // We failed to reserve"""), (U, """    _producer->next.store(next_node, std::memory_order_release);

    // producer is now using the next node
    _producer = next_node;

    // reserve again""", """    _producer->next.store(next_node, std::memory_order_release);
    _producer->bounded_queue.commit_write();

    // producer is now using the next node
    _producer = next_node;

    // reserve again""")]),
 dict(name="c02-alloc-before-cap-check", ids=["C02"], rule="C02.R4", subs=[(U, """    if (QUILL_UNLIKELY(capacity > _max_capacity))
    {
      if (nbytes > _max_capacity)""", """    auto const next_node = new Node{capacity, _producer->bounded_queue.huge_pages_policy()};
    if (QUILL_UNLIKELY(capacity > _max_capacity))
    {
      delete next_node;
      if (nbytes > _max_capacity)"""), (U, """    // We failed to reserve because the queue was full, create a new node with a new queue
    auto const next_node = new Node{capacity, _producer->bounded_queue.huge_pages_policy()};
""", "")]),
 dict(name="c02-outcomes-swapped", ids=["C02"], rule="C02.R4d", subs=[(U, "      if (nbytes > _max_capacity)\n      {\n        QUILL_THROW(", "      if (nbytes <= _max_capacity)\n      {\n        QUILL_THROW(")]),
 dict(name="c02-shrink-grows", ids=["C02"], rule="C02.R4e", subs=[(U, "if (capacity > (_producer->bounded_queue.capacity() >> 1))", "if (capacity < (_producer->bounded_queue.capacity() >> 1))")]),
 dict(name="c02-delete-after-switch", ids=["C02"], rule="C02.R3", subs=[(U, """    delete _consumer;

    _consumer = next_node;""", """    _consumer = next_node;
    delete _consumer;
""")]),

 # ---------------- C09
 dict(name="c09-prefix-commit_read", ids=["C09"], rule="C09.R1", subs=[(B, " ||\n        (_reader_pos == _writer_pos_cache))", ")")]),
 dict(name="c09-stale-retry", ids=["C09"], rule="C09.R2a", subs=[("Logger.h", """          // not enough space to push to queue, keep trying
          write_buffer = _prepare_write_buffer(total_size);
        } while (write_buffer == nullptr);""", """          // not enough space to push to queue, keep trying
          (void)_prepare_write_buffer(total_size);
        } while (false);
        write_buffer = _prepare_write_buffer(total_size);""")]),
 dict(name="c09-commit_read-only-when-capacity-reached", ids=["C09"], rule="C09.R3", subs=[(BW, "    if (total_bytes_read != 0)\n    {", "    if (total_bytes_read >= queue_capacity)\n    {")]),
 dict(name="c09-refuse-without-reload", ids=["C09", "C01"], rule="R", subs=[(B, """      // not enough space, we need to load reader and re-check
      _reader_pos_cache = _atomic_reader_pos.load(std::memory_order_acquire);

      if""", """      // not enough space, we need to load reader and re-check
      if (n > _capacity) { return nullptr; }
      _reader_pos_cache = _atomic_reader_pos.load(std::memory_order_acquire);

      if""")]),
 # ---------------- C03
 dict(name="c03-finish_read-hoisted", ids=["C03"], rule="C03.R1", subs=[(BW, """      if (!_populate_transit_event_from_frontend_queue(read_pos, thread_context, ts_now))
      {
        // If _get_transit_event_from_queue returns false, stop reading
        break;
      }
""", """      bool const populated = _populate_transit_event_from_frontend_queue(read_pos, thread_context, ts_now);
"""), (BW, """      total_bytes_read += bytes_read;
      // Reads a maximum""", """      total_bytes_read += bytes_read;
      if (!populated) { break; }
      // Reads a maximum""")]),
 dict(name="c03-pop-inside-try", ids=["C03"], rule="C03.R3", subs=[(BW, "    QUILL_TRY { _process_transit_event(*thread_context, *transit_event, flush_flag); }", "    QUILL_TRY { _process_transit_event(*thread_context, *transit_event, flush_flag); thread_context->_transit_event_buffer->pop_front(); }"), (BW, """    thread_context->_transit_event_buffer->pop_front();

    if (flush_flag)""", """    if (flush_flag)""")]),
 dict(name="c03-removal-drops-buffer-test", ids=["C03"], rule="C03.R5d", subs=[(BW, """          return thread_context->get_spsc_queue_union().unbounded_spsc_queue.empty() &&
            thread_context->_transit_event_buffer->empty();""", """          return thread_context->get_spsc_queue_union().unbounded_spsc_queue.empty();""")]),
 dict(name="c03-break-after-first-sink", ids=["C03"], rule="C03.R4", subs=[(BW, """                        transit_event.named_args.get(), log_message, log_to_write);
      }
    }
  }""", """                        transit_event.named_args.get(), log_message, log_to_write);
        break;
      }
    }
  }""")]),
 dict(name="c03-double-pop", ids=["C03"], rule="C03.R3a", subs=[(BW, """    if (flush_flag)
    {
      // Process the second part""", """    if (flush_flag)
    {
      if (thread_context->_transit_event_buffer->front()) { thread_context->_transit_event_buffer->pop_front(); }
      // Process the second part""")]),
 dict(name="c03-push_back-on-hold-back", ids=["C03", "C05"], rule="R2", subs=[(BW, """        // We return at this point without adding the current event to the buffer.
        return false;""", """        // We return at this point without adding the current event to the buffer.
        thread_context->_transit_event_buffer->push_back();
        return false;""")]),
 dict(name="c03-expand-reverses", ids=["C03"], rule="C03.R6a", subs=[("backend/TransitEventBuffer.h", "new_storage[i] = std::move(_storage[(_reader_pos + i) & _mask]);", "new_storage[i] = std::move(_storage[(_writer_pos - 1 - i) & _mask]);")]),
 dict(name="c03-expand-writer-pos", ids=["C03"], rule="C03.R6b", subs=[("backend/TransitEventBuffer.h", "    _writer_pos = current_size;\n    _reader_pos = 0;\n  }", "    _writer_pos = new_capacity;\n    _reader_pos = 0;\n  }")]),
 dict(name="c03-stale-consumed-size", ids=["C03"], rule="C03.R1b", subs=[(BW, "      std::byte const* const read_begin = read_pos;\n", ""), (BW, "    size_t total_bytes_read{0};\n", "    size_t total_bytes_read{0};\n    std::byte const* read_begin = nullptr;\n"), (BW, "      if (!read_pos)\n      {\n        // Exit loop nothing to read\n        break;\n      }", "      if (!read_pos)\n      {\n        // Exit loop nothing to read\n        break;\n      }\n      if (!read_begin) { read_begin = read_pos; }")]),

 # ---------------- C05
 dict(name="c05-ts_now-in-loop", ids=["C05"], rule="C05.R1a", subs=[(BW, """    size_t cached_transit_events_count{0};

    for (ThreadContext* thread_context : _active_thread_contexts_cache)
    {
      assert(thread_context->has_unbounded_queue_type() || thread_context->has_bounded_queue_type());

      if (thread_context->has_unbounded_queue_type())
      {
        cached_transit_events_count += _read_and_decode_frontend_queue(
          thread_context->get_spsc_queue_union().unbounded_spsc_queue, thread_context, ts_now);""", """    size_t cached_transit_events_count{0};

    for (ThreadContext* thread_context : _active_thread_contexts_cache)
    {
      assert(thread_context->has_unbounded_queue_type() || thread_context->has_bounded_queue_type());

      if (thread_context->has_unbounded_queue_type())
      {
        uint64_t const ts_now2 = _options.log_timestamp_ordering_grace_period.count() ? static_cast<uint64_t>((detail::get_timestamp<std::chrono::system_clock>() - _options.log_timestamp_ordering_grace_period).count()) : ts_now;
        cached_transit_events_count += _read_and_decode_frontend_queue(
          thread_context->get_spsc_queue_union().unbounded_spsc_queue, thread_context, ts_now2);""")]),
 dict(name="c05-min-selection-reversed", ids=["C05"], rule="C05.R3b", subs=[(BW, "if (te && (!thread_context || (min_ts > te->timestamp)))", "if (te && (!thread_context || (min_ts < te->timestamp)))")]),
 dict(name="c05-prefix-max-timestamp-never-selected", ids=["C05", "C03"], rule="R", subs=[(BW, "if (te && (!thread_context || (min_ts > te->timestamp)))", "if (te && (min_ts > te->timestamp))")]),
 dict(name="c05-first-candidate-test-inverted", ids=["C05"], rule="C05.R3", subs=[(BW, "if (te && (!thread_context || (min_ts > te->timestamp)))", "if (te && (thread_context || (min_ts > te->timestamp)))")]),
 dict(name="c05-min-selection-break", ids=["C05"], rule="C05.R3a", subs=[(BW, """        min_ts = te->timestamp;
        thread_context = tc;
      }""", """        min_ts = te->timestamp;
        thread_context = tc;
        break;
      }""")]),
 dict(name="c05-has_pending-dropped-from-exit", ids=["C05"], rule="C05.R4a", subs=[(BW, """      if (cached_transit_events_count > 0)
      {
        while (!has_pending_events_for_caching_when_transit_event_buffer_empty() &&
               _process_lowest_timestamp_transit_event())""", """      if (cached_transit_events_count > 0)
      {
        while (_process_lowest_timestamp_transit_event())""")]),
 dict(name="c05-batch-operands-swapped", ids=["C05"], rule="C05.R4a", subs=[(BW, """        // we want to process a batch of events.
        while (!has_pending_events_for_caching_when_transit_event_buffer_empty() &&
               _process_lowest_timestamp_transit_event())""", """        // we want to process a batch of events.
        while (_process_lowest_timestamp_transit_event() &&
               !has_pending_events_for_caching_when_transit_event_buffer_empty())""")]),
 dict(name="c05-has_pending-bounded-arm-missing", ids=["C05"], rule="C05.R4b", subs=[(BW, """        if (thread_context->has_bounded_queue_type() &&
            !thread_context->get_spsc_queue_union().bounded_spsc_queue.empty())
        {
          return true;
        }
      }
    }

    return false;""", """      }
    }

    return false;""")]),
 dict(name="c05-clock-after-reservation", ids=["C05"], rule="C05.R5", subs=[("Logger.h", """    // we have enough space in this buffer, and we will write to the buffer
""", """    // we have enough space in this buffer, and we will write to the buffer
    if (clock_source == ClockSourceType::System) { current_timestamp = detail::get_timestamp_ns<std::chrono::system_clock>(); }
""")]),
 dict(name="c05-holdback-direction", ids=["C05"], rule="C05.R2a", subs=[(BW, "if (QUILL_UNLIKELY(transit_event->timestamp > ts_now))", "if (QUILL_UNLIKELY(transit_event->timestamp < ts_now))")]),
 dict(name="c05-compare-before-conversion", ids=["C05"], rule="C05.R2b", subs=[(BW, """    FormatArgsDecoder format_args_decoder;
    std::memcpy(&format_args_decoder, read_pos, sizeof(format_args_decoder));""", """    if (transit_event->logger_base->clock_source == ClockSourceType::System) { transit_event->timestamp += 0; transit_event->timestamp = transit_event->timestamp; }
    FormatArgsDecoder format_args_decoder;
    std::memcpy(&format_args_decoder, read_pos, sizeof(format_args_decoder));""")]),

 # ---------------- C06
 dict(name="c06-flush_log-single-attempt", ids=["C06"], rule="C06.R1", subs=[("Logger.h", """    while (!this->log_statement<false, false>(
      LogLevel::None, &macro_metadata, reinterpret_cast<uintptr_t>(backend_thread_flushed_ptr)))
    {""", """    if (!this->log_statement<false, false>(
      LogLevel::None, &macro_metadata, reinterpret_cast<uintptr_t>(backend_thread_flushed_ptr)))
    {""")]),
 dict(name="c06-flag-stored-before-pop", ids=["C06"], rule="C06.R3a", subs=[(BW, """    thread_context->_transit_event_buffer->pop_front();

    if (flush_flag)
    {""", """    if (flush_flag)
    {
      flush_flag->store(true);
      flush_flag = nullptr;
    }
    thread_context->_transit_event_buffer->pop_front();

    if (flush_flag)
    {""")]),
 dict(name="c06-flush-with-min-interval", ids=["C06"], rule="C06.R3c", subs=[(BW, """      _flush_and_run_active_sinks(false, std::chrono::milliseconds{0});

      // This is a flush event""", """      _flush_and_run_active_sinks(false, _options.sink_min_flush_interval);

      // This is a flush event""")]),
 dict(name="c06-flag-static", ids=["C06"], rule="C06.R2a", subs=[("Logger.h", "    std::atomic<bool> backend_thread_flushed{false};\n    std::atomic<bool>* backend_thread_flushed_ptr", "    static std::atomic<bool> backend_thread_flushed; backend_thread_flushed.store(false);\n    std::atomic<bool>* backend_thread_flushed_ptr")]),
 dict(name="c06-no-wait", ids=["C06"], rule="C06.R2b", subs=[("Logger.h", "    while (!backend_thread_flushed.load())\n    {", "    if (!backend_thread_flushed.load())\n    {")]),
 dict(name="c06-zero-interval-not-forced", ids=["C06"], rule="C06.R4a", subs=[(BW, """      // sink_min_flush_interval == 0 - always flush sinks
      should_flush_sinks = true;""", """      // sink_min_flush_interval == 0 - always flush sinks
      should_flush_sinks = run_periodic_tasks;""")]),
 dict(name="c06-collector-ends-early", ids=["C06"], rule="C06.R4c", subs=[(BW, """        // return false to never end the loop early
        return false;""", """        // return false to never end the loop early
        return !_active_sinks_cache.empty();""")]),
 dict(name="c06-filesink-skips-stream-flush", ids=["C06"], rule="C06.R5a", subs=[("sinks/FileSink.h", """    StreamSink::flush_sink();

    if (_config.fsync_enabled())""", """    if (_config.fsync_enabled()) { StreamSink::flush_sink(); }

    if (_config.fsync_enabled())""")]),
 dict(name="c06-write-not-marked-dirty", ids=["C06"], rule="C06.R5c", subs=[("sinks/StreamSink.h", """      safe_fwrite(user_log_statement.data(), sizeof(char), user_log_statement.size(), _file);
    }""", """      safe_fwrite(user_log_statement.data(), sizeof(char), user_log_statement.size(), _file);
      return;
    }""")]),
 dict(name="c06-flag-not-reset", ids=["C06"], rule="C06.R3d", subs=[(BW, "      transit_event.flush_flag = nullptr;\n", "")]),

 # ---------------- C10
 dict(name="c10-prefix-named-args-handler", ids=["C10"], rule="C10.R1", subs=[(BW, "    QUILL_CATCH_ALL() {}\n#endif", "#endif")]),
 dict(name="c10-prefix-log-message-handler", ids=["C10"], rule="C10.R1", subs=[(BW, """    QUILL_CATCH_ALL()
    {
      transit_event->formatted_msg->clear();
      std::string const error = fmtquill::format(
        R"([Could not format log statement. message: "{}", location: "{}", error: "unknown exception"])",
        transit_event->macro_metadata->message_format(),
        transit_event->macro_metadata->short_source_location());

      transit_event->formatted_msg->append(error);
      _options.error_notifier(error);
    }
#endif""", "#endif")]),
 dict(name="c10-run-loop-catch-all-removed", ids=["C10"], rule="C10.R4", subs=[(BW, """          QUILL_CATCH(std::exception const& e) { _options.error_notifier(e.what()); }
          QUILL_CATCH_ALL()
          {
            _options.error_notifier(std::string{"Caught unhandled exception."});
          } // clang-format on
#endif
        }

        // exit""", """          QUILL_CATCH(std::exception const& e) { _options.error_notifier(e.what()); }
#endif
        }

        // exit""")]),
 dict(name="c10-per-event-handler-rethrows", ids=["C10"], rule="C10.R", subs=[(BW, """    QUILL_CATCH(std::exception const& e) { _options.error_notifier(e.what()); }
    QUILL_CATCH_ALL()
    {
      _options.error_notifier(std::string{"Caught unhandled exception."});
    } // clang-format on
#endif

    // Finally clean up any remaining fields in the transit event""", """    QUILL_CATCH(std::exception const& e) { _options.error_notifier(e.what()); }
    QUILL_CATCH_ALL()
    {
      _options.error_notifier(std::string{"Caught unhandled exception."});
      throw;
    } // clang-format on
#endif

    // Finally clean up any remaining fields in the transit event""")]),
 dict(name="c10-flush-try-outside-loop", ids=["C10"], rule="C10.R3c", subs=[(BW, """    for (auto const& sink : _active_sinks_cache)
    {
      QUILL_TRY
      {
        if (should_flush_sinks)
        {
          // If an exception is thrown, catch it here to prevent it from propagating
          // to the outer function. This prevents potential infinite loops caused by failing
          // flush operations.
          sink->flush_sink();
        }
      }
#if !defined(QUILL_NO_EXCEPTIONS)
      QUILL_CATCH(std::exception const& e) { _options.error_notifier(e.what()); }
      QUILL_CATCH_ALL() { _options.error_notifier(std::string{"Caught unhandled exception."}); }
#endif

      if (run_periodic_tasks)
      {
        sink->run_periodic_tasks();
      }
    }
""", """    QUILL_TRY
    {
    for (auto const& sink : _active_sinks_cache)
    {
        if (should_flush_sinks)
        {
          sink->flush_sink();
        }

      if (run_periodic_tasks)
      {
        sink->run_periodic_tasks();
      }
    }
    }
#if !defined(QUILL_NO_EXCEPTIONS)
      QUILL_CATCH(std::exception const& e) { _options.error_notifier(e.what()); }
      QUILL_CATCH_ALL() { _options.error_notifier(std::string{"Caught unhandled exception."}); }
#endif
""")]),
 dict(name="c10-handler-silent", ids=["C10"], rule="C10.R4b", subs=[(BW, """    QUILL_CATCH(std::exception const& e) { _options.error_notifier(e.what()); }
    QUILL_CATCH_ALL()
    {
      _options.error_notifier(std::string{"Caught unhandled exception."});
    } // clang-format on
#endif

    // Finally clean up""", """    QUILL_CATCH(std::exception const&) { }
    QUILL_CATCH_ALL()
    {
      _options.error_notifier(std::string{"Caught unhandled exception."});
    } // clang-format on
#endif

    // Finally clean up""")]),
 dict(name="c10-run_periodic_tasks-may-throw", ids=["C10"], rule="C10.R3", subs=[("sinks/Sink.h", "QUILL_ATTRIBUTE_HOT virtual void run_periodic_tasks() noexcept {}", "QUILL_ATTRIBUTE_HOT virtual void run_periodic_tasks() {}")]),

 # ---------------- C08
 dict(name="c08-true-on-drop", ids=["C08"], rule="C08.R1", subs=[("Logger.h", """          thread_context->increment_failure_counter();
        }
        return false;""", """          thread_context->increment_failure_counter();
        }
        return true;""")]),
 dict(name="c08-count-every-event", ids=["C08"], rule="C08.R2", subs=[("Logger.h", """        // not enough space to push to queue message is dropped
        if ((macro_metadata->event() == MacroMetadata::Event::Log) ||
            (macro_metadata->event() == MacroMetadata::Event::LogWithRuntimeMetadata))
        {
          thread_context->increment_failure_counter();
        }""", """        // not enough space to push to queue message is dropped
        thread_context->increment_failure_counter();""")]),
 dict(name="c08-load-store-reset", ids=["C08"], rule="C08.R3", subs=[("core/ThreadContextManager.h", "    return _failure_counter.exchange(0, std::memory_order_relaxed);", "    size_t const v = _failure_counter.load(std::memory_order_relaxed);\n    _failure_counter.store(0, std::memory_order_relaxed);\n    return v;")]),
 dict(name="c08-commit-on-null-path", ids=["C08", "C01"], rule="R", subs=[("Logger.h", """          thread_context->increment_failure_counter();
        }
        return false;""", """          thread_context->increment_failure_counter();
        }
        thread_context->get_spsc_queue<frontend_options_t::queue_type>().finish_and_commit_write(0);
        return false;""")]),
 dict(name="c08-exit-skips-report", ids=["C08"], rule="C08.R4d", subs=[(BW, """        // we are done, all queues are now empty
        _check_failure_counter(_options.error_notifier);""", """        // we are done, all queues are now empty""")]),
 dict(name="c08-count-twice", ids=["C08"], rule="C08.R2", subs=[("Logger.h", """        // not enough space to push to queue message is dropped
        if ((macro_metadata->event() == MacroMetadata::Event::Log) ||
            (macro_metadata->event() == MacroMetadata::Event::LogWithRuntimeMetadata))
        {
          thread_context->increment_failure_counter();
        }""", """        // not enough space to push to queue message is dropped
        if ((macro_metadata->event() == MacroMetadata::Event::Log) ||
            (macro_metadata->event() == MacroMetadata::Event::LogWithRuntimeMetadata))
        {
          thread_context->increment_failure_counter();
          thread_context->increment_failure_counter();
        }""")]),
 dict(name="c08-init_backtrace-not-retried", ids=["C08", "C06"], rule="R", subs=[("Logger.h", """    while (!this->log_statement<false, false>(LogLevel::None, &macro_metadata, max_capacity))
    {
      std::this_thread::sleep_for(std::chrono::nanoseconds{100});
    }""", """    (void)this->log_statement<false, false>(LogLevel::None, &macro_metadata, max_capacity);""")]),

 # ---------------- C07
 dict(name="c07-exit-ignores-transit-buffers", ids=["C07"], rule="C07.R1d", subs=[(BW, """      all_empty &= thread_context->_transit_event_buffer->empty();
    }

    return all_empty;""", """    }

    return all_empty;""")]),
 dict(name="c07-exit-break-early", ids=["C07"], rule="C07.R1a", subs=[(BW, """      uint64_t const cached_transit_events_count = _populate_transit_events_from_frontend_queues();
      if (cached_transit_events_count > 0)
      {""", """      uint64_t const cached_transit_events_count = _populate_transit_events_from_frontend_queues();
      if (cached_transit_events_count == 0) { break; }
      if (cached_transit_events_count > 0)
      {""")]),
 dict(name="c07-exit-no-final-flush", ids=["C07"], rule="C07.R1b", subs=[(BW, """        _flush_and_run_active_sinks(false, std::chrono::milliseconds{0});
        break;""", """        break;""")]),
 dict(name="c07-atexit-dropped", ids=["C07"], rule="C07.R3", subs=[("Backend.h", """                     sigprocmask(SIG_SETMASK, &oldset, nullptr);
#endif

                     // Set up an exit handler to call stop when the main application exits.
                     // always call stop on destruction to log everything. std::atexit seems to be
                     // working better with dll on windows compared to using ~LogManagerSingleton().
                     std::atexit([]() { detail::BackendManager::instance().stop_backend_thread(); });""", """                     sigprocmask(SIG_SETMASK, &oldset, nullptr);
#endif
""")]),
 dict(name="c07-raise-before-flush", ids=["C07"], rule="C07.R4a", subs=[("backend/SignalHandler.h", """        logger->flush_log(0);

        // Reset to the default signal handler and re-raise the signal
        std::signal(signal_number, SIG_DFL);
        std::raise(signal_number);""", """        std::signal(signal_number, SIG_DFL);
        std::raise(signal_number);
        logger->flush_log(0);""")]),
 dict(name="c07-sig_dfl-not-restored", ids=["C07"], rule="C07.R4f", subs=[("backend/SignalHandler.h", """        logger->flush_log(0);

        // Reset to the default signal handler and re-raise the signal
        std::signal(signal_number, SIG_DFL);
        std::raise(signal_number);""", """        logger->flush_log(0);

        std::raise(signal_number);""")]),
 dict(name="c07-sigint-reraises", ids=["C07"], rule="C07.R4", subs=[("backend/SignalHandler.h", """      if (signal_number == SIGINT || signal_number == SIGTERM)
      {
        // For SIGINT and SIGTERM, we are shutting down gracefully""", """      if (signal_number == SIGTERM)
      {
        // For SIGINT and SIGTERM, we are shutting down gracefully""")]),
 dict(name="c07-stop-join-before-notify", ids=["C07"], rule="C07.R2d", subs=[(BW, """    // signal wake up the backend worker thread
    notify();

    // Wait the backend thread to join, if backend thread was never started it won't be joinable
    if (_worker_thread.joinable())
    {
      _worker_thread.join();
    }
""", """    // Wait the backend thread to join, if backend thread was never started it won't be joinable
    if (_worker_thread.joinable())
    {
      _worker_thread.join();
    }
    // signal wake up the backend worker thread
    notify();
""")]),
 dict(name="c07-once-flag-not-renewed", ids=["C07"], rule="C07.R2f", subs=[("backend/BackendManager.h", """    auto* new_flag = new std::once_flag();
    std::once_flag* old_flag = _start_once_flag.exchange(new_flag);
    delete old_flag;""", """    if (!_backend_worker.is_running()) { return; }
    auto* new_flag = new std::once_flag();
    std::once_flag* old_flag = _start_once_flag.exchange(new_flag);
    delete old_flag;""")]),
 dict(name="c07-exit-drain-skipped-on-affinity-error", ids=["C07"], rule="C07.R2a", subs=[(BW, """        QUILL_CATCH(std::exception const& e) { _options.error_notifier(e.what()); }
        QUILL_CATCH_ALL() { _options.error_notifier(std::string{"Caught unhandled exception."}); }
#endif

        // All okay, set the backend worker thread running flag""", """        QUILL_CATCH(std::exception const& e) { _options.error_notifier(e.what()); }
        QUILL_CATCH_ALL() { _options.error_notifier(std::string{"Caught unhandled exception."}); }
#endif
        if (_options.thread_name.empty()) { _is_worker_running.store(true); return; }

        // All okay, set the backend worker thread running flag""")]),
 dict(name="c07-mask-not-restored", ids=["C07"], rule="C07.R5", subs=[("Backend.h", "                     sigprocmask(SIG_SETMASK, &oldset, nullptr);\n", "")]),
 dict(name="c07-default-signals-miss-sigill", ids=["C07"], rule="C07.R4j", subs=[("backend/SignalHandler.h", "std::vector<int> catchable_signals{SIGTERM, SIGINT, SIGABRT, SIGFPE, SIGILL, SIGSEGV};", "std::vector<int> catchable_signals{SIGTERM, SIGINT, SIGABRT, SIGFPE, SIGSEGV};")]),
 dict(name="c07-alarm-after-logging", ids=["C07"], rule="C07.R4g", subs=[("backend/SignalHandler.h", "  alarm(SignalHandlerContext::instance().signal_handler_timeout_seconds.load());\n#endif", "#endif"), ("backend/SignalHandler.h", "      if (should_reraise_signal)\n      {\n        QUILL_SIGNAL_HANDLER_LOG", "      alarm(SignalHandlerContext::instance().signal_handler_timeout_seconds.load());\n      if (should_reraise_signal)\n      {\n        QUILL_SIGNAL_HANDLER_LOG")]),

 # ---------------- C18
 dict(name="c18-prefix-process-no-index-reset", ids=["C18"], rule="C18.R1", subs=[("backend/BacktraceStorage.h", "    _stored_events.clear();\n    _index = 0;\n  }", "    _stored_events.clear();\n  }")]),
 dict(name="c18-prefix-zero-capacity", ids=["C18"], rule="C18.R3c", subs=[("backend/BacktraceStorage.h", """    if (_capacity == 0)
    {
      // nothing can be retained, and there is no slot to overwrite
      return;
    }
""", "")]),
 dict(name="c18-event-moved-not-copied", ids=["C18"], rule="C18.R2c", subs=[(BW, """          TransitEvent transit_event_copy;
          transit_event.copy_to(transit_event_copy);

          transit_event.logger_base->backtrace_storage->store(
            std::move(transit_event_copy), thread_context.thread_id(), thread_context.thread_name());""", """          transit_event.logger_base->backtrace_storage->store(
            std::move(transit_event), thread_context.thread_id(), thread_context.thread_name());""")]),
 dict(name="c18-flush-test-before-dispatch", ids=["C18"], rule="C18.R2d", subs=[(BW, """        _dispatch_transit_event_to_sinks(transit_event, thread_context.thread_id(),
                                         thread_context.thread_name());

        // We also need to check the severity""", """        // We also need to check the severity"""), (BW, """              { _dispatch_backtrace_transit_event(te, thread_id, thread_name); });
          }
        }
      }
      else
      {
        if (transit_event.logger_base->backtrace_storage)
        {
          // this is a backtrace log""", """              { _dispatch_backtrace_transit_event(te, thread_id, thread_name); });
          }
        }
        _dispatch_transit_event_to_sinks(transit_event, thread_context.thread_id(),
                                         thread_context.thread_name());
      }
      else
      {
        if (transit_event.logger_base->backtrace_storage)
        {
          // this is a backtrace log""")]),
 dict(name="c18-backtrace-level-dispatched", ids=["C18"], rule="C18.R2a", subs=[(BW, """          TransitEvent transit_event_copy;
          transit_event.copy_to(transit_event_copy);
""", """          TransitEvent transit_event_copy;
          transit_event.copy_to(transit_event_copy);
          _dispatch_transit_event_to_sinks(transit_event, thread_context.thread_id(), thread_context.thread_name());
""")]),
 dict(name="c18-process-does-not-clear", ids=["C18"], rule="C18.R2h", subs=[("backend/BacktraceStorage.h", "    // finally clean all messages\n    _stored_events.clear();\n    _index = 0;", "    // finally clean all messages\n    if (_stored_events.size() > _capacity) { _stored_events.clear(); _index = 0; }")]),
 dict(name="c18-store-wrap-off-by-one", ids=["C18"], rule="C18.R3b", subs=[("backend/BacktraceStorage.h", "      if (_index < _capacity - 1)\n      {\n        _index += 1;", "      if (_index < _capacity)\n      {\n        _index += 1;")]),
 dict(name="c18-replay-starts-at-zero", ids=["C18"], rule="C18.R2g", subs=[("backend/BacktraceStorage.h", "    uint32_t index = _index;", "    uint32_t index = 0;")]),
 dict(name="c18-flush-level-strict", ids=["C18"], rule="C18.R2d", subs=[(BW, "        if (QUILL_UNLIKELY(transit_event.log_level() >=\n", "        if (QUILL_UNLIKELY(transit_event.log_level() >\n")]),

 # ---------------- C20
 dict(name="c20-prefix-counter-uint8", ids=["C20"], rule="C20.R1", subs=[(TC, "std::atomic<uint32_t> _invalid_thread_context_count{0};", "std::atomic<uint8_t> _invalid_thread_context_count{0};")]),
 dict(name="c20-counter-uint16", ids=["C20"], rule="C20.R1", subs=[(TC, "std::atomic<uint32_t> _invalid_thread_context_count{0};", "std::atomic<uint16_t> _invalid_thread_context_count{0};")]),
 dict(name="c20-dtor-does-not-count", ids=["C20"], rule="C20.R2c", subs=[(TC, """    // Notify the backend thread that one context has been removed
    ThreadContextManager::instance().add_invalid_thread_context();""", """    // Notify the backend thread that one context has been removed""")]),
 dict(name="c20-count-before-invalid", ids=["C20"], rule="C20.R2c", subs=[(TC, """    _thread_context->mark_invalid();

    // Notify the backend thread that one context has been removed
    ThreadContextManager::instance().add_invalid_thread_context();""", """    ThreadContextManager::instance().add_invalid_thread_context();
    _thread_context->mark_invalid();""")]),
 dict(name="c20-try_shrink-without-empty", ids=["C20"], rule="C20.R4f", subs=[("backend/TransitEventBuffer.h", "    if (_shrink_requested && empty())", "    if (_shrink_requested)")]),
 dict(name="c20-decrement-without-erase", ids=["C20"], rule="C20.R2d", subs=[(TC, """    _thread_contexts.erase(thread_context_it);

    // Decrement the counter since we found something to
    _invalid_thread_context_count.fetch_sub(1, std::memory_order_relaxed);""", """    // Decrement the counter since we found something to
    _invalid_thread_context_count.fetch_sub(1, std::memory_order_relaxed);
    if (thread_context_it != _thread_contexts.end() && !thread_context_it->get()->is_valid()) { _thread_contexts.erase(thread_context_it); }""")]),
 dict(name="c20-erase-outside-lock", ids=["C20", "C17"], rule="R", subs=[(TC, """  void remove_shared_invalidated_thread_context(ThreadContext const* thread_context)
  {
    LockGuard const lock{_spinlock};
""", """  void remove_shared_invalidated_thread_context(ThreadContext const* thread_context)
  {
""")]),
 dict(name="c20-request-shrink-on-growth", ids=["C20"], rule="C20.R4d", subs=[(BW, "if ((read_result.new_capacity < read_result.previous_capacity) && thread_context->_transit_event_buffer)", "if ((read_result.new_capacity > read_result.previous_capacity) && thread_context->_transit_event_buffer)")]),
 dict(name="c20-no-cleanup-when-idle", ids=["C20"], rule="C20.R3a", subs=[(BW, """      if (queues_and_events_empty)
      {
        _cleanup_invalidated_thread_contexts();
        _cleanup_invalidated_loggers();""", """      if (queues_and_events_empty)
      {
        _cleanup_invalidated_loggers();""")]),
 dict(name="c20-try_shrink-keeps-positions", ids=["C20"], rule="C20.R4f", subs=[("backend/TransitEventBuffer.h", "        _mask = _capacity - 1;\n        _writer_pos = 0;\n        _reader_pos = 0;\n      }", "        _mask = _capacity - 1;\n      }")]),
 dict(name="c20-capacity-reported-from-consumer", ids=["C20", "C02"], rule="R", subs=[("Frontend.h", """        ->template get_spsc_queue<TFrontendOptions::queue_type>()
        .producer_capacity();""", """        ->template get_spsc_queue<TFrontendOptions::queue_type>()
        .capacity();""")]),

 # ---------------- C17
 dict(name="c16-filesink-ctor-drops-override", ids=["C16"], rule="C16.R5b", subs=[("sinks/FileSink.h", "nullptr, config.override_pattern_formatter_options(), std::move(file_event_notifier)),", "nullptr, std::nullopt, std::move(file_event_notifier)),")]),
 dict(name="c16-streamsink-ctor-drops-override", ids=["C16"], rule="C16.R5b", subs=[("sinks/StreamSink.h", "    : Sink(override_pattern_formatter_options),", "    : Sink(),")]),
 dict(name="c16-consolesink-config-setter-noop", ids=["C16"], rule="C16.R5a", subs=[("sinks/ConsoleSink.h", "    _override_pattern_formatter_options = options;", "    (void)options;")]),
 dict(name="c16-options-eq-ignores-multiline-flag", ids=["C16", "C12", "C13"], rule="R", subs=[("core/PatternFormatterOptions.h", " &&\n      add_metadata_to_multi_line_logs == other.add_metadata_to_multi_line_logs;", ";")]),
 dict(name="c17-csvwriter-nonblocking-removal", ids=["C17"], rule="C17.R9a", subs=[("CsvWriter.h", "  ~CsvWriter() { frontend_t::remove_logger_blocking(_logger); }", "  ~CsvWriter() { frontend_t::remove_logger(_logger); }")]),
 dict(name="c17-get_number_of_loggers-no-lock", ids=["C17"], rule="C17.R1", subs=[(LM, """  QUILL_NODISCARD size_t get_number_of_loggers() const noexcept
  {
    LockGuard const lock{_spinlock};
    return _loggers.size();""", """  QUILL_NODISCARD size_t get_number_of_loggers() const noexcept
  {
    return _loggers.size();""")]),
 dict(name="c17-unlock-relaxed", ids=["C17"], rule="C17.R2b", subs=[("core/Spinlock.h", "_flag.store(State::Free, std::memory_order_release);", "_flag.store(State::Free, std::memory_order_relaxed);")]),
 dict(name="c17-lock-relaxed", ids=["C17"], rule="C17.R2a", subs=[("core/Spinlock.h", "_flag.exchange(State::Locked, std::memory_order_acquire)", "_flag.exchange(State::Locked, std::memory_order_relaxed)")]),
 dict(name="c17-erase-without-queue-check", ids=["C17"], rule="C17.R3a", subs=[(LM, "          if (!check_queues_empty())\n          {", "          if (false)\n          {")]),
 dict(name="c17-flag-before-sink-cleanup", ids=["C17"], rule="C17.R4f", subs=[(BW, """      _sink_manager.cleanup_unused_sinks();

      for (auto const& removed_logger_name : removed_loggers)""", """      for (auto const& removed_logger_name : removed_loggers)"""), (BW, """          _logger_removal_flags.erase(search_it);
        }
      }
    }""", """          _logger_removal_flags.erase(search_it);
        }
      }
      _sink_manager.cleanup_unused_sinks();
    }""")]),
 dict(name="c17-remove-before-request", ids=["C17"], rule="C17.R4d", subs=[("Frontend.h", """    std::atomic<bool>* logger_removal_complete_ptr = &logger_removal_complete;
""", """    std::atomic<bool>* logger_removal_complete_ptr = &logger_removal_complete;
    detail::LoggerManager::instance().remove_logger(logger);
"""), ("Frontend.h", """    detail::LoggerManager::instance().remove_logger(logger);

    while (!logger_removal_complete.load())""", """    while (!logger_removal_complete.load())""")]),
 dict(name="c17-no-rearm-when-kept", ids=["C17"], rule="C17.R3b", subs=[(LM, "            ++it;\n            _has_invalidated_loggers.store(true, std::memory_order_release);", "            ++it;")]),
 dict(name="c17-create-unlocks-between-find-and-insert", ids=["C17"], rule="C17.R1", subs=[(LM, """    LockGuard const lock{_spinlock};

    LoggerBase* logger_ptr = _find_logger(logger_name);

    if (!logger_ptr)
    {""", """    _spinlock.lock();
    LoggerBase* logger_ptr = _find_logger(logger_name);
    _spinlock.unlock();

    if (!logger_ptr)
    {
      LockGuard const lock{_spinlock};""")]),
 dict(name="c17-add_filter-no-lock", ids=["C17"], rule="C17.R1", subs=[("sinks/Sink.h", """    // Lock and add this filter to our global collection
    detail::LockGuard const lock{_global_filters_lock};
""", "")]),
 dict(name="c17-flag-for-all-pending", ids=["C17"], rule="C17.R4f", subs=[(BW, """      for (auto const& removed_logger_name : removed_loggers)
      {
        // Notify the user if the blocking call was used
        auto search_it = _logger_removal_flags.find(removed_logger_name);
        if (search_it != _logger_removal_flags.end())
        {
          search_it->second->store(true);
          _logger_removal_flags.erase(search_it);
        }
      }""", """      for (auto& kv : _logger_removal_flags)
      {
        kv.second->store(true);
      }
      _logger_removal_flags.clear();""")]),
 dict(name="c17-remove_logger-flag-before-invalid", ids=["C17"], rule="C17.R3e", subs=[(LM, "    logger->mark_invalid();\n    _has_invalidated_loggers.store(true, std::memory_order_release);", "    _has_invalidated_loggers.store(true, std::memory_order_release);\n    logger->mark_invalid();")]),

 # ---------------- C16
 dict(name="c16-warning-wired-to-info", ids=["C16"], rule="C16.R1", subs=[(MAC, """  #define QUILL_LOG_WARNING(logger, fmt, ...)                                                      \\
    QUILL_LOGGER_CALL(QUILL_LIKELY, logger, nullptr, quill::LogLevel::Warning, fmt, ##__VA_ARGS__)""", """  #define QUILL_LOG_WARNING(logger, fmt, ...)                                                      \\
    QUILL_LOGGER_CALL(QUILL_LIKELY, logger, nullptr, quill::LogLevel::Info, fmt, ##__VA_ARGS__)""")]),
 dict(name="c16-args-evaluated-before-guard", ids=["C16"], rule="C16.R1a", subs=[(MAC, """#define QUILL_LOGGER_CALL_LIMIT_EVERY_N(n_occurrences, likelyhood, logger, tags, log_level, fmt, ...) \\
  do                                                                                                  \\
  {                                                                                                   \\
    if (likelyhood(logger->template should_log_statement<log_level>()))                               \\
    {                                                                                                 \\
      thread_local uint64_t call_count = 0;                                                           \\
      thread_local uint64_t next_log_at = 0;                                                          \\
      if (call_count == next_log_at)                                                                  \\
      {                                                                                               \\
        QUILL_LOGGER_CALL(likelyhood, logger, tags, log_level, fmt, ##__VA_ARGS__);                   \\
        next_log_at += n_occurrences;                                                                 \\
      }                                                                                               \\
      ++call_count;                                                                                   \\
    }                                                                                                 \\
  } while (0)""", """#define QUILL_LOGGER_CALL_LIMIT_EVERY_N(n_occurrences, likelyhood, logger, tags, log_level, fmt, ...) \\
  do                                                                                                  \\
  {                                                                                                   \\
    {                                                                                                 \\
      thread_local uint64_t call_count = 0;                                                           \\
      thread_local uint64_t next_log_at = 0;                                                          \\
      if (call_count == next_log_at)                                                                  \\
      {                                                                                               \\
        logger->template log_statement<QUILL_IMMEDIATE_FLUSH, true>(log_level, nullptr, ##__VA_ARGS__);                   \\
        next_log_at += n_occurrences;                                                                 \\
      }                                                                                               \\
      ++call_count;                                                                                   \\
    }                                                                                                 \\
  } while (0)""")]),
 dict(name="c16-should_log-strict", ids=["C16"], rule="C16.R2", subs=[("core/LoggerBase.h", """  QUILL_NODISCARD QUILL_ATTRIBUTE_HOT bool should_log_statement(LogLevel log_statement_level) const noexcept
  {
    return log_statement_level >= get_log_level();""", """  QUILL_NODISCARD QUILL_ATTRIBUTE_HOT bool should_log_statement(LogLevel log_statement_level) const noexcept
  {
    return log_statement_level > get_log_level();""")]),
 dict(name="c16-dynamic-level-reset-removed", ids=["C16"], rule="C16.R4", subs=[(BW, "      transit_event->dynamic_log_level = LogLevel::None;\n", "")]),
 dict(name="c16-sink-level-threshold-inverted", ids=["C16"], rule="C16.R3a", subs=[("sinks/Sink.h", "    if (log_level < _log_level.load(std::memory_order_relaxed))\n    {\n      return false;", "    if (log_level > _log_level.load(std::memory_order_relaxed))\n    {\n      return false;")]),
 dict(name="c16-any_of-filters", ids=["C16"], rule="C16.R3b", subs=[("sinks/Sink.h", "return std::all_of(_local_filters.begin(), _local_filters.end(),", "return std::any_of(_local_filters.begin(), _local_filters.end(),")]),
 dict(name="c16-dynamic-macro-static-metadata", ids=["C16"], rule="C16.R1c", subs=[(MAC, "      QUILL_DEFINE_MACRO_METADATA(QUILL_FUNCTION_NAME, fmt, tags, quill::LogLevel::Dynamic);                  \\", "      QUILL_DEFINE_MACRO_METADATA(QUILL_FUNCTION_NAME, fmt, tags, quill::LogLevel::Info);                  \\")]),
 dict(name="c16-write_log-metadata-level", ids=["C16"], rule="C16.R3e", subs=[(BW, """                        thread_name, _process_id, transit_event.logger_base->logger_name,
                        transit_event.log_level(), log_level_description, log_level_short_code,""", """                        thread_name, _process_id, transit_event.logger_base->logger_name,
                        transit_event.macro_metadata->log_level(), log_level_description, log_level_short_code,""")]),
 dict(name="c16-override-formatter-of-first-sink", ids=["C16"], rule="C16.R3", subs=[(BW, """          log_to_write = sink->_override_pattern_formatter->format(""", """          log_to_write = transit_event.logger_base->sinks.front()->_override_pattern_formatter->format(""")]),
 dict(name="c16-logj-error-limit-level", ids=["C16"], rule="C16.R1", subs=[(MAC, """  #define QUILL_LOGJ_ERROR_LIMIT(min_interval, logger, fmt, ...)                                   \\
    QUILL_LOGGER_CALL_LIMIT(min_interval, QUILL_LIKELY, logger, nullptr, quill::LogLevel::Error,   \\""", """  #define QUILL_LOGJ_ERROR_LIMIT(min_interval, logger, fmt, ...)                                   \\
    QUILL_LOGGER_CALL_LIMIT(min_interval, QUILL_LIKELY, logger, nullptr, quill::LogLevel::Warning,   \\""")]),
 dict(name="c16-transit-log_level-ignores-dynamic", ids=["C16"], rule="C16.R4c", subs=[("backend/TransitEvent.h", "    if (macro_metadata->log_level() != LogLevel::Dynamic)\n    {\n      return macro_metadata->log_level();", "    if (macro_metadata->log_level() != LogLevel::None)\n    {\n      return macro_metadata->log_level();")]),

 # ---------------- C19
 dict(name="c19-named-7-loses-placeholder", ids=["C19"], rule="C19.R1", subs=[(MAC, """  text " {" #x "}, {" #y "}, {" #z "}, {" #w "}, {" #v "}, {" #u "}, {" #t "}"
#define QUILL_GENERATE_NAMED_FORMAT_STRING_8""", """  text " {" #x "}, {" #y "}, {" #z "}, {" #w "}, {" #v "}, {" #u "}"
#define QUILL_GENERATE_NAMED_FORMAT_STRING_8""")]),
 dict(name="c19-format-3-names-out-of-order", ids=["C19"], rule="C19.R1", subs=[(MAC, '#define QUILL_GENERATE_FORMAT_STRING_3(text, x, y, z) text " [" #x ": {}, " #y ": {}, " #z ": {}]"', '#define QUILL_GENERATE_FORMAT_STRING_3(text, x, y, z) text " [" #x ": {}, " #z ": {}, " #y ": {}]"')]),
 dict(name="c19-miss-arm-skips-named-args", ids=["C19"], rule="C19.R2a", subs=[(BW, """          _populate_formatted_log_message(transit_event, message_format.data());
          _populate_formatted_named_args(transit_event, arg_names);
        }
      }

      if (transit_event->macro_metadata->event() == MacroMetadata::Event::LogWithRuntimeMetadata)""", """          _populate_formatted_log_message(transit_event, message_format.data());
        }
      }

      if (transit_event->macro_metadata->event() == MacroMetadata::Event::LogWithRuntimeMetadata)""")]),
 dict(name="c19-hit-arm-uses-original-template", ids=["C19"], rule="C19.R2b", subs=[(BW, """          auto const& [message_format, arg_names] = search->second;

          _populate_formatted_log_message(transit_event, message_format.data());""", """          auto const& [message_format, arg_names] = search->second;

          _populate_formatted_log_message(transit_event, transit_event->macro_metadata->message_format());""")]),
 dict(name="c19-json-two-writes", ids=["C19"], rule="C19.R3a", subs=[("sinks/JsonSink.h", """    _json_message.append(std::string_view{"}\\n"});
""", """    _json_message.append(std::string_view{"}\\n"});
    if (named_args && named_args->size() > 8) { StreamSink::write_log(log_metadata, log_timestamp, thread_id, thread_name, process_id, logger_name, log_level, log_level_description, log_level_short_code, named_args, std::string_view{}, std::string_view{_json_message.data(), _json_message.size() / 2}); }
""")]),
 dict(name="c19-json-newline-template-not-used", ids=["C19"], rule="C19.R3d", subs=[("sinks/JsonSink.h", "      message_format = _format.data();\n", "")]),
 dict(name="c19-json-missing-terminator", ids=["C19"], rule="C19.R3b", subs=[("sinks/JsonSink.h", """    _json_message.append(std::string_view{"}\\n"});
""", """    if (!named_args) { _json_message.append(std::string_view{"}\\n"}); }
""")]),
 dict(name="c19-json-key-value-swapped", ids=["C19"], rule="C19.R3f", subs=[("sinks/JsonSink.h", """        _json_message.append(key);
        _json_message.append(std::string_view{"\\":\\""});
        _json_message.append(value);""", """        _json_message.append(value);
        _json_message.append(std::string_view{"\\":\\""});
        _json_message.append(key);""")]),
 dict(name="c19-cache-key-is-positional-template", ids=["C19"], rule="C19.R2", subs=[(BW, """          auto const [res_it, inserted] = _named_args_templates.try_emplace(
            _named_args_format_template,
            _process_named_args_format_message(transit_event->macro_metadata->message_format()));""", """          auto parsed = _process_named_args_format_message(transit_event->macro_metadata->message_format());
          std::string const pos_key = parsed.first;
          auto const [res_it, inserted] = _named_args_templates.try_emplace(pos_key, parsed);""")]),

 # ---------------- C12
 dict(name="c12-named-args-swapped", ids=["C12"], rule="C12.R1b", subs=[(PFH, '"thread_id"_a = "",\n      "thread_name"_a = "",', '"thread_name"_a = "",\n      "thread_id"_a = "",')]),
 dict(name="c12-attribute_from_string-mismapped", ids=["C12"], rule="C12.R1b", subs=[(PFH, '{"full_path", PatternFormatter::Attribute::FullPath},', '{"full_path", PatternFormatter::Attribute::FileName},')]),
 dict(name="c12-thread_name-into-thread_id", ids=["C12"], rule="C12.R2b", subs=[(PFH, "_set_arg_val<Attribute::ThreadId>(thread_id);", "_set_arg_val<Attribute::ThreadId>(thread_name);")]),
 dict(name="c12-description-entry-dropped", ids=["C12"], rule="C12.R3a", subs=[("backend/BackendOptions.h", '"WARNING",  "ERROR",    "CRITICAL", "BACKTRACE", "NONE", "DYNAMIC"};', '"WARNING",  "ERROR",    "CRITICAL", "BACKTRACE", "DYNAMIC"};')]),
 dict(name="c12-descriptions-swapped", ids=["C12"], rule="C12.R3a", subs=[("backend/BackendOptions.h", '"TRACE_L3", "TRACE_L2", "TRACE_L1", "DEBUG",     "INFO", "NOTICE",', '"TRACE_L3", "TRACE_L2", "TRACE_L1", "DEBUG",     "NOTICE", "INFO",')]),
 dict(name="c12-unknown-attribute-ignored", ids=["C12"], rule="C12.R4b", subs=[(PFH, """        if (id < 0)
        {
          QUILL_THROW(QuillError{"Invalid format pattern, attribute with name \\"" + attr_name + "\\" is invalid"});
        }""", """        if (id < 0)
        {
          arg_identifier_pos = pattern.find_first_of('%');
          continue;
        }""")]),
 dict(name="c12-guard-sets-other-attribute", ids=["C12"], rule="C12.R2a", subs=[(PFH, """    if (_is_set_in_pattern[Attribute::FullPath])
    {
      _set_arg_val<Attribute::FullPath>(log_statement_metadata.full_path());""", """    if (_is_set_in_pattern[Attribute::FileName])
    {
      _set_arg_val<Attribute::FullPath>(log_statement_metadata.full_path());""")]),
 dict(name="c12-short-source-location-source", ids=["C12"], rule="C12.R2b", subs=[(PFH, "_set_arg_val<Attribute::ShortSourceLocation>(log_statement_metadata.short_source_location());", "_set_arg_val<Attribute::ShortSourceLocation>(log_statement_metadata.source_location());")]),
 dict(name="c12-caller-swaps-id-name", ids=["C12"], rule="C12.R2f", subs=[(BW, """        _dispatch_transit_event_to_sinks(transit_event, thread_context.thread_id(),
                                         thread_context.thread_name());""", """        _dispatch_transit_event_to_sinks(transit_event, thread_context.thread_name(),
                                         thread_context.thread_id());""")]),
 dict(name="c12-multiline-with-named-args", ids=["C12"], rule="C12.R5a", subs=[(BW, """    if (transit_event.logger_base->pattern_formatter->get_options().add_metadata_to_multi_line_logs &&
        (!transit_event.named_args || transit_event.named_args->empty()))""", """    if (transit_event.logger_base->pattern_formatter->get_options().add_metadata_to_multi_line_logs)""")]),
 dict(name="c12-strip-all-trailing", ids=["C12"], rule="C12.R5b", subs=[(BW, "        ? transit_event.formatted_msg->size() - 1\n        : transit_event.formatted_msg->size();", "        ? transit_event.formatted_msg->size() - 2\n        : transit_event.formatted_msg->size();")]),
 dict(name="c12-loglevel_from_string-wrong-enum", ids=["C12"], rule="C12.R3b", subs=[("core/LogLevel.h", '  if (log_level == "notice")\n  {\n    return LogLevel::Notice;', '  if (log_level == "notice")\n  {\n    return LogLevel::Info;')]),
 dict(name="c12-no-final-newline", ids=["C12"], rule="C12.R4c", subs=[(PFH, '    pattern += "\\n";\n', '    if (pattern.empty()) { pattern += "\\n"; }\n')]),
 dict(name="c12-short-code-level-mixup", ids=["C12"], rule="C12.R2e", subs=[(BW, """    std::string_view const log_level_short_code =
      log_level_to_string(transit_event.log_level(), _options.log_level_short_codes.data(),
                          _options.log_level_short_codes.size());""", """    std::string_view const log_level_short_code =
      log_level_to_string(transit_event.macro_metadata->log_level(), _options.log_level_short_codes.data(),
                          _options.log_level_short_codes.size());""")]),

 # ---------------- C13
 dict(name="c13-prefix-repeated-specifier", ids=["C13"], rule="C13.R3c", subs=[(TFH, """      if (format_part_2.find(specifier_name[_additional_format_specifier]) != std::string::npos)
      {
        // the same specifier is repeated; the second one would be passed verbatim to strftime
        QUILL_THROW(QuillError{"format specifiers %Qms, %Qus and %Qns can only be used once"});
      }
""", "")]),
 dict(name="c13-us-zeros-short", ids=["C13"], rule="C13.R1d", subs=[(TFH, 'static constexpr std::string_view zeros{"000000"};', 'static constexpr std::string_view zeros{"00000"};')]),
 dict(name="c13-us-divisor", ids=["C13"], rule="C13.R1d", subs=[(TFH, "uint32_t const extracted_us = extracted_ns / 1'000;", "uint32_t const extracted_us = extracted_ns / 10'000;")]),
 dict(name="c13-H-index-off", ids=["C13"], rule="C13.R2c", subs=[(SFH, "_cached_indexes.emplace_back(_pre_formatted_ts.size() - 2, format_type::H);", "_cached_indexes.emplace_back(_pre_formatted_ts.size() - 3, format_type::H);")]),
 dict(name="c13-case-M-prints-seconds", ids=["C13"], rule="C13.R2c", subs=[(SFH, """      case format_type::M:
        fmtquill::format_to(&_pre_formatted_ts[index.first], "{:02}", minutes);""", """      case format_type::M:
        fmtquill::format_to(&_pre_formatted_ts[index.first], "{:02}", seconds);""")]),
 dict(name="c13-percent-X-check-removed", ids=["C13"], rule="C13.R3a", subs=[(SFH, """    if (_timestamp_format.find("%X") != std::string::npos)
    {
      QUILL_THROW(QuillError("`%X` as format modifier is not currently supported in format: " + _timestamp_format));
    }
""", "")]),
 dict(name="c13-qns-selects-qus", ids=["C13"], rule="C13.R1c", subs=[(TFH, "      _additional_format_specifier = AdditionalSpecifier::Qns;", "      _additional_format_specifier = AdditionalSpecifier::Qus;")]),
 dict(name="c13-distinct-check-dropped", ids=["C13"], rule="C13.R3b", subs=[(TFH, """      if (specifier_begin != std::string::npos)
      {
        QUILL_THROW(QuillError{"format specifiers %Qms, %Qus and %Qns are mutually exclusive"});
      }

      _additional_format_specifier = AdditionalSpecifier::Qns;""", """      _additional_format_specifier = AdditionalSpecifier::Qns;""")]),
 dict(name="c13-I-noon-wrong", ids=["C13"], rule="C13.R2c", subs=[(SFH, """      case format_type::I:
        fmtquill::format_to(&_pre_formatted_ts[index.first], "{:02}",
                            (hours == 0 ? 12 : (hours > 12 ? hours - 12 : hours)));""", """      case format_type::I:
        fmtquill::format_to(&_pre_formatted_ts[index.first], "{:02}", hours);""")]),
 dict(name="c13-k-zero-padded", ids=["C13"], rule="C13.R2c", subs=[(SFH, 'fmtquill::format_to(&_pre_formatted_ts[index.first], "{:2}", hours);', 'fmtquill::format_to(&_pre_formatted_ts[index.first], "{:3}", hours);')]),
 dict(name="c13-fraction-left-aligned", ids=["C13"], rule="C13.R1f", subs=[(TFH, "memcpy(&_formatted_date[_formatted_date.size() - extracted_ms_string.size()],", "memcpy(&_formatted_date[_formatted_date.size() - 9],")]),
 dict(name="c13-modifier-missing-from-split", ids=["C13"], rule="C13.R2a", subs=[(SFH, 'std::array<std::string, 7> const modifiers{"%H", "%M", "%S", "%I", "%k", "%l", "%s"};', 'std::array<std::string, 6> const modifiers{"%H", "%M", "%S", "%I", "%k", "%s"};')]),

 # ---------------- C14
 dict(name="c14-file_size-not-reset", ids=["C14"], rule="C14.R2e", subs=[(RSH, "    _open_file_timestamp = record_timestamp_ns;\n    _file_size = 0;", "    _open_file_timestamp = record_timestamp_ns;")]),
 dict(name="c14-size-accounting-before-rotation", ids=["C14"], rule="C14.R1d", subs=[(RSH, """    bool time_rotation = false;
""", """    bool time_rotation = false;
    _file_size += log_statement.size();
"""), (RSH, """                          named_args, log_message, log_statement);

    _file_size += log_statement.size();
  }""", """                          named_args, log_message, log_statement);
  }""")]),
 dict(name="c14-rename-before-close", ids=["C14"], rule="C14.R2", subs=[(RSH, """    this->close_file();

    // datetime_suffix will be empty""", """    // datetime_suffix will be empty"""), (RSH, """    // Check if we have too many files in the queue remove_file the oldest one
    if (_created_files.size() > _config.max_backup_files())""", """    this->close_file();
    if (_created_files.size() > _config.max_backup_files())""")]),
 dict(name="c14-remove-without-bound", ids=["C14"], rule="C14.R3a", subs=[(RSH, """    // Check if we have too many files in the queue remove_file the oldest one
    if (_created_files.size() > _config.max_backup_files())""", """    if (_created_files.size() > 1)""")]),
 dict(name="c14-early-return-after-close", ids=["C14"], rule="C14.R2a", subs=[(RSH, """    if (_get_file_size(this->_filename) <= 0)
    {
      // Also check the file size is > 0  to better deal with full disk
      return;
    }

    this->close_file();
""", """    this->close_file();

    if (_get_file_size(this->_filename) <= 0)
    {
      return;
    }
""")]),
 dict(name="c14-removes-newest", ids=["C14"], rule="C14.R3b", subs=[(RSH, """      fs::path const removed_file = _get_filename(
        _created_files.back().base_filename, _created_files.back().index, _created_files.back().date_time);""", """      fs::path const removed_file = _get_filename(
        _created_files.front().base_filename, _created_files.front().index, _created_files.front().date_time);""")]),
 dict(name="c14-rename-newest-first", ids=["C14"], rule="C14.R4", subs=[(RSH, "for (auto it = _created_files.rbegin(); it != _created_files.rend(); ++it)", "for (auto it = _created_files.begin(); it != _created_files.end(); ++it)")]),
 dict(name="c14-size-test-ignores-statement", ids=["C14"], rule="C14.R1f", subs=[(RSH, "if (_file_size + log_msg_size > _config.rotation_max_file_size())", "if (_file_size > _config.rotation_max_file_size())")]),
 dict(name="c14-stop-deletes-anyway", ids=["C14"], rule="C14.R3", subs=[(RSH, """      // We have reached the max number of backup files, and we are not allowed to overwrite the
      // oldest file. We will stop rotating
      return;
    }
""", """      _remove_file(_get_filename(_created_files.back().base_filename, _created_files.back().index, _created_files.back().date_time));
      return;
    }
""")]),
 dict(name="c14-double-write-on-rotation", ids=["C14"], rule="C14.R1a", subs=[(RSH, """      time_rotation = _time_rotation(log_timestamp);
    }
""", """      time_rotation = _time_rotation(log_timestamp);
      if (time_rotation) { base_type::write_log(log_metadata, log_timestamp, thread_id, thread_name, process_id, logger_name, log_level, log_level_description, log_level_short_code, named_args, log_message, log_statement); }
    }
""")]),
 # ---------------- C15
 dict(name="c15-prefix-next-from-record", ids=["C15"], rule="C15.R1c2", subs=[(RSH, """      do
      {
        _next_rotation_time = _calculate_rotation_tp(_next_rotation_time, _config);
      } while (_next_rotation_time <= record_timestamp_ns);
""", """      _next_rotation_time = _calculate_rotation_tp(record_timestamp_ns, _config);
""")]),
 dict(name="c15-advance-once-only", ids=["C15"], rule="C15.R1c2", subs=[(RSH, """      do
      {
        _next_rotation_time = _calculate_rotation_tp(_next_rotation_time, _config);
      } while (_next_rotation_time <= record_timestamp_ns);
""", """      _next_rotation_time = _calculate_rotation_tp(_next_rotation_time, _config);
""")]),
 dict(name="c15-size-rotation-also-when-time-rotated", ids=["C15"], rule="C15.R1b", subs=[(RSH, "if (!time_rotation && _config.rotation_max_file_size() != 0)", "if (_config.rotation_max_file_size() != 0)")]),
 dict(name="c15-next-rotation-not-updated", ids=["C15"], rule="C15.R1c2", subs=[(RSH, """      do
      {
        _next_rotation_time = _calculate_rotation_tp(_next_rotation_time, _config);
      } while (_next_rotation_time <= record_timestamp_ns);
""", "")]),
 dict(name="c15-hourly-arm-missing", ids=["C15"], rule="C15.R2a", subs=[(RSH, """    if (config.rotation_frequency() == RotatingFileSinkConfig::RotationFrequency::Hourly)
    {
      return rotation_timestamp_ns +
        static_cast<uint64_t>(
               std::chrono::nanoseconds{std::chrono::hours{config.rotation_interval()}}.count());
    }
""", "")]),
 dict(name="c15-strictly-after-point", ids=["C15"], rule="C15.R1c1", subs=[(RSH, "    if (record_timestamp_ns >= _next_rotation_time)", "    if (record_timestamp_ns > _next_rotation_time)")]),
 dict(name="c15-suffix-from-record-time", ids=["C15"], rule="C15.R1d", subs=[(RSH, 'this->format_datetime_string(_open_file_timestamp, _config.timezone(), "%Y%m%d");', 'this->format_datetime_string(record_timestamp_ns, _config.timezone(), "%Y%m%d");')]),
 dict(name="c15-time-check-after-write", ids=["C15"], rule="C15.R1a", subs=[(RSH, """    if (_config.rotation_frequency() != RotatingFileSinkConfig::RotationFrequency::Disabled)
    {
      // Check if we need to rotate based on time
      time_rotation = _time_rotation(log_timestamp);
    }
""", ""), (RSH, """                          named_args, log_message, log_statement);

    _file_size += log_statement.size();
  }""", """                          named_args, log_message, log_statement);

    _file_size += log_statement.size();
    if (_config.rotation_frequency() != RotatingFileSinkConfig::RotationFrequency::Disabled)
    {
      time_rotation = _time_rotation(log_timestamp);
    }
  }""")]),
 dict(name="c15-zero-interval-accepted", ids=["C15"], rule="C15.R2d", subs=[(RSH, """    if (interval == 0)
    {
      QUILL_THROW(QuillError{"interval must be set to a value greater than 0"});
    }
""", "")]),

 # ---------------- C11
 dict(name="c11-prefix-map-codec", ids=["C11"], rule="C11.R1", subs=[("std/Map.h", """        total_size += Codec<Key>::compute_encoded_size(conditional_arg_size_cache, elem.first);
        total_size += Codec<T>::compute_encoded_size(conditional_arg_size_cache, elem.second);""", """        total_size += Codec<std::pair<Key, T>>::compute_encoded_size(conditional_arg_size_cache, elem);""")]),
 dict(name="c11-prefix-unordered-map-encode", ids=["C11"], rule="C11.R1", subs=[("std/UnorderedMap.h", """      Codec<Key>::encode(buffer, conditional_arg_size_cache, conditional_arg_size_cache_index, elem.first);
      Codec<T>::encode(buffer, conditional_arg_size_cache, conditional_arg_size_cache_index, elem.second);""", """      Codec<std::pair<Key, T>>::encode(buffer, conditional_arg_size_cache, conditional_arg_size_cache_index, elem);""")]),
 dict(name="c11-temporary-string-in-cstring-encode", ids=["C11"], rule="C11.R1", subs=[("core/Codec.h", """      uint32_t const len = conditional_arg_size_cache[conditional_arg_size_cache_index++];
      std::memcpy(buffer, arg, len - 1);""", """      uint32_t const len = conditional_arg_size_cache[conditional_arg_size_cache_index++];
      std::string const tmp{arg ? arg : ""};
      std::memcpy(buffer, tmp.data(), len - 1);""")]),
 dict(name="c11-format-in-size-pass", ids=["C11"], rule="C11.R3", subs=[("core/Codec.h", """    if constexpr (std::disjunction_v<std::is_arithmetic<Arg>, std::is_enum<Arg>, std::is_same<Arg, void const*>>)
    {
      return sizeof(Arg);
    }""", """    if constexpr (std::is_same_v<Arg, double>)
    {
      return sizeof(Arg) + (fmtquill::formatted_size("{}", arg) > 64 ? 0 : 0);
    }
    else if constexpr (std::disjunction_v<std::is_arithmetic<Arg>, std::is_enum<Arg>, std::is_same<Arg, void const*>>)
    {
      return sizeof(Arg);
    }""")]),
 dict(name="c11-to_string-in-log_statement", ids=["C11"], rule="C11.R1", subs=[("Logger.h", """    // we have enough space in this buffer, and we will write to the buffer
""", """    // we have enough space in this buffer, and we will write to the buffer
    if (QUILL_UNLIKELY(total_size > 4096)) { thread_context->increment_failure_counter(); (void)std::to_string(total_size).size(); }
""")]),
 dict(name="c11-std-function-on-hot-path", ids=["C11"], rule="C11.R1", subs=[("Logger.h", """    // we have enough space in this buffer, and we will write to the buffer
""", """    // we have enough space in this buffer, and we will write to the buffer
    std::function<size_t(size_t)> const adjust = [total_size](size_t n) { return n + total_size; };
    if (adjust(1) == 0) { return false; }
"""), ("Logger.h", "#include <atomic>\n", "#include <atomic>\n#include <functional>\n")]),
 dict(name="c11-vector-copy-in-codec", ids=["C11"], rule="C11.R1", subs=[("std/Vector.h", "      for (auto const& elem : arg)\n      {\n        total_size += Codec<T>::compute_encoded_size(conditional_arg_size_cache, elem);", "      for (auto const elem : arg)\n      {\n        total_size += Codec<T>::compute_encoded_size(conditional_arg_size_cache, elem);")]),
 dict(name="c11-size-cache-inline-capacity-reduced", ids=["C11"], rule="C11.R1", subs=[("core/InlinedVector.h", "using SizeCacheVector = InlinedVector<uint32_t, 12>;", "using SizeCacheVector = InlinedVector<uint32_t, 8>;")]),

 # ---------------- C04
 dict(name="c04-string-decode-reads-size_t", ids=["C04"], rule="C04.R1", subs=[(CDC, """      // for std::string we first need to retrieve the length
      uint32_t len;""", """      // for std::string we first need to retrieve the length
      size_t len;""")]),
 dict(name="c04-cstring-decode-without-nul", ids=["C04"], rule="C04.R1", subs=[(CDC, "      buffer += detail::safe_strnlen(arg) + 1u;", "      buffer += detail::safe_strnlen(arg);")]),
 dict(name="c04-vector-count-uint32", ids=["C04"], rule="C04.R1", subs=[("std/Vector.h", "    Codec<size_t>::encode(buffer, conditional_arg_size_cache, conditional_arg_size_cache_index, arg.size());", "    Codec<uint32_t>::encode(buffer, conditional_arg_size_cache, conditional_arg_size_cache_index, static_cast<uint32_t>(arg.size()));")]),
 dict(name="c04-pair-decoded-second-first", ids=["C04"], rule="C04.R1", subs=[("std/Pair.h", """      arg.first = Codec<T1>::decode_arg(buffer);
      arg.second = Codec<T2>::decode_arg(buffer);
      return arg;""", """      arg.second = Codec<T2>::decode_arg(buffer);
      arg.first = Codec<T1>::decode_arg(buffer);
      return arg;""")]),
 dict(name="c04-plus-fold-in-size-pass", ids=["C04"], rule="C04.R2a", subs=[(CDC, """  size_t total_sum{0};
  // Avoid using a fold expression with '+ ...' because we require a guaranteed evaluation
  // order to ensure that each argument is processed in sequence. This is essential for
  // correctly populating the conditional_arg_size_cache
  ((total_sum += Codec<remove_cvref_t<Args>>::compute_encoded_size(conditional_arg_size_cache, args)), ...);
  return total_sum;""", """  size_t const total_sum = (size_t{0} + ... + Codec<remove_cvref_t<Args>>::compute_encoded_size(conditional_arg_size_cache, args));
  return total_sum;""")]),
 dict(name="c04-dynamic-level-before-args", ids=["C04"], rule="C04.R3d", subs=[("Logger.h", """    // encode remaining arguments
    detail::encode(write_buffer, thread_context->get_conditional_arg_size_cache(), fmt_args...);

    if constexpr (has_dynamic_log_level)
    {
      // write the dynamic log level
      // The reason we write it last is that is less likely to break the alignment in the buffer
      std::memcpy(write_buffer, &dynamic_log_level, sizeof(dynamic_log_level));
      write_buffer += sizeof(dynamic_log_level);
    }
""", """    if constexpr (has_dynamic_log_level)
    {
      std::memcpy(write_buffer, &dynamic_log_level, sizeof(dynamic_log_level));
      write_buffer += sizeof(dynamic_log_level);
    }

    // encode remaining arguments
    detail::encode(write_buffer, thread_context->get_conditional_arg_size_cache(), fmt_args...);
""")]),
 dict(name="c04-optional-flag-after-value", ids=["C04"], rule="C04.R1", subs=[("std/Optional.h", """    Codec<bool>::encode(buffer, conditional_arg_size_cache, conditional_arg_size_cache_index, arg.has_value());

    if (arg.has_value())
    {
      Codec<T>::encode(buffer, conditional_arg_size_cache, conditional_arg_size_cache_index, *arg);
    }""", """    if (arg.has_value())
    {
      Codec<T>::encode(buffer, conditional_arg_size_cache, conditional_arg_size_cache_index, *arg);
    }
    Codec<bool>::encode(buffer, conditional_arg_size_cache, conditional_arg_size_cache_index, arg.has_value());""")]),
 dict(name="c04-deferred-size-without-alignment-slack", ids=["C04"], rule="C04.R1", subs=[("DeferredFormatCodec.h", """      // If it’s misaligned, the worst-case scenario is when the pointer is off by one byte from an alignment boundary
      return sizeof(T) + alignof(T) - 1;""", """      return sizeof(T);""")]),
 dict(name="c04-header-logger-metadata-swapped-on-read", ids=["C04"], rule="C04.R3a", subs=[(BW, """    std::memcpy(&transit_event->macro_metadata, read_pos, sizeof(transit_event->macro_metadata));
    read_pos += sizeof(transit_event->macro_metadata);

    std::memcpy(&transit_event->logger_base, read_pos, sizeof(transit_event->logger_base));
    read_pos += sizeof(transit_event->logger_base);
""", """    std::memcpy(&transit_event->logger_base, read_pos, sizeof(transit_event->logger_base));
    read_pos += sizeof(transit_event->logger_base);

    std::memcpy(&transit_event->macro_metadata, read_pos, sizeof(transit_event->macro_metadata));
    read_pos += sizeof(transit_event->macro_metadata);
""")]),
 dict(name="c04-noclear-list-includes-cstring", ids=["C04"], rule="C04.R2b", subs=[(CDC, """                                                     std::is_same<remove_cvref_t<Args>, void const*>, is_std_string<remove_cvref_t<Args>>,""", """                                                     std::is_same<remove_cvref_t<Args>, void const*>, is_std_string<remove_cvref_t<Args>>, std::is_same<remove_cvref_t<Args>, char const*>,""")]),
 dict(name="c04-commit-different-size", ids=["C04"], rule="C04.R4", subs=[("Logger.h", """    // we have enough space in this buffer, and we will write to the buffer
""", """    // we have enough space in this buffer, and we will write to the buffer
    if constexpr (sizeof...(Args) > 11) { total_size = (total_size + 7u) & ~size_t{7u}; }
""")]),
 dict(name="c04-string_view-stores-pointer", ids=["C04"], rule="C04.R", subs=[(CDC, """      auto const len = static_cast<uint32_t>(arg.length());
      std::memcpy(buffer, &len, sizeof(len));
      buffer += sizeof(len);
      std::memcpy(buffer, arg.data(), len);
      buffer += len;""", """      auto const len = static_cast<uint32_t>(arg.length());
      std::memcpy(buffer, &len, sizeof(len));
      buffer += sizeof(len);
      if constexpr (std::is_same_v<Arg, std::string_view>) { char const* const p = arg.data(); std::memcpy(buffer, &p, sizeof(p)); buffer += sizeof(p); }
      else { std::memcpy(buffer, arg.data(), len); buffer += len; }""")]),
 dict(name="c04-map-count-missing-in-size", ids=["C04"], rule="C04.R1", subs=[("std/Map.h", "    size_t total_size{sizeof(size_t)};\n", "    size_t total_size{0};\n")]),
 dict(name="c04-chararray-copies-N-plus-one", ids=["C04"], rule="C04.R1", subs=[(CDC, "      size_t len = detail::safe_strnlen(arg, N) + 1u;", "      size_t len = detail::safe_strnlen(arg, N) + 2u;")]),

 # ---------------- extra rules (second round)
 dict(name="c17-registry-holds-sinks-strongly", ids=["C17"], rule="C17.R5a", subs=[("core/SinkManager.h", "    std::weak_ptr<Sink> sink_ptr;\n  };", "    std::shared_ptr<Sink> sink_ptr;\n  };"),
      ("core/SinkManager.h", "SinkInfo(std::string sid, std::weak_ptr<Sink> sptr)\n      : sink_id(static_cast<std::string&&>(sid)), sink_ptr(static_cast<std::weak_ptr<Sink>&&>(sptr)) {};", "SinkInfo(std::string sid, std::shared_ptr<Sink> sptr)\n      : sink_id(static_cast<std::string&&>(sid)), sink_ptr(static_cast<std::shared_ptr<Sink>&&>(sptr)) {};"),
      ("core/SinkManager.h", "      if (it->sink_ptr.expired())", "      if (it->sink_ptr.use_count() <= 1)"),
      ("core/SinkManager.h", "      sink = search_it->sink_ptr.lock();", "      sink = search_it->sink_ptr;")]),
 dict(name="c17-close_file-keeps-handle", ids=["C17"], rule="C17.R5e", subs=[("sinks/FileSink.h", "    fclose(_file);\n    _file = nullptr;\n", "    fclose(_file);\n")]),
 dict(name="c17-filesink-dtor-does-not-close", ids=["C17"], rule="C17.R5d", subs=[("sinks/FileSink.h", "  ~FileSink() override { close_file(); }", "  ~FileSink() override { if (_config.fsync_enabled()) { close_file(); } }")]),
 dict(name="c17-cleanup-skips-after-first", ids=["C17"], rule="C17.R5c", subs=[("core/SinkManager.h", "        it = _sinks.erase(it);\n        ++cnt;", "        ++it;\n        ++cnt;")]),
 dict(name="c14-append-mode-deletes", ids=["C14"], rule="C14.R5", subs=[(RSH, "    if (_config.remove_old_files() && (open_mode == \"w\"))", "    if (_config.remove_old_files())")]),
 dict(name="c14-recovered-sorted-descending", ids=["C14"], rule="C14.R5c", subs=[(RSH, "[](FileInfo const& a, FileInfo const& b) { return a.index < b.index; });", "[](FileInfo const& a, FileInfo const& b) { return a.index > b.index; });")]),
 dict(name="c14-ctor-opens-before-recover", ids=["C14"], rule="C14.R5d", subs=[(RSH, "    _clean_and_recover_files(filename, _config.open_mode(), today_timestamp_ns);\n", ""), (RSH, "    _created_files.emplace_front(this->_filename, 0, std::string{});\n\n    if (!this->is_null())", "    _clean_and_recover_files(filename, _config.open_mode(), today_timestamp_ns);\n    _created_files.emplace_front(this->_filename, 0, std::string{});\n\n    if (!this->is_null())")]),
 dict(name="c12-file_name-length-wrong", ids=["C12"], rule="C12.R6d", subs=[("core/MacroMetadata.h", "                            static_cast<size_t>(_colon_separator_pos - _file_name_pos)};", "                            static_cast<size_t>(_colon_separator_pos)};")]),
 dict(name="c12-line-includes-colon", ids=["C12"], rule="C12.R6a", subs=[("core/MacroMetadata.h", "    return _source_location + _colon_separator_pos + 1;", "    return _source_location + _colon_separator_pos;")]),
 dict(name="c20-flag-raised-before-registration", ids=["C20"], rule="C20.R5a", subs=[(TC, """    _spinlock.lock();
    _thread_contexts.push_back(thread_context);
    _spinlock.unlock();
    _new_thread_context_flag.store(true, std::memory_order_release);""", """    _new_thread_context_flag.store(true, std::memory_order_release);
    _spinlock.lock();
    _thread_contexts.push_back(thread_context);
    _spinlock.unlock();""")]),
 dict(name="c20-cache-reload-skips-invalid", ids=["C20"], rule="C20.R5d", subs=[(BW, """          // We do not skip invalidated && empty queue thread contexts as this is very rare,
          // so instead we just add them and expect them to be cleaned in the next iteration
          _active_thread_contexts_cache.push_back(thread_context);""", """          if (thread_context->is_valid()) { _active_thread_contexts_cache.push_back(thread_context); }""")]),

 dict(name="c04-string-flag-not-set-for-char", ids=["C04"], rule="C04.R6a", subs=[("core/DynamicFormatArgStore.h", "                  (mapped_type == fmtquill::detail::type::custom_type) ||\n                  (mapped_type == fmtquill::detail::type::char_type))", "                  (mapped_type == fmtquill::detail::type::custom_type))")]),
 dict(name="c04-store-clear-keeps-flag", ids=["C04"], rule="C04.R6b", subs=[("core/DynamicFormatArgStore.h", "    _dynamic_arg_list = detail::DynamicArgList{};\n    _has_string_related_type = false;", "    _dynamic_arg_list = detail::DynamicArgList{};")]),
 dict(name="c04-decoder-does-not-clear", ids=["C04"], rule="C04.R6c", subs=[(CDC, "  args_store.clear();\n  decode_and_store_arg<Args...>(buffer, &args_store);", "  if (sizeof...(Args) > 1) { args_store.clear(); }\n  decode_and_store_arg<Args...>(buffer, &args_store);")]),

 dict(name="c01-next_power_of_two-returns-n", ids=["C01"], rule="C01.R5d", subs=[("core/MathUtilities.h", "  if (is_power_of_two(static_cast<uint64_t>(n)))\n  {\n    return n;\n  }", "  if (is_power_of_two(static_cast<uint64_t>(n)) || (n > 4096 && (n % 4096) == 0))\n  {\n    return n;\n  }")]),
 dict(name="c01-next_power_of_two-stops-early", ids=["C01"], rule="C01.R5d", subs=[("core/MathUtilities.h", "  while (result < n)\n  {\n    result <<= 1;\n  }", "  while ((result << 1) < n)\n  {\n    result <<= 1;\n  }")]),
 dict(name="c01-is_power_of_two-accepts-zero", ids=["C01"], rule="C01.R5d", subs=[("core/MathUtilities.h", "  return (number != 0) && ((number & (number - 1)) == 0);", "  return ((number & (number - 1)) == 0);")]),

 # ---------------- rules added because of seeded changes
 dict(name="c05-grace-period-unit-slip", ids=["C05"], rule="C05.R1c", subs=[(BW, """    uint64_t const ts_now = _options.log_timestamp_ordering_grace_period.count()
      ? static_cast<uint64_t>((detail::get_timestamp<std::chrono::system_clock>() - _options.log_timestamp_ordering_grace_period)
                                .count())""", """    uint64_t const ts_now = _options.log_timestamp_ordering_grace_period.count()
      ? (detail::get_timestamp_ns<std::chrono::system_clock>() - static_cast<uint64_t>(_options.log_timestamp_ordering_grace_period.count()))""")]),
 dict(name="c02-empty-ignores-next-node", ids=["C02", "C03", "C05", "C07"], rule="R", subs=[(U, "    return _consumer->bounded_queue.empty() && (_consumer->next.load(std::memory_order_relaxed) == nullptr);", "    return _consumer->bounded_queue.empty();")]),

 dict(name="c08-prefix-context-removed-with-unreported-count", ids=["C08"], rule="C08.R4e", subs=[(BW, """      // report the drop / blocking counts first: the thread has exited, so its counter is final, and the
      // context that is removed below takes the counter with it
      _check_failure_counter(_options.error_notifier);

""", "")]),

 dict(name="c07-signal-logger-no-fallback", ids=["C07"], rule="C07.R4k", subs=[("backend/SignalHandler.h", """    if (!logger_base || !logger_base->is_valid_logger())
    {
      logger_base = LoggerManager::instance().get_valid_logger(excluded_logger_name_substr);
    }""", """    if (instance().logger_name.empty())
    {
      logger_base = LoggerManager::instance().get_valid_logger(excluded_logger_name_substr);
    }""")]),

 dict(name="c04-set-comparator-lost", ids=["C04"], rule="C04.R7a", subs=[("std/Set.h", "typename std::conditional<std::is_same<Compare, std::less<Key>>::value, std::less<ReturnType>, Compare>::type;", "typename std::conditional<std::is_same<ReturnType, Key>::value, Compare, std::less<ReturnType>>::type;")]),
 dict(name="c04-hex-escape-unmasked", ids=["C04"], rule="C04.R8a", subs=[(BW, "          formatted_msg.append(std::string{hex[(c >> 4) & 0xF]});", "          formatted_msg.append(std::string{hex[c >> 4]});")]),
 dict(name="c04-vector-decoded-reversed", ids=["C04"], rule="C04.R7b", subs=[("std/List.h", "arg.emplace_back(Codec<T>::decode_arg(buffer));", "arg.emplace_front(Codec<T>::decode_arg(buffer));")]),

 dict(name="c12-named-args-buffer-stale", ids=["C12"], rule="C12.R2h", subs=[(PFH, """      _formatted_named_args_buffer.clear();

      if (named_args)
      {""", """      if (named_args)
      {
        _formatted_named_args_buffer.clear();""")]),
 dict(name="c12-multiline-search-skips-char", ids=["C12"], rule="C12.R5d", subs=[(BW, "      size_t const end = msg.find_first_of('\\n', start);", "      size_t const end = msg.find_first_of('\\n', start + 1);")]),
 dict(name="c13-date-buffer-not-cleared", ids=["C13"], rule="C13.R1g", subs=[(TFH, "    // First always clear our cached string\n    _formatted_date.clear();", "    // First always clear our cached string\n    if (_has_format_part_2) { _formatted_date.clear(); }")]),
 dict(name="c04-message-buffer-not-cleared", ids=["C04"], rule="C04.R6e", subs=[(BW, """  QUILL_ATTRIBUTE_HOT void _populate_formatted_log_message(TransitEvent* transit_event, char const* message_format)
  {
    transit_event->formatted_msg->clear();
""", """  QUILL_ATTRIBUTE_HOT void _populate_formatted_log_message(TransitEvent* transit_event, char const* message_format)
  {
    if (transit_event->named_args) { transit_event->formatted_msg->clear(); }
""")]),
 # ---------------- rules added because of the third batch of seeded changes (C13-C20); the seeded patches themselves are run by
 # selftest.py straight from seeded/*/patch.diff, these are further instances of the same rules
 dict(name="c13-recalc-guard-strict", ids=["C13"], rule="C13.R4b", subs=[(SFH, "    if (timestamp >= _next_recalculation_timestamp)", "    if (timestamp > _next_recalculation_timestamp)")]),
 dict(name="c13-populate-local-with-gmtime", ids=["C13"], rule="C13.R4f", subs=[(SFH, "      localtime_rs(reinterpret_cast<time_t const*>(std::addressof(_cached_timestamp)), std::addressof(time_info));", "      gmtime_rs(reinterpret_cast<time_t const*>(std::addressof(_cached_timestamp)), std::addressof(time_info));")]),
 dict(name="c13-elapsed-after-overwrite", ids=["C13"], rule="C13.R4e", subs=[(SFH, """    time_t const timestamp_diff = timestamp - _cached_timestamp;

    // cache this timestamp
    _cached_timestamp = timestamp;
""", """    time_t const previous = _cached_timestamp;
    // cache this timestamp
    _cached_timestamp = timestamp;
    time_t const timestamp_diff = timestamp - _cached_timestamp;
    (void)previous;
""")]),
 dict(name="c13-backwards-updates-cache", ids=["C13"], rule="C13.R4a", subs=[(SFH, """      _fallback_formatted = _safe_strftime(_timestamp_format.data(), timestamp, _time_zone).data();
      return _fallback_formatted;""", """      _fallback_formatted = _safe_strftime(_timestamp_format.data(), timestamp, _time_zone).data();
      _cached_timestamp = timestamp;
      return _fallback_formatted;""")]),
 dict(name="c13-recalc-string-not-cleared", ids=["C13"], rule="C13.R4c", subs=[(SFH, "      _pre_formatted_ts.clear();\n      _cached_indexes.clear();", "      _cached_indexes.clear();")]),
 dict(name="c13-gmt-recalc-midnight-only", ids=["C13"], rule="C13.R4d", subs=[(SFH, "      time_info.tm_hour = 11;", "      time_info.tm_hour = 23;")]),
 dict(name="c13-seconds-of-day-without-minutes", ids=["C13"], rule="C13.R4f", subs=[(SFH, "static_cast<uint32_t>((time_info.tm_hour * 3600) + (time_info.tm_min * 60) + time_info.tm_sec);", "static_cast<uint32_t>((time_info.tm_hour * 3600) + (time_info.tm_min * 60));")]),
 dict(name="c20-free-reads-length-from-offset-slot", ids=["C20"], rule="C20.R6b", subs=[(B, "    std::memcpy(&total_size, static_cast<std::byte*>(ptr) - sizeof(size_t), sizeof(total_size));", "    std::memcpy(&total_size, static_cast<std::byte*>(ptr) - (2u * sizeof(size_t)), sizeof(total_size));")]),
 dict(name="c20-munmap-length-is-offset", ids=["C20"], rule="C20.R6b", subs=[(B, "    ::munmap(mem, total_size);", "    ::munmap(mem, offset);")]),
 dict(name="c12-colon-offset-first-colon", ids=["C12"], rule="C12.R6w", subs=[("core/MacroMetadata.h", "    auto const separator_index = source_loc.rfind(':');", "    auto const separator_index = source_loc.find(':');")]),
 dict(name="c12-file-name-offset-keeps-separator", ids=["C12"], rule="C12.R6w", subs=[("core/MacroMetadata.h", """      if (cur == '/' || cur == PATH_PREFERRED_SEPARATOR)
      {
        file = source_location;""", """      if (cur == '/' || cur == PATH_PREFERRED_SEPARATOR)
      {
        file = source_location - 1;""")]),
 dict(name="c12-file-name-offset-first-separator", ids=["C12"], rule="C12.R6w", subs=[("core/MacroMetadata.h", """      if (cur == '/' || cur == PATH_PREFERRED_SEPARATOR)
      {
        file = source_location;""", """      if ((cur == '/' || cur == PATH_PREFERRED_SEPARATOR) && (file == _source_location))
      {
        file = source_location;""")]),
 dict(name="c01-is_power_of_two-accepts-zero", ids=["C01"], rule="C01.R5e", subs=[("core/MathUtilities.h", "  return (number != 0) && ((number & (number - 1)) == 0);", "  return ((number & (number - 1)) == 0);")]),
 dict(name="c01-max_power_of_two-off-by-one-bit", ids=["C01"], rule="C01.R5e", subs=[("core/MathUtilities.h", "  return (std::numeric_limits<T>::max() >> 1) + 1;", "  return (std::numeric_limits<T>::max() >> 2) + 1;")]),
 dict(name="c02-prefix-shrink-without-commit", ids=["C02"], rule="C02.R2h", subs=[("core/UnboundedSPSCQueue.h", """    // commit previous write to the old queue before switching
    _producer->bounded_queue.commit_write();

    // store the new node pointer as next in the current node
    _producer->next.store(next_node, std::memory_order_release);

    // producer is now using the next node
    _producer = next_node;
  }

  /**
   * Prepare to read from the buffer""", """    // store the new node pointer as next in the current node
    _producer->next.store(next_node, std::memory_order_release);

    // producer is now using the next node
    _producer = next_node;
  }

  /**
   * Prepare to read from the buffer""")]),
 dict(name="c08-prefix-runtime-metadata-drop-not-counted", ids=["C08"], rule="C08.R2", subs=[("Logger.h", """        if ((macro_metadata->event() == MacroMetadata::Event::Log) ||
            (macro_metadata->event() == MacroMetadata::Event::LogWithRuntimeMetadata))
        {
          thread_context->increment_failure_counter();
        }
        return false;""", """        if (macro_metadata->event() == MacroMetadata::Event::Log)
        {
          thread_context->increment_failure_counter();
        }
        return false;""")]),
 dict(name="c08-control-events-counted-as-drops", ids=["C08"], rule="C08.R2", subs=[("Logger.h", """        if ((macro_metadata->event() == MacroMetadata::Event::Log) ||
            (macro_metadata->event() == MacroMetadata::Event::LogWithRuntimeMetadata))
        {
          thread_context->increment_failure_counter();
        }
        return false;""", """        thread_context->increment_failure_counter();
        return false;""")]),
 dict(name="c03-prefix-runtime-metadata-not-applied-on-named-arm", ids=["C03", "C12", "C19"], rule="R", subs=[("backend/BackendWorker.h", """      if (transit_event->macro_metadata->event() == MacroMetadata::Event::LogWithRuntimeMetadata)
      {
        if (transit_event->macro_metadata->has_named_args() && transit_event->named_args &&""", """      if (!transit_event->macro_metadata->has_named_args() &&
          transit_event->macro_metadata->event() == MacroMetadata::Event::LogWithRuntimeMetadata)
      {
        if (transit_event->macro_metadata->has_named_args() && transit_event->named_args &&""")]),
 dict(name="c05-tsc-resync-publishes-two-versions", ids=["C05"], rule="C05.R7a", subs=[("backend/RdtscClock.h", "_version.fetch_add(1, std::memory_order_release);", "_version.fetch_add(2, std::memory_order_release);")]),
 dict(name="c05-tsc-reader-mask-wrong", ids=["C05"], rule="C05.R7a", subs=[("backend/RdtscClock.h", "auto const index = _version.load(std::memory_order_relaxed) & (_base.size() - 1);\n\n    // get rdtsc current value", "auto const index = _version.load(std::memory_order_relaxed) & (_base.size() - 2);\n\n    // get rdtsc current value")]),
 dict(name="c05-tsc-slot-time-not-stored", ids=["C05"], rule="C05.R7b", subs=[("backend/RdtscClock.h", "        _base[index].base_time = wall_time;\n", "")]),
 dict(name="c05-tsc-version-published-relaxed", ids=["C05"], rule="C05.R7b", subs=[("backend/RdtscClock.h", "_version.fetch_add(1, std::memory_order_release);", "_version.fetch_add(1, std::memory_order_relaxed);")]),
 dict(name="c05-tsc-safe-reader-retry-inverted", ids=["C05"], rule="C05.R7c", subs=[("backend/RdtscClock.h", "} while (version != _version.load(std::memory_order_acquire));", "} while (version == _version.load(std::memory_order_acquire));")]),
 dict(name="c05-tsc-resync-stores-outside-lag", ids=["C05"], rule="C05.R7d", subs=[("backend/RdtscClock.h", "if (QUILL_LIKELY(end - beg <= lag))", "if (!(QUILL_LIKELY(end - beg <= lag)))")]),
 dict(name="c05-tsc-resync-when-not-overdue", ids=["C05"], rule="C05.R7e", subs=[("backend/RdtscClock.h", "if (diff > _resync_interval_ticks)", "if (diff < _resync_interval_ticks)")]),
 dict(name="c16-backend-consults-logger-level", ids=["C16"], rule="C16.R8b", subs=[("backend/BackendWorker.h", """    if (transit_event.macro_metadata->event() == MacroMetadata::Event::Log)
    {
      if (transit_event.log_level() != LogLevel::Backtrace)""", """    if (transit_event.macro_metadata->event() == MacroMetadata::Event::Log)
    {
      if (transit_event.logger_base->get_log_level() == LogLevel::None)
      {
        return;
      }
      if (transit_event.log_level() != LogLevel::Backtrace)""")]),
 dict(name="c03-copy_to-text-not-copied", ids=["C03", "C18"], rule="R", subs=[("backend/TransitEvent.h", "    other.formatted_msg->append(*formatted_msg);", ";")]),
 dict(name="c03-copy_to-named-args-on-the-wrong-outcome", ids=["C03"], rule="C03.R4t", subs=[("backend/TransitEvent.h", "    if (named_args)\n    {\n      other.named_args", "    if (!named_args)\n    {\n      other.named_args")]),
 dict(name="c03-logger-drops-its-sinks", ids=["C03"], rule="C03.R14", subs=[("core/LoggerBase.h", "    this->sinks = static_cast<std::vector<std::shared_ptr<Sink>>&&>(sinks);", ";")]),
 dict(name="c04-direct-format-text-not-written", ids=["C04"], rule="C04.R14", subs=[("DirectFormatCodec.h", '    fmtquill::format_to_n(reinterpret_cast<char*>(buffer), len, "{}", arg);', ";")]),
 dict(name="c04-direct-format-limited-by-another-length", ids=["C04"], rule="C04.R14", subs=[("DirectFormatCodec.h", '    fmtquill::format_to_n(reinterpret_cast<char*>(buffer), len, "{}", arg);', '    fmtquill::format_to_n(reinterpret_cast<char*>(buffer), sizeof(len), "{}", arg);')]),
 dict(name="c11-refusal-path-builds-the-error-text", ids=["C11"], rule="C11.R8", subs=[("core/UnboundedSPSCQueue.h", "      if (nbytes > _max_capacity)\n      {\n        QUILL_THROW(", "      std::string const too_large = \"Message size: \" + std::to_string(nbytes);\n      if (nbytes > _max_capacity)\n      {\n        QUILL_THROW(")]),
 dict(name="c02-grow-without-commit", ids=["C02"], rule="C02.R2h", subs=[("core/UnboundedSPSCQueue.h", "    // commit previous write to the old queue before switching\n    _producer->bounded_queue.commit_write();\n\n    // We failed to reserve", "    // We failed to reserve")]),
 dict(name="c10-prefix-fsync-on-closed-file", ids=["C10"], rule="C10.R14", subs=[("sinks/FileSink.h", """    if (!_file)
    {
      // the file is not open, e.g. a previous attempt to re-open it has failed
      return;
    }

""", "")]),
 dict(name="c18-prefix-replay-not-contained", ids=["C18", "C10"], rule="R", subs=[("backend/BackendWorker.h", """    QUILL_TRY { _dispatch_transit_event_to_sinks(transit_event, thread_id, thread_name); }
#if !defined(QUILL_NO_EXCEPTIONS)
    QUILL_CATCH(std::exception const& e) { _options.error_notifier(e.what()); }
    QUILL_CATCH_ALL()
    {
      _options.error_notifier(std::string{"Caught unhandled exception."});
    } // clang-format on
#endif
  }

  /**
   * Dispatches a transit event""", """    _dispatch_transit_event_to_sinks(transit_event, thread_id, thread_name);
  }

  /**
   * Dispatches a transit event""")]),
 dict(name="c18-replay-handler-rethrows", ids=["C18"], rule="C18.R2k", subs=[("backend/BackendWorker.h", """    QUILL_CATCH_ALL()
    {
      _options.error_notifier(std::string{"Caught unhandled exception."});
    } // clang-format on
#endif
  }

  /**
   * Dispatches a transit event""", """    QUILL_CATCH_ALL()
    {
      _options.error_notifier(std::string{"Caught unhandled exception."});
      throw;
    } // clang-format on
#endif
  }

  /**
   * Dispatches a transit event""")]),
 dict(name="c04-prefix-tuple-element-decoded-with-the-decoded-types-codec", ids=["C04"], rule="C04.R1", subs=[("std/Tuple.h", "    return std::tuple<decltype(Codec<Types>::decode_arg(buffer))...>{Codec<Types>::decode_arg(buffer)...};", """    std::tuple<decltype(Codec<Types>::decode_arg(buffer))...> arg;

    std::apply([&buffer](auto&... elems)
               { ((elems = Codec<std::decay_t<decltype(elems)>>::decode_arg(buffer)), ...); }, arg);

    return arg;""")]),
 dict(name="c19-runtime-metadata-takes-two-pairs-off", ids=["C19"], rule="C19.R12", subs=[("backend/BackendWorker.h", "transit_event->named_args->resize(transit_event->named_args->size() - 3);", "transit_event->named_args->resize(transit_event->named_args->size() - 2);")]),
 dict(name="c19-runtime-metadata-pairs-guard-off-by-one", ids=["C19"], rule="C19.R12", subs=[("backend/BackendWorker.h", "            (transit_event->named_args->size() >= 3))", "            (transit_event->named_args->size() > 3))")]),
 dict(name="c05-read-loop-leaves-on-node-switch", ids=["C05", "C06"], rule="R", subs=[("backend/BackendWorker.h", "        read_pos = _read_unbounded_frontend_queue(frontend_queue, thread_context);\n", "        read_pos = _read_unbounded_frontend_queue(frontend_queue, thread_context);\n        if (frontend_queue.capacity() != queue_capacity) { break; }\n")]),
 dict(name="c17-logger-freed-by-swap-and-pop", ids=["C17"], rule="C17.R6c", subs=[("core/LoggerManager.h", "            it = _loggers.erase(it);", "            std::iter_swap(it, _loggers.end() - 1); _loggers.pop_back();")]),
 dict(name="c04-set-size-pass-as-accumulate-with-one-byte-too-many", ids=["C04"], rule="C04.R1", subs=[("std/Set.h", """      for (auto const& elem : arg)
      {
        total_size += Codec<Key>::compute_encoded_size(conditional_arg_size_cache, elem);
      }""", """      total_size = std::accumulate(
        arg.begin(), arg.end(), total_size, [&conditional_arg_size_cache](size_t acc, Key const& elem)
        { return acc + Codec<Key>::compute_encoded_size(conditional_arg_size_cache, elem) + sizeof(char); });"""), ("std/Set.h", "#include <set>\n", "#include <numeric>\n#include <set>\n")]),
 dict(name="c13-ctor-part1-not-initialised-when-cut", ids=["C13"], rule="C13.R5b", subs=[("backend/TimestampFormatter.h", "      _strftime_part_1.init(format_part_1, _timestamp_timezone);", ";")]),
 dict(name="c13-ctor-part2-flag-false", ids=["C13"], rule="C13.R5b", subs=[("backend/TimestampFormatter.h", "        _has_format_part_2 = true;", "        _has_format_part_2 = false;")]),
 dict(name="c13-ctor-part2-on-the-empty-outcome", ids=["C13"], rule="C13.R5b", subs=[("backend/TimestampFormatter.h", "      if (!format_part_2.empty())", "      if (format_part_2.empty())")]),
 dict(name="c13-ctor-part1-cut-from-1", ids=["C13"], rule="C13.R5b", subs=[("backend/TimestampFormatter.h", "_time_format.substr(0, specifier_begin);", "_time_format.substr(1, specifier_begin);")]),
 dict(name="c13-ctor-arms-swapped", ids=["C13"], rule="C13.R5b", subs=[("backend/TimestampFormatter.h", "    if (specifier_begin == std::string::npos)\n    {\n      // If no additional", "    if (specifier_begin != std::string::npos)\n    {\n      // If no additional")]),
 dict(name="c06-prefix-removed-logger-sinks-not-collected", ids=["C06"], rule="C06.R4c", subs=[(BW, """        for (std::shared_ptr<Sink> const& sink : logger->sinks)
        {
          Sink* logger_sink_ptr = sink.get();""", """        if (logger->is_valid_logger())
        for (std::shared_ptr<Sink> const& sink : logger->sinks)
        {
          Sink* logger_sink_ptr = sink.get();""")]),
 dict(name="c06-prefix-erase-without-flush", ids=["C06"], rule="C06.R4h", subs=[(BW, """    if (_logger_manager.has_invalidated_loggers())
    {
      // The sinks of a logger that is about to be erased can outlive it, when another logger or the
      // user still holds them. Flush what was written through it while it is still registered
      _flush_and_run_active_sinks(false, std::chrono::milliseconds{0});
    }
""", "")]),
 dict(name="c06-flush-before-erase-on-the-wrong-outcome", ids=["C06"], rule="C06.R4h", subs=[(BW, "    if (_logger_manager.has_invalidated_loggers())\n    {\n      // The sinks of a logger", "    if (!_logger_manager.has_invalidated_loggers())\n    {\n      // The sinks of a logger")]),
 dict(name="c10-prefix-notifier-not-normalised", ids=["C10"], rule="C10.R8", subs=[("backend/BackendWorker.h", """    if (!_options.error_notifier)
    {
      // an undefined error_notifier disables the notifications, see BackendOptions::error_notifier
      _options.error_notifier = [](std::string const&) {};
    }

""", "")]),
 dict(name="c10-notifier-normalised-on-the-wrong-outcome", ids=["C10"], rule="C10.R8", subs=[("backend/BackendWorker.h", "    if (!_options.error_notifier)\n    {\n      // an undefined", "    if (_options.error_notifier)\n    {\n      // an undefined")]),
 dict(name="c04-char-array-terminator-dropped", ids=["C04"], rule="C04.R12", subs=[(CDC, "        buffer[N] = std::byte{'\\0'};\n", "")]),
 dict(name="c04-argstore-list-not-linked", ids=["C04"], rule="C04.R6g", subs=[("core/DynamicFormatArgStore.h", "    new_node->next = std::move(_head);\n", "")]),
 dict(name="c04-sizecache-second-growth-loses-elements", ids=["C04"], rule="C04.R11c", subs=[("core/InlinedVector.h", "          new_data[i] = _storage.heap_buffer[i];", "          (void)i;")]),
 dict(name="c04-runtime-metadata-not-sanitised", ids=["C04"], rule="C04.R6j", subs=[(BW, """    if (_options.check_printable_char)
    {
      // sanitize non-printable characters if enabled.
      sanitize_non_printable_chars(*transit_event->formatted_msg, _options);
    }""", """    if (!_options.check_printable_char)
    {
      // sanitize non-printable characters if enabled.
      sanitize_non_printable_chars(*transit_event->formatted_msg, _options);
    }""")]),
 dict(name="c04-sanitiser-skipped-for-dynamic-level", ids=["C04"], rule="C04.R6i", subs=[(BW, """        // we do not want to sanitise LogWithRuntimeMetadata yet because it includes a special separator
        // if non-printable chars check is configured or if any of the provided arguments are strings
        sanitize_non_printable_chars(*transit_event->formatted_msg, _options);""", """        // we do not want to sanitise LogWithRuntimeMetadata yet because it includes a special separator
        // if non-printable chars check is configured or if any of the provided arguments are strings
        if (transit_event->macro_metadata->log_level() != LogLevel::Dynamic)
        {
          sanitize_non_printable_chars(*transit_event->formatted_msg, _options);
        }""")]),
 dict(name="c07-exit-leaves-last-event-buffered", ids=["C07", "C03"], rule="R1", subs=[(BW, "      if (cached_transit_events_count > 0)\n", "      if (cached_transit_events_count > 1)\n")]),
 dict(name="c05-pending-scan-on-stale-cache", ids=["C05"], rule="C05.R4d", subs=[(BW, "  QUILL_ATTRIBUTE_HOT bool has_pending_events_for_caching_when_transit_event_buffer_empty() noexcept\n  {\n    _update_active_thread_contexts_cache();\n", "  QUILL_ATTRIBUTE_HOT bool has_pending_events_for_caching_when_transit_event_buffer_empty() noexcept\n  {\n")]),
 dict(name="c10-error-text-appended-to-partial-message", ids=["C10"], rule="C10.R11", subs=[(BW, "    QUILL_CATCH(std::exception const& e)\n    {\n      transit_event->formatted_msg->clear();\n", "    QUILL_CATCH(std::exception const& e)\n    {\n")]),
 dict(name="c05-tsc-converter-relaxed-publish", ids=["C05"], rule="C05.R5f", subs=[(BW, "_rdtsc_clock.store(new RdtscClock{_options.rdtsc_resync_interval}, std::memory_order_release);", "_rdtsc_clock.store(new RdtscClock{_options.rdtsc_resync_interval}, std::memory_order_relaxed);")]),
 dict(name="c12-last-char-of-empty-message", ids=["C12"], rule="C12.R5b", subs=[(BW, "        ((transit_event.formatted_msg->size() > 0) &&", "        ((transit_event.formatted_msg->size() >= 0) &&")]),
 dict(name="c19-escaped-brace-searched-from-plus-2", ids=["C19"], rule="C19.R5b", subs=[(BW, "      if (size_t const open_bracket_2_pos = fmt_template.find_first_of('{', open_bracket_pos + 1);", "      if (size_t const open_bracket_2_pos = fmt_template.find_first_of('{', open_bracket_pos + 2);")]),
 dict(name="c07-worker-thread-id-not-recorded", ids=["C07"], rule="C07.R6c", subs=[(BW, "    _worker_thread_id.store(get_thread_id());\n\n    (void)get_thread_name();", "    (void)get_thread_name();")]),
 dict(name="c08-single-drop-not-reported", ids=["C08"], rule="C08.R4f", subs=[(BW, "        if (QUILL_UNLIKELY(failed_messages_cnt > 0))", "        if (QUILL_UNLIKELY(failed_messages_cnt > 1))")]),
 dict(name="c20-unbounded-dtor-frees-nothing", ids=["C20"], rule="C20.R7a", subs=[(U, "    while (current_node != nullptr)\n    {\n      auto const to_delete = current_node;", "    while (current_node == nullptr)\n    {\n      auto const to_delete = current_node;")]),
 dict(name="c20-unbounded-dtor-reads-next-of-deleted-node", ids=["C20"], rule="C20.R7a", subs=[(U, "      current_node = current_node->next;\n      delete to_delete;", "      delete to_delete;\n      current_node = current_node->next;")]),
 dict(name="c17-get_valid_logger-returns-invalid-ones", ids=["C17", "C07"], rule="R", subs=[(LM, "      if (elem->is_valid_logger())\n      {\n        // Return the logger only if", "      if (!elem->is_valid_logger())\n      {\n        // Return the logger only if")]),
 dict(name="c14-ctor-size-read-only-for-null-sink", ids=["C14"], rule="C14.R5d", subs=[(RSH, "    if (!this->is_null())\n    {\n      _file_size = _get_file_size(this->_filename);", "    if (this->is_null())\n    {\n      _file_size = _get_file_size(this->_filename);")]),
 dict(name="c03-console-sink-drops-uncoloured-statements", ids=["C03"], rule="C03.R11", subs=[("sinks/ConsoleSink.h", """    else
    {
      // Write record to file
      StreamSink::write_log(log_metadata, log_timestamp, thread_id, thread_name, process_id,
                            logger_name, log_level, log_level_description, log_level_short_code,
                            named_args, log_message, log_statement);
    }""", """    else if (log_level != LogLevel::Backtrace)
    {
      // Write record to file
      StreamSink::write_log(log_metadata, log_timestamp, thread_id, thread_name, process_id,
                            logger_name, log_level, log_level_description, log_level_short_code,
                            named_args, log_message, log_statement);
    }""")]),
 dict(name="c13-prefix-unpatched-time-conversions-cached", ids=["C13"], rule="C13.R3d", subs=[(SFH, "    if ((timestamp < _cached_timestamp) || _has_uncacheable_time_modifier)", "    if (timestamp < _cached_timestamp)"), (SFH, "    _has_uncacheable_time_modifier = _contains_uncacheable_time_modifier(_timestamp_format);\n", "")]),
 dict(name="c13-scanner-misses-flagged-forms", ids=["C13"], rule="C13.R3e", subs=[(SFH, "      bool const has_flags_or_modifier = (j != (i + 1));", "      bool const has_flags_or_modifier = (j > (i + 2));")]),
 dict(name="c13-scanner-forgets-percent-c", ids=["C13"], rule="C13.R3e", subs=[(SFH, "      if ((c == 'c') ||\n          (has_flags_or_modifier &&", "      if ((c == 'C') ||\n          (has_flags_or_modifier &&")]),
 dict(name="c13-flag-computed-before-expansion", ids=["C13"], rule="C13.R3d", subs=[(SFH, "    // We first look for some special format modifiers and replace them\n", "    _has_uncacheable_time_modifier = _contains_uncacheable_time_modifier(_timestamp_format);\n"), (SFH, "    // Conversions that print the time of day without being one of the two-character forms patched\n    // below stay frozen in the pre-formatted string, such formats are always given to strftime\n    _has_uncacheable_time_modifier = _contains_uncacheable_time_modifier(_timestamp_format);\n", "")]),
 dict(name="c13-localtime_rs-calls-gmtime_r", ids=["C13"], rule="C13.R7a", subs=[("core/TimeUtilities.h", "  tm* res = localtime_r(timer, buf);", "  tm* res = gmtime_r(timer, buf);")]),
 dict(name="c13-timegm-via-mktime", ids=["C13"], rule="C13.R7a", subs=[("core/TimeUtilities.h", "  time_t const ret_val = ::timegm(tm);", "  time_t const ret_val = ::mktime(tm);")]),
 dict(name="c13-timegm-failure-returned", ids=["C13"], rule="C13.R7c", subs=[("core/TimeUtilities.h", """  if (QUILL_UNLIKELY(ret_val == (time_t)-1))
  {
    QUILL_THROW(QuillError{"timegm failed."});
  }
""", """  if (QUILL_UNLIKELY(ret_val == (time_t)-1))
  {
    return 0;
  }
""")]),
 dict(name="c13-gmtime_rs-returns-null-on-failure", ids=["C13"], rule="C13.R7c", subs=[("core/TimeUtilities.h", """  tm* res = gmtime_r(timer, buf);
  if (QUILL_UNLIKELY(!res))
  {""", """  tm* res = gmtime_r(timer, buf);
  if (QUILL_UNLIKELY(!res) && errno != EOVERFLOW)
  {""")]),
 dict(name="c14-recover-ignores-extension", ids=["C14"], rule="C14.R5e", subs=[(RSH, """      // we need to recover the index from the existing files
      for (const auto& entry : fs::directory_iterator(fs::current_path() / filename.parent_path()))
      {
        // is_directory() does not exist in std::experimental::filesystem
        if (entry.path().extension().string() != filename.extension().string())
        {
          // we only check for the files of the same extension to remove
          continue;
        }
""", """      // we need to recover the index from the existing files
      for (const auto& entry : fs::directory_iterator(fs::current_path() / filename.parent_path()))
      {
""")]),
 dict(name="c15-initial-mixed-zone", ids=["C15"], rule="C15.R3a", subs=[(RSH, "(config.timezone() == Timezone::GmtTime) ? detail::timegm(&date) : std::mktime(&date);", "(config.timezone() == Timezone::GmtTime) ? std::mktime(&date) : detail::timegm(&date);")]),
 dict(name="c15-hourly-minutes-not-zeroed", ids=["C15"], rule="C15.R3b", subs=[(RSH, "      date.tm_hour += 1;\n      date.tm_min = 0;", "      date.tm_hour += 1;")]),
 dict(name="c15-daily-hour-minute-swapped", ids=["C15"], rule="C15.R3c", subs=[(RSH, "date.tm_hour = static_cast<decltype(date.tm_hour)>(config.daily_rotation_time().first.count());", "date.tm_hour = static_cast<decltype(date.tm_hour)>(config.daily_rotation_time().second.count());")]),
 dict(name="c15-initial-point-may-equal-start", ids=["C15"], rule="C15.R3d", subs=[(RSH, "uint64_t const rotation_time_seconds = (rotation_time > time_now)", "uint64_t const rotation_time_seconds = (rotation_time >= time_now)")]),
 dict(name="c16-written-line-is-the-bare-message", ids=["C16"], rule="C16.R3", subs=[(BW, "        std::string_view log_to_write = log_statement;", "        std::string_view log_to_write = log_message;")]),
 dict(name="c17-find-sink-other-order", ids=["C17"], rule="C17.R6a", subs=[("core/SinkManager.h", """      std::lower_bound(_sinks.begin(), _sinks.end(), target,
                       [](SinkInfo const& elem, std::string const& b) { return elem.sink_id < b; });""", """      std::lower_bound(_sinks.begin(), _sinks.end(), target,
                       [](SinkInfo const& elem, std::string const& b) { return elem.sink_id > b; });""")]),
 dict(name="c19-separator-after-every-placeholder", ids=["C19"], rule="C19.R4b", subs=[(BW, "      if (i < named_args.size() - 1)\n      {\n        format_string += delimiter;", "      if (i < named_args.size())\n      {\n        format_string += delimiter;")]),
 dict(name="c19-split-skips-one-byte", ids=["C19"], rule="C19.R4c", subs=[(BW, "      start = end + delimiter.length();", "      start = end + 1;")]),
 dict(name="c19-piece-length-is-end", ids=["C19"], rule="C19.R4d", subs=[(BW, "named_args[idx++].second = formatted_values_str.substr(start, end - start);", "named_args[idx++].second = formatted_values_str.substr(start, end);")]),
 dict(name="c19-two-placeholders-for-spec", ids=["C19"], rule="C19.R4a", subs=[(BW, """        format_string += fmtquill::format("{{{}}}", orig_arg_names[i].second);
      }""", """        format_string += fmtquill::format("{{{}}}", orig_arg_names[i].second);
        format_string += "{}";
      }""")]),
 dict(name="c19-prefix-escaped-close-inside-placeholder", ids=["C19"], rule="C19.R5a", subs=[(BW, '      // look for the close bracket of this placeholder: inside a replacement field the first \'}\'\n      // closes it, "}}" is an escaped brace only in the literal text that follows (e.g. "{x}}}")\n      size_t close_bracket_pos = fmt_template.find_first_of(\'}\', open_bracket_pos + 1);\n      while (close_bracket_pos != std::string::npos)\n      {\n', "      // look for the next close bracket\n      size_t close_bracket_pos = fmt_template.find_first_of('}', open_bracket_pos + 1);\n      while (close_bracket_pos != std::string::npos)\n      {\n        // found closed bracket\n        if (size_t const close_bracket_2_pos = fmt_template.find_first_of('}', close_bracket_pos + 1);\n            close_bracket_2_pos != std::string::npos)\n        {\n          // found another open bracket\n          if ((close_bracket_2_pos - 1) == close_bracket_pos)\n          {\n            close_bracket_pos = fmt_template.find_first_of('}', close_bracket_2_pos + 1);\n            continue;\n          }\n        }\n\n")]),
 dict(name="c19-prefix-underscore-name-not-named", ids=["C19"], rule="C19.R6", subs=[("core/MacroMetadata.h", "(fc >= 'A' && fc <= 'Z') || (fc == '_')))", "(fc >= 'A' && fc <= 'Z')))")]),
]
