// C10: "if a sink's write or flush throws, the error is reported ... the backend thread keeps running". A FileSink whose flush throws once (the log file and its
// directory were removed, the re-open fails) drops every later statement silently; with "rot" as
// argument the same with a RotatingFileSink (next size rotation).
#include "quill/Backend.h"
#include "quill/Frontend.h"
#include "quill/LogMacros.h"
#include "quill/Logger.h"
#include "quill/backend/ManualBackendWorker.h"
#include "quill/sinks/FileSink.h"
#include "quill/sinks/RotatingFileSink.h"

#include <cstdio>
#include <cstring>
#include <filesystem>
#include <fstream>
#include <string>
#include <vector>

int main(int argc, char** argv)
{
  bool const rot = (argc > 1) && (std::strcmp(argv[1], "rot") == 0);
  namespace fs = std::filesystem;
  fs::path const dir = fs::temp_directory_path() / "c10_aside2_dir";
  fs::remove_all(dir);
  fs::create_directories(dir);

  std::vector<std::string> errors;
  quill::ManualBackendWorker* worker = quill::Backend::acquire_manual_backend_worker();
  quill::BackendOptions opts;
  opts.error_notifier = [&errors](std::string const& e)
  {
    errors.push_back(e);
    std::printf("  notifier: %s\n", e.c_str());
    std::fflush(stdout);
  };
  opts.sink_min_flush_interval = std::chrono::milliseconds{0};
  worker->init(opts);
  auto drain = [worker]() { for (int i = 0; i < 100; ++i) worker->poll_one(); };

  std::shared_ptr<quill::Sink> sink;
  if (!rot)
  {
    quill::FileSinkConfig cfg;
    cfg.set_open_mode('w');
    sink = quill::Frontend::create_or_get_sink<quill::FileSink>((dir / "a.log").string(), cfg);
  }
  else
  {
    quill::RotatingFileSinkConfig cfg;
    cfg.set_open_mode('w');
    cfg.set_rotation_max_file_size(512);
    sink = quill::Frontend::create_or_get_sink<quill::RotatingFileSink>((dir / "a.log").string(), cfg);
  }
  quill::Logger* l = quill::Frontend::create_or_get_logger("f", sink, quill::PatternFormatterOptions{"%(message)"});

  LOG_INFO(l, "s1");
  drain();
  std::printf("step 1 done, errors=%zu\n", errors.size());

  // the directory disappears (log clean-up job, unmounted volume ...)
  LOG_INFO(l, "s2");
  fs::remove_all(dir);
  drain(); // s2 written to the unlinked file, flush: file does not exist, re-open fails -> throws
  std::printf("step 2 done (directory removed), errors=%zu\n", errors.size());

  // the directory is back
  fs::create_directories(dir);
  for (int i = 3; i <= 12; ++i)
  {
    LOG_INFO(l, "s{} {}", i, std::string(100, 'x'));
  }
  std::fflush(stdout);
  drain();
  std::printf("step 3 done (directory is back, 10 more statements), errors=%zu\n", errors.size());
  std::printf("a.log exists: %d\n", (int)fs::exists(dir / "a.log"));
  std::fflush(stdout);
  std::_Exit(0);
}
