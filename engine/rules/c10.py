"""C10 — a failing statement or a throwing sink disturbs nothing else (DESIGN §4 C10)."""
from qlib import (AnalysisBroken, strip, isnode, walk, is_call, norm_cmp, var_ref, is_null, const_val, short, call_obj,
                  expr_key, field_name, is_this_field)
from rules.common import (core_and_neg, tnode, other, cpos, npos, branches_on_call, in_subtree, try_stack, handler_info,
                          has_catch_all, need_some, contained)

EXPLANATION = ("Exception containment in the backend. R1: between prepare_read and finish_read (the decode function and everything it "
               "calls) every call that can run user formatter code — fmt formatting fed from the decoded argument store — is enclosed, "
               "inside that window, by a try whose handlers include a catch-all that does not rethrow; otherwise an exception of any "
               "type leaves the window with the read position unadvanced and the same record is decoded again on every poll (this rule "
               "found the pinned tree's defect: std::exception only). R2: the per-event try has a std::exception handler and a "
               "catch-all, neither rethrows/returns, and the pop lies after it. R3: every call of a Sink virtual that may throw "
               "(write_log, flush_sink; run_periodic_tasks and Filter::filter must be declared noexcept) and every throw statement in "
               "the dispatch path is contained by a catch-all on every call chain from the poll loop. R4: _poll() is called inside "
               "try + catch-all inside the worker loop and in poll_one; every handler of the backend reports through the error "
               "notifier except the one named swallow. R5: 'backtrace without init' is a throw inside the per-event try.")
NOT_DECIDED = ("The text of the error message; 'at most that one statement is missing from that sink and the sinks after it' as a "
               "count; exceptions thrown by user copy constructors during decoding.")
ASSUMPTIONS = ["exceptions enabled (QUILL_NO_EXCEPTIONS not defined)", "the user's error_notifier itself does not throw"]
BW = "quill::detail::BackendWorker::"
SWALLOW_OK = {"quill::detail::BackendWorker::_populate_formatted_named_args":
              "the same formatting error was already reported by _populate_formatted_log_message for this statement"}


def run(ctx):
    configs = ["A"] if ctx.tier == "quick" else ["A", "B"]
    for cfg in configs:
        facts = ctx.facts("core.cpp", cfg)
        r1(ctx, facts, cfg)
        r2(ctx, facts, cfg)
        r3(ctx, facts, cfg)
        r4(ctx, facts, cfg)
    # state that is reused from one statement to the next must not carry a failed (or any earlier) statement into the next one:
    # the shared argument store (= C04.R6) and the JSON sink's message buffer (= C19.R3)
    from rules import c04, c19
    from rules.c09 import Renamed
    c04.string_flag(Renamed(ctx, "C04.R6", "C10.R6"), ctx.facts("effects.cpp", "A", ()), ctx.facts("core.cpp", "A"))
    c19.r3(Renamed(ctx, "C19.R3", "C10.R7"), ctx.facts("core.cpp", "A"))


def window_fns(facts, cfg):
    root = facts.need(BW + "_populate_transit_event_from_frontend_queue", cfg)[0]
    fs = facts.reachable_fns([root], cfg, stop=lambda f: not (f.short.startswith("quill::detail::BackendWorker::")))
    return root, [f for f in fs if f.short.startswith("quill::detail::BackendWorker::")]


def refs_arg_store(n):
    for x in walk(n):
        if x["k"] == "MemberExpr" and x.get("mname") == "_format_args_store":
            return True
        if x["k"] == "DeclRefExpr" and x.get("name") == "format_args_store":
            return True
    return False


def contained_in_window(facts, cfg, root, f, node, seen=None):
    """like common.contained but the chain may not leave the read window (root)"""
    if seen is None:
        seen = set()
    for t in try_stack(f, node):
        if has_catch_all(t):
            return True, []
    if f is root:
        return False, [f.short]
    if id(f) in seen:
        return True, []
    seen.add(id(f))
    callers = [(g, s) for (g, s) in facts.callsites(cfg).get(id(f), []) if g.short.startswith("quill::detail::BackendWorker::")]
    if not callers:
        return False, [f.short]
    for (g, s) in callers:
        ok, chain = contained_in_window(facts, cfg, root, g, s, seen)
        if not ok:
            return False, chain + [f.short]
    return True, []


def r1(ctx, facts, cfg):
    root, win = window_fns(facts, cfg)
    sites = 0
    for f in win:
        for c in f.calls(r"^fmtquill::(v\d+::)?(vformat_to|vformat|format|format_to|vformat_to_n|format_to_n|formatted_size)\b"):
            if not refs_arg_store(c):
                continue
            sites += 1
            ok, chain = contained_in_window(facts, cfg, root, f, c)
            ctx.ob("C10.R1", "%s:user-formatter-contained" % f.short.replace("quill::detail::", ""), ok,
                   "formatting of decoded user arguments (%s) is enclosed, inside the prepare_read..finish_read window, by a catch-all that "
                   "does not rethrow%s" % (short(c["callee"]).split("::")[-1], "" if ok else " — escapes through " + " <- ".join(reversed(chain))),
                   loc=c["loc"], fn=f)
    ctx.floor("C10.R1", "formatting calls fed from the decoded argument store", sites, 2)
    # the handlers that contain them produce the error text / report, and do not leave the window abnormally
    f = facts.need(BW + "_populate_formatted_log_message", cfg)[0]
    tries = [n for n in f.walk() if n["k"] == "CXXTryStmt"]
    ok = bool(tries)
    for t in tries:
        for (caught, rt, ret, body) in handler_info(t):
            reports = any(is_call(x) and any(y["k"] == "MemberExpr" and y.get("mname") == "error_notifier" for y in walk(x)) for x in walk(body))
            writes_text = any(is_call(x, r"::append\b") for x in walk(body))
            ctx.ob("C10.R1b", "_populate_formatted_log_message:handler(%s)" % caught, reports and not rt,
                   "the handler reports the failure (and may replace the message by an explanatory error text) and reports through the error notifier "
                   "(reports: %s, writes text: %s, rethrows: %s)" % (reports, writes_text, rt), loc=body["loc"], fn=f)


def r2(ctx, facts, cfg):
    f = facts.need(BW + "_process_lowest_timestamp_transit_event", cfg)[0]
    disp = need_some(f.calls(r"::_process_transit_event$"), "_process_transit_event call")
    ts = try_stack(f, disp[0])
    hi = [h for t in ts for h in handler_info(t)]
    caught = [c for (c, rt, ret, b) in hi]
    ok = bool(ts) and "..." in caught and all(not rt and not ret for (c, rt, ret, b) in hi)
    ctx.ob("C10.R2", "_process_lowest_timestamp_transit_event:per-event-try", ok,
           "the dispatch of one event is enclosed by handlers %s, none of which rethrows or returns: the event is popped regardless" % caught, fn=f)
    pops = f.calls(r"TransitEventBuffer::pop_front$")
    ok = bool(pops) and all(not any(t in try_stack(f, p) for t in ts) for p in pops)
    ctx.ob("C10.R2", "_process_lowest_timestamp_transit_event:pop-outside-try", ok,
           "pop_front lies outside (after) the per-event try", fn=f)
    # R2c: the clean-up of the reused event runs on the error path too: it lies outside the try and every path to pop_front passes it
    # (or finds no named-args vector to clean)
    g = f.g
    clr = [c for c in f.calls(r"std::vector<.*>::clear$") if any(x["k"] == "MemberExpr" and x.get("mname") == "named_args" for x in walk(call_obj(c)))]
    cp_ = npos(f, clr)
    nul = []
    for bid, b in g.blocks.items():
        c = g.term_cond(bid)
        if c is None:
            continue
        core, neg = core_and_neg(c)
        if any(x["k"] == "MemberExpr" and x.get("mname") == "named_args" for x in walk(core)) and not any(is_call(x, r"::clear$") for x in walk(core)):
            nul.append((bid, "T" if neg else "F"))  # label of 'no named-args vector'
    ok = bool(clr) and all(not any(t in try_stack(f, c) for t in ts) for c in clr) and \
        not g.exists_path([g.entry_node], npos(f, pops), avoid_nodes=cp_, avoid_edges=[(b, l) for (b, l) in nul])
    ctx.ob("C10.R2c", "_process_lowest_timestamp_transit_event:cleanup-on-every-path", ok,
           "the named arguments of the reused transit event are cleared after the per-event try, on the error path as well: a statement "
           "whose dispatch threw does not leave its named arguments to the next statement that reuses the slot", fn=f)


def r3(ctx, facts, cfg):
    # declarations: which Sink/Filter virtuals may throw
    sink = facts.cls("quill::Sink", cfg)
    filt = facts.cls("quill::Filter", cfg)
    if not sink or not filt:
        raise AnalysisBroken("Sink / Filter class records not found")
    decl = {short(m["name"]).split("::")[-1]: m for m in sink["methods"] + filt["methods"] if m.get("virt")}
    for need in ("write_log", "flush_sink", "run_periodic_tasks", "filter"):
        if need not in decl:
            raise AnalysisBroken("virtual %s not found on Sink/Filter" % need)
    backend = [f for f in facts.fns if f.config == cfg and not f.rec.get("main") and
               (f.short.startswith(BW) or f.short.startswith("quill::detail::BacktraceStorage::") or f.short.startswith("quill::Sink::apply_all_filters"))]
    n = 0
    memo = {}
    for f in backend:
        for c in f.calls(r"^quill::(Sink|Filter)::(write_log|flush_sink|run_periodic_tasks|filter)$"):
            if c.get("qualified"):
                continue
            name = short(c["callee"]).split("::")[-1]
            n += 1
            if decl[name].get("nothrow"):
                ctx.ob("C10.R3a", "%s:%s-noexcept" % (f.short.replace("quill::detail::", ""), name), True,
                       "%s is declared noexcept: user overrides cannot propagate an exception" % name, loc=c["loc"], fn=f)
                continue
            ok, chain = contained(facts, cfg, f, c, memo)
            ctx.ob("C10.R3b", "%s:%s-contained" % (f.short.replace("quill::detail::", ""), name), ok,
                   "the call of user sink code %s() is enclosed by a non-rethrowing catch-all on every call chain from the poll loop%s"
                   % (name, "" if ok else " — escapes through " + " <- ".join(reversed(chain))), loc=c["loc"], fn=f)
    ctx.floor("C10.R3", "calls of Sink/Filter virtuals from backend code", n, 4)
    # per-sink containment of flush: the try is inside the loop over sinks (one sink's failure does not skip the others)
    f = facts.need(BW + "_flush_and_run_active_sinks", cfg)[0]
    for c in f.calls(r"^quill::Sink::flush_sink$"):
        ts = [t for t in try_stack(f, c) if has_catch_all(t)]
        loops = [a for a in f.ancestors(c) if a["k"] == "CXXForRangeStmt"]
        ok = bool(ts) and bool(loops) and in_subtree(ts[0], loops[0])
        ctx.ob("C10.R3c", "_flush_and_run_active_sinks:per-sink-try", ok,
               "flush_sink is contained per sink (try inside the loop): a throwing sink does not prevent flushing the others and does not "
               "let the flush request escape unanswered", loc=c["loc"], fn=f)
    # R5: throw statements in the dispatch path are contained
    pt = facts.need(BW + "_process_transit_event", cfg)[0]
    throws = [x for x in pt.walk() if x["k"] == "CXXThrowExpr"]
    ctx.floor("C10.R5", "throw statements in _process_transit_event (backtrace without init)", len(throws), 1)
    for t in throws:
        ok, chain = contained(facts, cfg, pt, t, memo)
        ctx.ob("C10.R5", "_process_transit_event:throw-contained", ok,
               "the 'backtrace used without init' error is raised inside the per-event containment and reported, not propagated", loc=t["loc"], fn=pt)


def r4(ctx, facts, cfg):
    # _poll() call sites
    poll = facts.need(BW + "_poll", cfg)[0]
    sites = facts.callsites(cfg).get(id(poll), [])
    ctx.floor("C10.R4", "call sites of _poll", len(sites), 2)
    for (g, c) in sites:
        ts = [t for t in try_stack(g, c) if has_catch_all(t)]
        ok = bool(ts)
        in_loop = True
        if "lambda" in g.name:
            loops = [a for a in g.ancestors(c) if a["k"] in ("WhileStmt", "DoStmt", "ForStmt")]
            in_loop = bool(loops) and bool(ts) and in_subtree(ts[0], loops[0])
        ctx.ob("C10.R4a", "%s:_poll-contained" % g.short.replace("quill::detail::", "").replace("quill::", ""), ok and in_loop,
               "_poll() runs inside try + non-rethrowing catch-all%s: an exception ends one poll, not the backend"
               % (" inside the worker loop" if "lambda" in g.name else ""), loc=c["loc"], fn=g)
    ex = facts.need(BW + "_exit", cfg)[0]
    for (g, c) in facts.callsites(cfg).get(id(ex), []):
        if g.rec.get("dtor"):
            ctx.note("~%s calls _exit() outside a try (destructor; observed, not armed)" % g.cls)
            continue
        ts = [t for t in try_stack(g, c) if has_catch_all(t)]
        ctx.ob("C10.R4a", "%s:_exit-contained" % g.short.replace("quill::detail::", ""), bool(ts),
               "the exit drain runs inside try + catch-all", loc=c["loc"], fn=g)
    # every handler in the backend reports
    n = 0
    for f in facts.fns:
        if f.config != cfg or f.rec.get("main"):
            continue
        if not (f.short.startswith(BW) or f.short.startswith("quill::ManualBackendWorker::")):
            continue
        for t in [x for x in f.walk() if x["k"] == "CXXTryStmt"]:
            hs = handler_info(t)
            caught = [c for (c, rt, ret, b) in hs]
            for (c, rt, ret, body) in hs:
                n += 1
                reports = any(y["k"] == "MemberExpr" and y.get("mname") == "error_notifier" for y in walk(body))
                base = f.short.split("::lambda")[0]
                if not reports and base in SWALLOW_OK:
                    ctx.ob("C10.R4b", "%s:handler(%s)" % (f.short.replace("quill::detail::", ""), c), True,
                           "named swallow: " + SWALLOW_OK[base], loc=body["loc"], fn=f)
                    continue
                ctx.ob("C10.R4b", "%s:handler(%s)" % (f.short.replace("quill::detail::", ""), c), reports and not rt,
                       "the handler reports through _options.error_notifier and does not rethrow", loc=body["loc"], fn=f)
            ctx.ob("C10.R4c", "%s:catch-all-present@%s" % (f.short.replace("quill::detail::", ""), t["loc"].split(":")[1]), "..." in caught,
                   "a try in the backend that catches std::exception also has a catch-all (any exception type): %s" % caught, loc=t["loc"], fn=f)
    ctx.floor("C10.R4b", "exception handlers in the backend", n, 10)
