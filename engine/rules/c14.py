"""C14 — size rotation: statements whole, ordered, bounded (DESIGN §4 C14)."""
from qlib import (AnalysisBroken, strip, isnode, walk, is_call, norm_cmp, var_ref, is_null, const_val, short, call_obj,
                  expr_key, field_name, is_this_field)
from rules.common import (core_and_neg, tnode, other, cpos, npos, branches_on_call, in_subtree, need_some, straight_after,
                          flatten, loops_enclosing)
from rules.c02 import cmp_sides

EXPLANATION = ("Rotating sink, size side. R1: write_log performs, on every path, exactly one write of the whole statement to the base "
               "sink; on the rotating path the rotation decision precedes the write, the size tested is the size of the statement "
               "about to be written and the same size is added to the tracked file size after the write. R2 (_rotate_files typestate): "
               "flush and fsync happen while the file is open, every early return lies before close_file (the sink is never left "
               "closed), renames and removal happen only between close_file and open_file, and every path from close_file reaches "
               "open_file(\"w\"), the reset of the tracked size and the new open-timestamp. R3: a file is removed only under "
               "'more files than max_backup_files', it is the oldest element of the list and is popped together with the removal; "
               "'rotation stops' is taken only when overwriting is off and before anything was renamed or removed. R4: the rename "
               "chain walks oldest to newest (reverse of the newest-at-front insertion) so no rename overwrites a file that is still "
               "to be renamed. R5 (start-up): files are deleted only under remove_old_files() and mode \"w\"; append mode re-registers and "
               "deletes nothing; recovered files are ordered newest first; the constructor recovers, opens, registers and takes the "
               "current size; a directory entry is deleted or adopted only when its name starts with '<stem>.' and has the sink's "
               "extension (unrelated files present are left alone). Checked for RotatingSink<FileSink> and RotatingSink<JsonFileSink>.")
NOT_DECIDED = ("File-size arithmetic for all size sequences, the index/date parsing of recovered names (R5 decides which entries may be "
               "touched and in which mode, not what is parsed out of them), the ordering of names as values; for the JSON sink the tracked size counts the text statement, not the JSON line (noted).")
ASSUMPTIONS = ["the base sink writes the whole statement or throws (StreamSink::safe_fwrite)"]
RS = "quill::RotatingSink::"


def run(ctx):
    facts = ctx.facts("core.cpp", "A")
    wl = facts.need(RS + "write_log", "A", floor=2)
    for f in wl:
        r1(ctx, facts, f)
    for f in facts.need(RS + "_rotate_files", "A", floor=2):
        r2_r3_r4(ctx, facts, f)
    for f in facts.need(RS + "_size_rotation", "A", floor=2):
        size_rotation(ctx, f)
    for f in facts.need(RS + "_clean_and_recover_files", "A", floor=2):
        recover(ctx, facts, f)
    ctx.note("RotatingSink<JsonFileSink> adds the size of the text statement, not of the JSON line, to the tracked size (observed; value clause)")


def inst(f):
    return f.name.split("RotatingSink<")[1].split(">")[0].replace("quill::", "")


def r1(ctx, facts, f):
    g = f.g
    site = "RotatingSink<%s>::write_log" % inst(f)
    stmt = f.rec["params"][11]["did"]
    ts = f.rec["params"][1]["did"]
    writes = [c for c in f.calls(r"::write_log$") if c.get("qualified") or "RotatingSink" not in c["callee"]]
    wp = npos(f, writes)
    cnt = g.count_on_paths([g.entry_node], [g.exit_node], wp)
    ctx.ob("C14.R1a", site + ":one-write", cnt[g.exit_node] == (1, 1),
           "every statement is written exactly once to the base sink on every path %s" % (cnt[g.exit_node],), fn=f)
    ctx.ob("C14.R1b", site + ":whole-statement", bool(writes) and all(var_ref(c["args"][11]) == stmt for c in writes),
           "the statement handed to the base sink is the whole formatted statement, unchanged", fn=f)
    nb = branches_on_call(f, r"::is_null$")
    if not nb:
        raise AnalysisBroken(site + ": is_null test not found")
    bid, tl, _c = nb[0]
    t = tnode(g, bid)
    live = g.reach([t], avoid_edges=[(bid, tl)])
    sr = [c for c in f.calls(r"::_size_rotation$")]
    tr = [c for c in f.calls(r"::_time_rotation$")]
    srp, trp = npos(f, sr), npos(f, tr)
    live_w = [p for p in wp if p in live]
    ok = bool(sr) and bool(live_w) and not g.exists_path(live_w, srp + trp) and \
        all(is_call(strip(c["args"][0], casts=True), r"basic_string_view<.*>::(size|length)$") and var_ref(call_obj(strip(c["args"][0], casts=True))) == stmt for c in sr) and \
        all(var_ref(c["args"][1]) == ts for c in sr) and all(var_ref(c["args"][0]) == ts for c in tr)
    ctx.ob("C14.R1c", site + ":rotate-before-write", ok,
           "the rotation decision is taken before the write, for the size of this statement and its timestamp", fn=f)
    adds = [n for n in f.walk() if n["k"] == "CompoundAssignOperator" and n["op"] == "+=" and is_this_field(n["lhs"], "_file_size")]
    ap = npos(f, adds)
    ok = bool(adds) and all(is_call(strip(n["rhs"], casts=True), r"basic_string_view<.*>::(size|length)$") and var_ref(call_obj(strip(n["rhs"], casts=True))) == stmt for n in adds) and \
        all(g.dominates(live_w, p) for p in ap) and not g.exists_path(live_w, [g.exit_node], avoid_nodes=ap)
    ctx.ob("C14.R1d", site + ":size-accounting", ok,
           "after the write the tracked file size grows by the size of the statement just written, on every rotating path", fn=f)
    # size rotation only when enabled
    mx = []
    for b2, blk in g.blocks.items():
        c = g.term_cond(b2)
        if c is not None and any(is_call(x, r"::rotation_max_file_size$") for x in walk(c)):
            nc = norm_cmp(c)
            if nc and nc[0] in ("==", "!=") and "0" in (nc[1], nc[2]):
                mx.append((b2, "T" if nc[0] == "!=" else "F"))
    ok = bool(mx) and not g.exists_path([g.entry_node], srp, avoid_edges=mx)
    ctx.ob("C14.R1e", site + ":size-rotation-when-enabled", ok,
           "size rotation is consulted exactly when rotation_max_file_size is set", fn=f)


def size_rotation(ctx, f):
    g = f.g
    site = "RotatingSink<%s>::_size_rotation" % inst(f)
    szp = f.rec["params"][0]["did"]
    rot = cpos(f, r"::_rotate_files$")
    ok = False
    for bid, b in g.blocks.items():
        c = g.term_cond(bid)
        cs = cmp_sides(c) if c is not None else None
        if not cs:
            continue
        small, big = strip(cs[1], casts=True), strip(cs[2], casts=True)
        if is_call(small, r"::rotation_max_file_size$") and isnode(big) and big["k"] == "BinaryOperator" and big["op"] == "+":
            terms = [big["lhs"], big["rhs"]]
            if any(is_this_field(x, "_file_size") for x in terms) and any(var_ref(x) == szp for x in terms):
                ok = bool(rot) and not g.exists_path([g.entry_node], rot, avoid_edges=[(bid, "T")]) and \
                    not g.exists_path([tnode(g, bid)], [g.exit_node], avoid_nodes=rot, avoid_edges=[(bid, "F")])
    ctx.ob("C14.R1f", site + ":limit-test", ok,
           "the file is rotated exactly when tracked size + statement size would exceed the limit (so no file exceeds it unless a single "
           "statement does)", fn=f)
    calls = f.calls(r"::_rotate_files$")
    ctx.ob("C14.R1g", site + ":passes-timestamp", bool(calls) and all(var_ref(c["args"][0]) == f.rec["params"][1]["did"] for c in calls),
           "the rotation receives the statement's timestamp", fn=f)


def r2_r3_r4(ctx, facts, f):
    g = f.g
    site = "RotatingSink<%s>::_rotate_files" % inst(f)
    tsp = f.rec["params"][0]["did"]
    close = cpos(f, r"::close_file$")
    opens = [c for c in f.calls(r"::open_file$")]
    openp = npos(f, opens)
    flush = cpos(f, r"::flush_sink$")
    fsync = cpos(f, r"::fsync_file$")
    ren = cpos(f, r"::_rename_file$")
    rem = cpos(f, r"::_remove_file$")
    if not close or not opens:
        raise AnalysisBroken(site + ": close_file / open_file not found")
    rets = g.return_nodes()
    ok = all(not g.exists_path(close, [r]) for r in rets)
    ctx.ob("C14.R2a", site + ":no-return-while-closed", ok and not g.exists_path(close, [g.exit_node], avoid_nodes=openp),
           "every early return lies before close_file and every path from close_file re-opens the file (the sink is never left closed)", fn=f)
    ok = bool(flush) and bool(fsync) and all(g.dominates(flush, p) for p in close) and all(g.dominates(fsync, p) for p in close) and \
        not g.exists_path(close, flush + fsync, avoid_nodes=openp)
    ctx.ob("C14.R2b", site + ":flush-before-close", ok,
           "buffered statements are flushed and synced to the file being retired before it is closed", fn=f)
    ok = bool(ren) and all(g.dominates(close, p) for p in ren + rem) and not g.exists_path(openp, ren + rem)
    ctx.ob("C14.R2c", site + ":rename-only-while-closed", ok,
           "files are renamed / removed only between close_file and open_file", fn=f)
    ok = all(any(x["k"] == "StringLiteral" and x.get("str") == "w" for x in walk(c["args"][1])) and
             any(is_this_field(x, "_filename") for x in walk(c["args"][0])) for c in opens)
    ctx.ob("C14.R2d", site + ":reopens-fresh-base-file", ok, "the base file name is re-opened truncated (\"w\")", fn=f)
    zero = npos(f, [n for n in f.walk() if n["k"] == "BinaryOperator" and n["op"] == "=" and is_this_field(n["lhs"], "_file_size") and const_val(n["rhs"]) == 0])
    tsa = npos(f, [n for n in f.walk() if n["k"] == "BinaryOperator" and n["op"] == "=" and is_this_field(n["lhs"], "_open_file_timestamp") and var_ref(n["rhs"]) == tsp])
    ok = bool(zero) and bool(tsa) and not g.exists_path(openp, [g.exit_node], avoid_nodes=zero) and not g.exists_path(openp, [g.exit_node], avoid_nodes=tsa)
    ctx.ob("C14.R2e", site + ":state-reset", ok,
           "after re-opening the tracked size restarts at 0 and the open-timestamp becomes the triggering statement's timestamp", fn=f)
    front = [c for c in f.calls(r"std::deque<.*>::(emplace_front|push_front)") if is_this_field(call_obj(c), "_created_files")]
    fp = npos(f, front)
    ok = bool(front) and not g.exists_path(close, [g.exit_node], avoid_nodes=fp) and all(const_val(c["args"][1]) == 0 for c in front if len(c["args"]) > 1)
    ctx.ob("C14.R2f", site + ":new-file-registered", ok,
           "the freshly opened base file is registered as the newest entry (index 0) on every rotating path", fn=f)
    # ---- R3
    bound = []
    for bid, b in g.blocks.items():
        c = g.term_cond(bid)
        cs = cmp_sides(c) if c is not None else None
        if cs and is_call(strip(cs[1], casts=True), r"::max_backup_files$") and \
                is_call(strip(cs[2], casts=True), r"std::deque<.*>::size$") and is_this_field(call_obj(strip(cs[2], casts=True)), "_created_files"):
            bound.append((bid, cs[0]))
    pops = [c for c in f.calls(r"std::deque<.*>::pop_back$") if is_this_field(call_obj(c), "_created_files")]
    pp = npos(f, pops)
    over_edges = [(b, "T") for (b, op) in bound]
    ok = bool(rem) and bool(bound) and all(op == "<" for (b, op) in bound) and not g.exists_path([g.entry_node], rem, avoid_edges=over_edges) and \
        bool(pp) and not g.exists_path(rem, [g.exit_node], avoid_nodes=pp) and not g.exists_path([g.entry_node], pp, avoid_nodes=rem)
    ctx.ob("C14.R3a", site + ":remove-only-beyond-limit", ok,
           "a rotated file is deleted only when more files than max_backup_files exist, and the deleted entry is dropped from the list with it", fn=f)
    rc = f.calls(r"::_remove_file$")
    inits = f.var_inits()
    ok = False
    for c in rc:
        src = inits.get(var_ref(c["args"][0]), c["args"][0])
        backs = [x for x in walk(src) if is_call(x, r"std::deque<.*>::back$") and is_this_field(call_obj(x), "_created_files")]
        others = [x for x in walk(src) if is_call(x, r"std::deque<.*>::(front|operator\[\]|at)$")]
        ok = bool(backs) and not others
    ctx.ob("C14.R3b", site + ":removes-oldest", ok,
           "the file deleted is the last list entry — the oldest, since new files are inserted at the front", fn=f)
    # rotation stops: return before anything happened, only when !overwrite and over the limit
    ow = branches_on_call(f, r"::overwrite_rolled_files$")
    early = [r for r in rets if not g.exists_path(flush, [r])]
    stop_ok = False
    if ow and bound:
        b_ow, t_ow, _ = ow[0]
        # the stop-return is reached only through 'not overwriting' and 'over the limit'
        stop = [r for r in early if not g.exists_path([g.entry_node], [r], avoid_edges=[(b_ow, other(t_ow))])]
        stop_ok = bool(stop) and all(not g.exists_path([g.entry_node], [r], avoid_edges=over_edges) for r in stop) and \
            all(not g.exists_path(close + ren + rem, [r]) for r in stop)
    ctx.ob("C14.R3c", site + ":stop-without-deleting", stop_ok,
           "when overwriting is off and the limit is reached the rotation stops before anything is closed, renamed or deleted", fn=f)
    # with overwriting off and over the limit nothing is removed: rem unreachable via (over limit, not overwrite)
    if ow and bound:
        b_ow, t_ow, _ = ow[0]
        ok = not g.exists_path([tnode(g, b_ow)], rem + close, avoid_edges=[(b_ow, t_ow)])
        ctx.ob("C14.R3d", site + ":no-overwrite-no-removal", ok,
               "the 'do not overwrite' outcome never reaches close/rename/remove", fn=f)
    # ---- R4 direction
    loops = [a for c in f.calls(r"::_rename_file$") for a in f.ancestors(c) if a["k"] in ("ForStmt", "CXXForRangeStmt")]
    ok = False
    if loops and front:
        lp = loops[0]
        begin_calls = [short(x["callee"]).split("::")[-1] for x in walk(lp.get("init") or lp.get("range") or {}) if is_call(x) and is_this_field(call_obj(x), "_created_files")]
        end_calls = [short(x["callee"]).split("::")[-1] for x in walk(lp.get("cond") or {}) if is_call(x) and is_this_field(call_obj(x), "_created_files")]
        newest_front = all("front" in short(c["callee"]).split("::")[-1] for c in front)
        reverse = "rbegin" in begin_calls and "rend" in end_calls
        forward = "begin" in begin_calls and "end" in end_calls
        ok = (newest_front and reverse) or (not newest_front and forward)
    ctx.ob("C14.R4", site + ":rename-oldest-first", ok,
           "the rename chain visits the oldest file first (direction opposite to the insertion end), so a name is free before a younger "
           "file is moved onto it", fn=f)


def recover(ctx, facts, f):
    """restart: files are deleted only when asked to and only in write mode; append mode re-registers what it finds"""
    g = f.g
    site = "RotatingSink<%s>::_clean_and_recover_files" % inst(f)
    modep = f.rec["params"][1]["did"]
    rem = cpos(f, r"^std::filesystem::remove$")
    reg = npos(f, [c for c in f.calls(r"std::deque<.*>::(emplace_front|emplace_back|push_front|push_back)") if is_this_field(call_obj(c), "_created_files")])
    rb = branches_on_call(f, r"::remove_old_files$")
    modes = {}
    for bid, b in g.blocks.items():
        c = g.term_cond(bid)
        if c is None:
            continue
        core, neg = core_and_neg(c)
        lits = [x["str"] for x in walk(core) if x["k"] == "StringLiteral"]
        if lits and any(x["k"] == "DeclRefExpr" and x.get("did") == modep for x in walk(core)) and lits[0] in ("w", "a"):
            eq = "==" in (core.get("callee", "") if is_call(core) else core.get("op", ""))
            modes.setdefault(lits[0], []).append((bid, "T" if eq != neg else "F"))
    ok = bool(rem) and bool(rb) and "w" in modes and \
        not g.exists_path([g.entry_node], rem, avoid_edges=[(b, t) for (b, t, c) in rb]) and \
        not g.exists_path([g.entry_node], rem, avoid_edges=modes["w"])
    ctx.ob("C14.R5a", site + ":delete-only-when-asked", ok,
           "old files are deleted at start-up only under remove_old_files() and open mode \"w\"", fn=f)
    ok = bool(reg) and "a" in modes and not g.exists_path([g.entry_node], reg, avoid_edges=modes["a"]) and \
        all(not g.exists_path([tnode(g, b)], rem, avoid_edges=[(b, other(l))]) for (b, l) in modes["a"])
    ctx.ob("C14.R5b", site + ":append-recovers", ok,
           "in append mode existing rotated files are re-registered (so indices continue) and nothing is deleted", fn=f)
    srt = f.calls(r"^std::sort")
    ok = bool(srt) and all(any(p in g.reach(reg) for p in g.positions(c)) for c in srt)
    lam = [x for x in facts.fns if x.config == "A" and x.rec.get("parent") == f.name and any(n["k"] == "MemberExpr" and n.get("mname") == "index" for n in x.walk())]
    asc = False
    for l in lam:
        for r in l.g.return_nodes():
            cs = cmp_sides(l.g.node_ast(r).get("val"))
            if cs and cs[0] == "<":
                a, b = strip(cs[1], casts=True), strip(cs[2], casts=True)
                if isnode(a) and isnode(b) and a.get("mname") == "index" and b.get("mname") == "index" and \
                        var_ref(a.get("base")) == l.rec["params"][0]["did"] and var_ref(b.get("base")) == l.rec["params"][1]["did"]:
                    asc = True
    ctx.ob("C14.R5c", site + ":recovered-newest-first", ok and asc,
           "recovered files are ordered by ascending index (newest first, the order the rename chain relies on)", fn=f)
    # R5e: unrelated files in the directory are neither deleted nor adopted: every removal / registration in the scan is reachable
    # only through 'the entry has the sink's extension' and 'the entry's name starts with <stem>.'
    pref, ext = [], []
    for bid, b in g.blocks.items():
        c = g.term_cond(bid)
        nc = norm_cmp(c) if c is not None else None
        if nc and nc[0] in ("==", "!=") and "0" in (nc[1], nc[2]) and \
                any(is_call(x, r"basic_string<.*>::(find|rfind|compare)$") and any(is_call(y, r"path::stem$") for a in x["args"] for y in walk(a)) for x in walk(c)):
            pref.append((bid, "T" if nc[0] == "==" else "F"))
        cc = strip(c) if c is not None else None
        if isnode(cc) and is_call(cc, r"operator(==|!=)") and sum(1 for x in walk(cc) if is_call(x, r"path::extension$")) >= 2:
            ext.append((bid, "T" if "operator==" in cc["callee"] else "F"))
    acts = sorted(set(rem) | set(reg))
    okp = bool(pref) and bool(acts) and not g.exists_path([g.entry_node], acts, avoid_edges=pref)
    oke = bool(ext) and bool(acts) and not g.exists_path([g.entry_node], acts, avoid_edges=ext)
    ctx.ob("C14.R5e", site + ":unrelated-files-untouched", okp and oke,
           "a directory entry is deleted or adopted into the sequence only when its name starts with '<stem>.' (a position-0 match, "
           "%d test(s): %s) and carries the sink's extension (%d test(s): %s)" % (len(pref), okp, len(ext), oke), fn=f)
    ctor = [x for x in facts.fns if x.config == "A" and x.short == "quill::RotatingSink::RotatingSink" and x.rec.get("inits") and inst(x) == inst(f)]
    if ctor:
        c = ctor[0]
        cg = c.g
        rc = cpos(c, r"::_clean_and_recover_files$")
        op = c.calls(r"::open_file$")
        fr = npos(c, [x for x in c.calls(r"std::deque<.*>::(emplace_front|push_front)") if is_this_field(call_obj(x), "_created_files")])
        ok = bool(rc) and bool(op) and bool(fr) and all(cg.dominates(rc, p) for p in npos(c, op)) and all(cg.dominates(npos(c, op), p) for p in fr) and \
            all(any(is_call(x, r"::open_mode$") for x in walk(o["args"][1])) for o in op)
        sz = npos(c, [n for n in c.walk() if n["k"] == "BinaryOperator" and n["op"] == "=" and is_this_field(n["lhs"], "_file_size") and any(is_call(x, r"::_get_file_size$") for x in walk(n["rhs"]))])
        ctx.ob("C14.R5d", "RotatingSink<%s>::ctor:recover-open-register" % inst(f), ok and bool(sz),
               "start-up recovers the existing files, then opens the base file in the configured mode, registers it as newest and takes "
               "its current size (an appended-to file counts towards the limit)", fn=c)
