#include "quill/Backend.h"
#include "quill/Frontend.h"
#include "quill/LogMacros.h"
#include "quill/Logger.h"
#include "quill/sinks/FileSink.h"
#include "quill/DeferredFormatCodec.h"
#include "quill/std/Map.h"
#include "quill/std/UnorderedMap.h"
#include "quill/bundled/fmt/format.h"
#include <atomic>
#include <thread>
#include <cstdio>
#include <cstdlib>
#include <new>
static thread_local long g_news=0; static thread_local bool g_count=false;
void* operator new(std::size_t n){ if(g_count) ++g_news; void* p=std::malloc(n); if(!p) throw std::bad_alloc(); return p; }
void operator delete(void* p) noexcept { std::free(p); }
void operator delete(void* p, std::size_t) noexcept { std::free(p); }
struct U { int x; };
template <> struct fmtquill::formatter<U> {
  constexpr auto parse(format_parse_context& ctx){ return ctx.begin(); }
  auto format(U const& u, format_context& ctx) const { if(u.x==13) throw 42; return fmtquill::format_to(ctx.out(),"U{}",u.x); }
};
template <> struct quill::Codec<U> : quill::DeferredFormatCodec<U> {};
int main(){
  std::atomic<int> notes{0};
  quill::BackendOptions bo; bo.error_notifier=[&](std::string const& s){ if(notes++<2) fprintf(stderr,"NOTIFY: %s\n",s.c_str()); };
  quill::Backend::start(bo);
  auto s = quill::Frontend::create_or_get_sink<quill::FileSink>("replay_c10_c11.log",[]{quill::FileSinkConfig c; c.set_open_mode('w'); return c;}());
  auto l = quill::Frontend::create_or_get_logger("root", s, quill::PatternFormatterOptions{"%(message)"});
  LOG_INFO(l, "a {}", U{1}); LOG_INFO(l, "b {}", U{13}); LOG_INFO(l, "c {}", U{2});
  std::atomic<bool> done{false};
  std::thread t([&]{ l->flush_log(); done=true; });
  for(int i=0;i<30 && !done;i++) std::this_thread::sleep_for(std::chrono::milliseconds(100));
  printf("C10: flush_log returned within 3s: %d ; notifier calls: %d\n",(int)done.load(),notes.load());
  if(done){ t.join();
    std::map<std::string,int> m{{"a_key_longer_than_sso_buffer_0001",1},{"a_key_longer_than_sso_buffer_0002",2}};
    std::unordered_map<std::string,std::string> u{{"another_long_key_beyond_sso_xxxxx","another_long_value_beyond_sso_xxxx"}};
    LOG_INFO(l, "warm {}", 1);
    g_news=0; g_count=true; LOG_INFO(l, "m {}", m); g_count=false; long n1=g_news;
    g_news=0; g_count=true; LOG_INFO(l, "u {}", u); g_count=false; long n2=g_news;
    printf("C11: operator new calls on caller thread: map=%ld unordered_map=%ld\n",n1,n2);
    l->flush_log(); fflush(stdout); system("cat replay_c10_c11.log");
  }
  fflush(stdout); _exit(0);
}
