// C13: strftime conversions that render the time of day but are not one of the patched modifiers (%H %M %S %I %k %l %s) and are not
// expanded (%r %R %T) or rejected (%X): %c (locale date and time), %EX, %OH / %OM / %OS (alternative digits), %Ec
#include "quill/backend/TimestampFormatter.h"
#include <cstdio>
#include <ctime>
#include <string>
int main() {
  char const* pats[] = {"%c", "%Ec", "%OH:%OM:%OS", "%EX", "%D %T", "%-H:%M:%S", "%_I:%M %p", "%H:%M:%S"};
  int bad = 0;
  for (char const* p : pats) {
    try {
      quill::detail::TimestampFormatter tf{p, quill::Timezone::GmtTime};
      uint64_t t0 = 1700000000ull * 1000000000ull;           // 2023-11-14 22:13:20 UTC
      std::string a{tf.format_timestamp(std::chrono::nanoseconds{t0})};
      std::string b{tf.format_timestamp(std::chrono::nanoseconds{t0 + 3725ull * 1000000000ull})};   // 1 h 2 min 5 s later
      time_t tt = 1700000000 + 3725; tm g; gmtime_r(&tt, &g); char want[128]; strftime(want, sizeof want, p, &g);
      std::printf("%-12s first=[%s] 3725 s later=[%s] strftime=[%s] %s\n", p, a.c_str(), b.c_str(), want, b == want ? "ok" : "STALE");
      bad += b != want;
    } catch (std::exception const& e) { std::printf("%-12s rejected: %s\n", p, e.what()); }
  }
  return bad ? 1 : 0;
}
