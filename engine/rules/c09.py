"""C09 — a blocked log call resumes; no stall on an empty queue (DESIGN §4 C09)."""
from qlib import (peel_not, AnalysisBroken, atomic_op, is_this_field, field_name, strip, norm_cmp, is_call, const_val, is_null,
                  isnode, walk, short, var_ref, is_release)
from rules import c01, c02

EXPLANATION = ("Progress of the producer. R1 (drain => published): whenever the consumer has observed the queue empty at its own "
               "position (_reader_pos == _writer_pos_cache after the acquire reload) the consumed position is published — decided by "
               "three-valued evaluation of the publish guard in commit_read under the 'drained' predicate (any guard that is true "
               "whenever drained, an unconditional publish, or a publish on the empty path of empty()/prepare_read is accepted); "
               "without it the producer computes its free space from a stale position although the queue is empty and a request "
               "larger than capacity - lag is refused for ever (this rule found the pinned tree's defect). R2: the blocking loop "
               "re-invokes the reservation in every iteration and leaves only on a non-null result; a refusal is only issued after "
               "re-loading the published reader position. R3: every read pass that consumed bytes commits them (accumulator-guard "
               "idiom recognised by value flow). R4: 'cannot grow' is reported by nullptr (retryable), an error only for records "
               "larger than the maximum."
               " R1c: 'empty' is reported only right after the consumer's cache was refreshed with an acquire load. R6/R7 (= C20.R5, C05.R2): cache reload, hold-back exemptions. Configuration C (QUILL_X86ARCH) is analysed in both tiers."
               ' R4h: a record not larger than the configured maximum is granted or rejected, never refused for ever: the maximum is validated / normalised to a power of two or the rejection test rounds the record size (violated on the pinned tree for a non-power-of-two maximum: known finding, DESIGN 5.21).'
               ' R8 (= C02.R2): growth publishes the node this call allocated, constructed before the store (an allocation failure is not swallowed into a refusal).')
NOT_DECIDED = ("The finite-poll bound under all histories, fairness of the OS scheduler. For a maximum capacity that is not a power of "
               "two R4h decides the structural part (refusal and rejection tests disagree) and the tree violates it: known finding, DESIGN 5.21.")
ASSUMPTIONS = ["the backend keeps polling (C07/C10 cover its liveness)", "a decoded record has non-zero size (accumulator guard idiom)"]

BQ = "quill::detail::BoundedSPSCQueueImpl<unsigned long>"


class Renamed:
    """forward obligations of a shared rule under this property's id"""

    def __init__(self, ctx, frm, to):
        self._ctx, self._frm, self._to = ctx, frm, to

    def ob(self, rule, *a, **k):
        return self._ctx.ob(rule.replace(self._frm, self._to), *a, **k)

    def floor(self, rule, *a, **k):
        return self._ctx.floor(rule.replace(self._frm, self._to), *a, **k)

    def __getattr__(self, n):
        return getattr(self._ctx, n)


def eq_consumer_fields(cond):
    nc = norm_cmp(cond)
    if not nc or nc[0] not in ("==", "!="):
        return None
    c = strip(cond)
    while isnode(c) and c["k"] == "UnaryOperator":
        c = strip(c["sub"])
    if {field_name(c["lhs"]), field_name(c["rhs"])} == {"_reader_pos", "_writer_pos_cache"} and \
            is_this_field(c["lhs"]) and is_this_field(c["rhs"]):
        return nc[0]
    return None


def run(ctx):
    # QUILL_X86ARCH compiles extra code into the queue's commit functions (cache-line flushes): config C belongs to the quick tier too
    configs = ["A", "C"] if ctx.tier == "quick" else ["A", "B", "C"]
    for cfg in configs:
        facts = ctx.facts("core.cpp", cfg)
        classes = facts.cls_all("quill::detail::BoundedSPSCQueueImpl", cfg)
        ctx.floor("C09", "instantiations of BoundedSPSCQueueImpl", len(classes), 4)
        for crec in classes:
            check_drain_publish(ctx, facts, cfg, crec)
        check_retry_loop(ctx, facts, cfg)
        check_commit_after_pass(ctx, facts, cfg)
        # refusal only after re-loading the reader position (shared with C01.R4e)
        for crec in classes:
            meths = {m.base: m for m in c01.methods_of(facts, crec["name"], cfg)}
            tag = crec["name"].replace("quill::detail::", "")
            fields = {f["name"]: f for f in crec["fields"]}
            c01.check_prepare_write(Renamed(ctx, "C01.R4", "C09.R2-"), tag, meths["prepare_write"], fields["_writer_pos"]["bits"])
        ucls = facts.cls(c02.CLS, cfg)
        if ucls is None:
            raise AnalysisBroken("UnboundedSPSCQueue not found")
        byname = {m.base: m for m in facts.fns if m.config == cfg and m.cls == c02.CLS and not m.rec.get("ctor") and not m.rec.get("dtor")}
        c02.check_r4(Renamed(ctx, "C02.R4", "C09.R4"), byname, strict=True)
        if cfg == "A":
            check_effective_maximum(ctx, facts, cfg, byname)
        # growth succeeds or fails loudly: on the growth path the node that is published is the one this call allocated, constructed
        # before the store (= C02.R2); an allocation failure swallowed into 'return nullptr' would leave the caller polling an empty queue
        c02.check_r2(Renamed(ctx, "C02.R2", "C09.R8"), byname)
        # a producer resumes only if the backend reads its queue at all (registration / cache reload, = C20.R5) and consumes what is
        # at its head (a record that is held back for ever blocks everything behind it: hold-back rules, = C05.R2)
        from rules import c20, c05
        c20.r5(Renamed(ctx, "C20.R5", "C09.R6"), facts, cfg)
        c05.r2(Renamed(ctx, "C05.R2", "C09.R7"), facts, cfg)
        # unbounded commit_read / finish_read delegate to the consumer node's bounded queue
        for mname in ("commit_read", "finish_read"):
            m = byname.get(mname)
            if m is None:
                raise AnalysisBroken("UnboundedSPSCQueue::%s not found" % mname)
            g = m.g
            pos = [p for c in m.calls(r"BoundedSPSCQueueImpl<.*>::%s$" % mname) for p in g.positions(c)]
            ok = bool(pos) and not g.exists_path([g.entry_node], [g.exit_node], avoid_nodes=pos)
            ctx.ob("C09.R3", "UnboundedSPSCQueue::%s:delegates" % mname, ok,
                   "UnboundedSPSCQueue::%s forwards to the current consumer node's bounded queue on every path" % mname, fn=m)


def check_effective_maximum(ctx, facts, cfg, byname):
    """R4h: 'fits' and 'can be granted' are the same thing. Node capacities are powers of two (every growth doubles; BoundedSPSCQueue
    rounds up), the configured maximum is compared with them as it is. The refusal test (`capacity > _max_capacity` -> nullptr: wait or
    drop) and the rejection test (`nbytes > _max_capacity` -> error) agree only if the maximum is a power of two; otherwise a record
    between the largest power of two below the maximum and the maximum is neither granted nor rejected: refused for ever, on an empty
    queue too. Accepted: the constructor validates or normalises the maximum (is_power_of_two / next_power_of_two / a throw that tests
    it), or the rejection test compares a rounded size of the record."""
    m = byname["_handle_full_queue"]
    nbytes = m.rec["params"][0]["did"]
    g = m.g
    rej = []
    for (b2, c2) in g.branch_edges_on(lambda c: c02.cmp_sides(c) is not None):
        op2, l2, r2 = c02.cmp_sides(c2)
        if is_this_field(strip(l2, casts=True), "_max_capacity"):
            uses_n = any(x["k"] == "DeclRefExpr" and x.get("did") == nbytes for x in walk(r2))
            rounded = any(is_call(x, r"(next_power_of_two|bit_ceil)") for x in walk(r2))
            if uses_n:
                rej.append(rounded)
    ctors = [f for f in facts.fns if f.config == cfg and f.cls == c02.CLS and f.rec.get("ctor")]
    validated = False
    for f in ctors:
        pm = [p["did"] for p in (f.rec.get("params") or []) if "max" in (p.get("name") or "")]
        for c in f.calls(r"(is_power_of_two|next_power_of_two|bit_ceil)"):
            if any((x["k"] == "DeclRefExpr" and x.get("did") in pm) or is_this_field(x, "_max_capacity") for x in walk(c)):
                validated = True
        for i in f.rec.get("inits") or []:
            if i.get("member") == "_max_capacity" and isnode(i.get("expr")) and any(is_call(x, r"(next_power_of_two|bit_ceil|max_power_of_two)") for x in walk(i["expr"])):
                validated = True
    if not rej:
        raise AnalysisBroken("_handle_full_queue: no rejection test of the record size against _max_capacity")
    ctx.ob("C09.R4h", "UnboundedSPSCQueue:maximum-that-is-not-a-power-of-two-refuses-fitting-records", validated or all(rej),
           "a record that is not larger than the configured maximum is either granted (once the consumer has caught up) or rejected with the "
           "error: the maximum is validated / normalised to a power of two where the queue is built (%s), or the rejection test rounds the "
           "record's size the way node capacities are rounded (%s)" % (validated, all(rej)), fn=m)


def check_drain_publish(ctx, facts, cfg, crec):
    cname = crec["name"]
    tag = cname.replace("quill::detail::", "")
    meths = {m.base: m for m in c01.methods_of(facts, cname, cfg)}
    for need in ("commit_read", "empty", "prepare_read"):
        if need not in meths:
            raise AnalysisBroken("%s::%s not found" % (cname, need))
    have = {x["name"] for x in crec["fields"]}
    for need in ("_atomic_writer_pos", "_atomic_reader_pos", "_writer_pos", "_reader_pos", "_reader_pos_cache", "_writer_pos_cache"):
        if need not in have:       # the rules below name these members: without them nothing is decided (never a violation)
            raise AnalysisBroken("anchor field %s::%s not found" % (cname, need))

    def publishes(m):
        out = []
        for n in m.walk():
            a = atomic_op(n)
            if a and a["kind"] == "store" and is_this_field(a["obj"], "_atomic_reader_pos") and is_this_field(a["value"], "_reader_pos") \
                    and is_release(a["order"]):
                out.append(n)
        return out

    # (a) commit_read: every path that avoids the publish must take the 'not drained' outcome of a drained-test
    m = meths["commit_read"]
    g = m.g
    pub = [p for n in publishes(m) for p in g.positions(n)]
    avoid_edges = []
    for bid, b in g.blocks.items():
        c = g.term_cond(bid)
        if c is None:
            continue
        op = eq_consumer_fields(c)
        if op is not None:
            avoid_edges.append((bid, "F" if op == "==" else "T"))  # the 'not equal' outcome is infeasible when drained
    a_ok = bool(pub) and not g.exists_path([g.entry_node], [g.exit_node], avoid_nodes=pub, avoid_edges=avoid_edges)
    # (b) publish on the empty path of empty()/prepare_read
    b_ok = False
    for mname in ("empty", "prepare_read"):
        mm = meths[mname]
        gg = mm.g
        pp = [p for n in publishes(mm) for p in gg.positions(n)]
        if not pp:
            continue
        if mname == "empty":
            ends = gg.return_nodes(lambda r: const_val(r.get("val")) == 1)
        else:
            ends = gg.return_nodes(lambda r: is_null(r.get("val")))
        if ends and not gg.exists_path([gg.entry_node], ends, avoid_nodes=pp):
            b_ok = True
    # R1c: 'drained' in commit_read is judged against _writer_pos_cache: that only means something if the cache holds the writer
    # position the consumer last saw — on every path on which the queue is reported empty (empty() true / prepare_read() nullptr) the
    # cache was assigned from an acquire load of _atomic_writer_pos. (The cache then lies between _reader_pos and the true writer
    # position, so 'really drained' implies cache == reader.)
    if a_ok and not b_ok:
        fresh_ok = False
        for mname in ("empty",):
            mm = meths[mname]
            gg = mm.g
            asg = [n for n in mm.walk() if n["k"] == "BinaryOperator" and n["op"] == "=" and is_this_field(n["lhs"], "_writer_pos_cache") and
                   (atomic_op(strip(n["rhs"], casts=True)) or {}).get("kind") == "load" and is_this_field(atomic_op(strip(n["rhs"], casts=True))["obj"], "_atomic_writer_pos")]
            ap = [p for n in asg for p in gg.positions(n)]
            # the exits that can report 'empty': `return true` and `return <comparison>`; a literal `return false` reports 'not empty'
            ends = gg.return_nodes(lambda r: const_val(r.get("val")) != 0)
            fresh_ok = bool(ap) and bool(ends) and not gg.exists_path([gg.entry_node], ends, avoid_nodes=ap)
        ctx.ob("C09.R1c", "%s::empty:writer-cache-refreshed" % tag, fresh_ok,
               "whenever the queue is reported empty, _writer_pos_cache — the value commit_read's 'drained' test compares _reader_pos with — "
               "has just been assigned from an acquire load of _atomic_writer_pos (a cache nobody refreshes makes the drained test dead "
               "and the producer computes its free space from a stale position)", fn=meths["empty"])
    ctx.ob("C09.R1", "%s::commit_read:drain-implies-publish" % tag, a_ok or b_ok,
           "when the consumer has drained the queue (_reader_pos == _writer_pos_cache) its position is published to the producer "
           "[commit_read guard implied by 'drained': %s; publish on the empty path: %s]" % (a_ok, b_ok), fn=m,
           detail={"drained_tests_in_commit_read": len(avoid_edges), "publish_sites": len(pub)})


def check_retry_loop(ctx, facts, cfg):
    fns = facts.need("quill::LoggerImpl::log_statement", cfg, floor=8)
    nblocking = 0
    for f in fns:
        if "Blocking" not in f.name.split("::log_statement")[0]:
            continue
        nblocking += 1
        g = f.g
        inits = f.var_inits()
        # V = the buffer variable
        prep_calls = f.calls(r"::_prepare_write_buffer$")
        vids = set()
        assigns = []  # nodes that (re)define V from _prepare_write_buffer
        for vid, i in inits.items():
            if isnode(i) and any(x in prep_calls for x in walk(i)):
                vids.add(vid)
        for n in f.walk():
            if n["k"] == "BinaryOperator" and n["op"] == "=" and var_ref(n["lhs"]) in vids and any(x in prep_calls for x in walk(n["rhs"])):
                assigns.append(n)
        site = "log_statement<%s>" % f.name.split("LoggerImpl<")[1].split(">")[0]
        if len(vids) != 1:
            raise AnalysisBroken("log_statement: reservation variable not identified")
        vid = list(vids)[0]
        hdr = [p for n in f.calls(r"::_encode_header$") for p in g.positions(n)]
        if not hdr:
            raise AnalysisBroken("log_statement: _encode_header call not found")
        tests = []
        for bid, b in g.blocks.items():
            c = g.term_cond(bid)
            if c is None:
                continue
            nc = norm_cmp(c)
            if nc and nc[0] in ("==", "!="):
                cc = peel_not(c)
                if (var_ref(cc["lhs"]) == vid and is_null(cc["rhs"])) or (var_ref(cc["rhs"]) == vid and is_null(cc["lhs"])):
                    tests.append((bid, "T" if nc[0] == "==" else "F"))  # label of the null outcome
        ok = bool(tests) and bool(assigns)
        apos = [p for n in assigns for p in g.positions(n)]
        if ok:
            for (bid, nul) in tests:
                other = "F" if nul == "T" else "T"
                tn = (bid, len(g.blocks[bid]["el"]))
                # from the null outcome the encode is reached only through a fresh reservation attempt
                if g.exists_path([tn], hdr, avoid_nodes=apos, avoid_edges=[(bid, other)]):
                    ok = False
            # after a retry the encode is reached only through a non-null outcome
            nonnull_edges = [(bid, "F" if nul == "T" else "T") for (bid, nul) in tests]
            if g.exists_path(apos, hdr, avoid_edges=nonnull_edges):
                ok = False
        ctx.ob("C09.R2a", site + ":retry-fresh", ok,
               "blocking log call: after a failed reservation the record is encoded only after a *new* reservation attempt returned non-null "
               "(each iteration calls _prepare_write_buffer again; no stale pointer is re-tested)", fn=f)
    ctx.floor("C09.R2a", "blocking log_statement instantiations", nblocking, 4)


def check_commit_after_pass(ctx, facts, cfg):
    fns = facts.need("quill::detail::BackendWorker::_read_and_decode_frontend_queue", cfg, floor=2)
    for f in fns:
        g = f.g
        site = "_read_and_decode_frontend_queue<%s>" % ("Unbounded" if "Unbounded" in f.name else "Bounded")
        fin = f.calls(r"::finish_read$")
        com = f.calls(r"::commit_read$")
        if not fin:
            raise AnalysisBroken("%s: finish_read call not found" % site)
        fpos = [p for n in fin for p in g.positions(n)]
        cpos = [p for n in com for p in g.positions(n)]
        # accumulator guard: if (acc != 0) where acc += <the value passed to finish_read>
        consumed = var_ref(fin[0]["args"][0])
        accs = {}
        for n in f.walk():
            if n["k"] == "CompoundAssignOperator" and n["op"] == "+=" and var_ref(n["lhs"]) is not None and var_ref(n["rhs"]) == consumed and consumed is not None:
                accs[var_ref(n["lhs"])] = n
        infeasible = []
        for bid, b in g.blocks.items():
            c = g.term_cond(bid)
            if c is None:
                continue
            nc = norm_cmp(c)
            cc = peel_not(c)
            vid = None
            zero_lab = None
            if nc and nc[0] in ("==", "!=") and isnode(cc) and cc["k"] == "BinaryOperator":
                for (x, y) in ((cc["lhs"], cc["rhs"]), (cc["rhs"], cc["lhs"])):
                    if var_ref(x) in accs and const_val(y) == 0:
                        vid = var_ref(x)
                        zero_lab = "T" if nc[0] == "==" else "F"
            elif nc and nc[0] == "<" and isnode(cc) and cc["k"] == "BinaryOperator":
                # 0 < acc   (acc > 0)
                if nc[1] == "0" and any(var_ref(x) in accs for x in (cc["lhs"], cc["rhs"])):
                    vid = [var_ref(x) for x in (cc["lhs"], cc["rhs"]) if var_ref(x) in accs][0]
                    zero_lab = "F"
            if vid is None:
                continue
            # the increment lies on every path finish_read -> this test
            inc_pos = g.positions(accs[vid])
            tn = (bid, len(g.blocks[bid]["el"]))
            if not g.exists_path(fpos, [tn], avoid_nodes=inc_pos):
                infeasible.append((bid, zero_lab))
        ok = bool(cpos) and not g.exists_path(fpos, [g.exit_node], avoid_nodes=cpos, avoid_edges=infeasible)
        ctx.ob("C09.R3", site + ":commit-after-consume", ok,
               "every path on which finish_read consumed bytes reaches commit_read before the pass ends "
               "(accumulator guards recognised: %d)" % len(infeasible), fn=f)
