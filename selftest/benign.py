# Behaviour-preserving edits: every named check must stay silent (exit 0).
B = "core/BoundedSPSCQueue.h"
U = "core/UnboundedSPSCQueue.h"
CASES = [
 dict(name="b-c01-guard-rewritten", ids=["C01", "C09"], subs=[(B, """    if ((_capacity - static_cast<integer_type>(_writer_pos - _reader_pos_cache)) < n)
    {
      // not enough""", """    if (n > (_capacity - static_cast<integer_type>(_writer_pos - _reader_pos_cache)))
    {
      // not enough"""), (B, """      if ((_capacity - static_cast<integer_type>(_writer_pos - _reader_pos_cache)) < n)
      {
        return nullptr;""", """      if (!((_capacity - static_cast<integer_type>(_writer_pos - _reader_pos_cache)) >= n))
      {
        return nullptr;""")]),
 dict(name="b-c01-seq_cst", ids=["C01"], subs=[(B, "_atomic_writer_pos.store(_writer_pos, std::memory_order_release)", "_atomic_writer_pos.store(_writer_pos, std::memory_order_seq_cst)"),
                                                (B, "_writer_pos_cache = _atomic_writer_pos.load(std::memory_order_acquire)", "_writer_pos_cache = _atomic_writer_pos.load()")]),
 dict(name="b-c01-empty-operands-swapped", ids=["C01"], subs=[(B, """    if (_writer_pos_cache == _reader_pos)
    {
      // if we think""", """    if (_reader_pos == _writer_pos_cache)
    {
      // if we think""")]),
 dict(name="b-c01-rename-param", ids=["C01", "C02"], subs=[(B, """  QUILL_NODISCARD QUILL_ATTRIBUTE_HOT std::byte* prepare_write(integer_type n) noexcept
  {
    if ((_capacity - static_cast<integer_type>(_writer_pos - _reader_pos_cache)) < n)
    {
      // not enough space, we need to load reader and re-check
      _reader_pos_cache = _atomic_reader_pos.load(std::memory_order_acquire);

      if ((_capacity - static_cast<integer_type>(_writer_pos - _reader_pos_cache)) < n)""", """  QUILL_NODISCARD QUILL_ATTRIBUTE_HOT std::byte* prepare_write(integer_type nbytes_wanted) noexcept
  {
    if ((_capacity - static_cast<integer_type>(_writer_pos - _reader_pos_cache)) < nbytes_wanted)
    {
      // not enough space, we need to load reader and re-check
      _reader_pos_cache = _atomic_reader_pos.load(std::memory_order_acquire);

      if ((_capacity - static_cast<integer_type>(_writer_pos - _reader_pos_cache)) < nbytes_wanted)""")]),
 dict(name="b-c02-rename-local", ids=["C02"], subs=[(U, """    Node* const next_node = _consumer->next.load(std::memory_order_acquire);

    if (next_node)
    {
      return _read_next_queue(next_node);
    }""", """    Node* const successor = _consumer->next.load(std::memory_order_acquire);

    if (successor != nullptr)
    {
      return _read_next_queue(successor);
    }""")]),
 dict(name="b-c02-extra-stats", ids=["C02", "C01"], subs=[(U, """    // switch to the new buffer, existing one is deleted
    auto const previous_capacity""", """    // switch to the new buffer, existing one is deleted
    auto const unused_hpp = _consumer->bounded_queue.huge_pages_policy(); (void)unused_hpp;
    auto const previous_capacity""")]),
]
