"""C15 — time rotation separates statements at the configured points: ordering / exhaustiveness clauses (DESIGN §4 C15)."""
import re
from qlib import (AnalysisBroken, strip, isnode, walk, is_call, norm_cmp, var_ref, is_null, const_val, short, call_obj,
                  expr_key, field_name, is_this_field)
from rules.common import (core_and_neg, tnode, other, cpos, npos, branches_on_call, in_subtree, need_some, straight_after,
                          loops_enclosing)
from rules.c02 import cmp_sides

EXPLANATION = ("Rotating sink, time side. R1: the time check precedes the write and is consulted exactly when a frequency is "
               "configured; a statement at or after the next rotation point ('next <= timestamp') triggers the rotation before it is "
               "written, a statement before it never does; when time rotation fired, size rotation is skipped. R1c (schedule): after a "
               "time rotation the next point is advanced from the previous *scheduled* point — the argument of the rotation-point "
               "calculator does not depend on the record's timestamp — and the advance repeats until the point lies beyond the "
               "record, so points stay on the configured daily/hourly/minutely schedule and gaps of many periods are skipped (this "
               "rule found the pinned tree's defect: next point = record + period). R1d: a rotated file is named after the moment it "
               "was opened (_open_file_timestamp, which the rotation sets to the triggering statement's timestamp). R2: every "
               "RotationFrequency enumerator except Disabled has an arm in both rotation-point calculators and the fall-through "
               "throws; the configuration setters reject invalid frequencies, a zero interval and malformed daily times by throwing. "
               "R3 (first point): the start instant is broken down and converted back with the calendar functions of the same zone "
               "(gmtime/timegm or localtime/mktime); the minutely/hourly arm advances its unit by plain addition of one — the carry into "
               "the next hour/day is left to the normalising conversion, a wrapped value (x+1) % n without a carry is a point in the "
               "past — and zeroes every smaller unit; the daily arm takes hour and minute from the configuration."
               " R4: the name / suffix / rotation-point helpers remember a result only behind a test that compares every parameter. R5: the date suffix is strftime of the instant in the sink's zone. R6: the HH:MM parser (split at ':', two pieces of two characters, hours then minutes, ranges)."
               " R7 (= C13.R7): the calendar conversions the first rotation point rests on are libc's.")
NOT_DECIDED = ("Where the rotation points fall as calendar values under DST (a daily point moved by +24 h across a DST change), interaction "
               "with the backup limit as behaviour, non-monotonic timestamps. R3 decides how the first point is assembled, not its value.")
ASSUMPTIONS = ["statement timestamps handed to one sink are non-decreasing (C05)"]
RS = "quill::RotatingSink::"
CFG = "quill::RotatingFileSinkConfig"


def inst(f):
    return f.name.split("RotatingSink<")[1].split(">")[0].replace("quill::", "")


def run(ctx):
    facts = ctx.facts("core.cpp", "A")
    for f in facts.need(RS + "write_log", "A", floor=2):
        r1_write(ctx, f)
    for f in facts.need(RS + "_time_rotation", "A", floor=2):
        r1_time(ctx, f)
    for f in facts.need(RS + "_rotate_files", "A", floor=2):
        r1_name(ctx, f, facts)
    r2(ctx, facts)
    for f in facts.need(RS + "_calculate_initial_rotation_tp", "A", floor=2):
        r3_initial(ctx, facts, f)
    r4_no_remembered_state(ctx, facts)
    r5_datetime_suffix(ctx, facts)
    r6_daily_time_parser(ctx, facts)
    # the first rotation point is assembled from broken-down time through detail::timegm / gmtime_rs / localtime_rs: they are libc's
    # conversions (= C13.R7; an in-house calendar computation is answered with 'not decided')
    from rules import c13
    from rules.c09 import Renamed as _Ren7
    c13.r7_time_utilities(_Ren7(ctx, "C13.R7", "C15.R7"), facts)


def freq_tests(f, g):
    """[(bid, enumerator, op)] for comparisons of rotation_frequency() with an enumerator"""
    out = []
    for bid, b in g.blocks.items():
        c = g.term_cond(bid)
        if c is None:
            continue
        nc = norm_cmp(c)
        if nc and nc[0] in ("==", "!=") and any(is_call(x, r"::rotation_frequency$") for x in walk(c)):
            for x in walk(c):
                if x["k"] == "DeclRefExpr" and x.get("dk") == "EnumConstant" and "RotationFrequency" in x["name"]:
                    out.append((bid, x["name"].split("::")[-1], nc[0]))
    return out


def r1_write(ctx, f):
    g = f.g
    site = "RotatingSink<%s>::write_log" % inst(f)
    ts = f.rec["params"][1]["did"]
    tr = f.calls(r"::_time_rotation$")
    trp = npos(f, tr)
    from rules.c14 import size_sites
    sr = size_sites(f)[1]
    writes = npos(f, [c for c in f.calls(r"::write_log$") if c.get("qualified") or "RotatingSink" not in c["callee"]])
    nb = branches_on_call(f, r"::is_null$")
    if not tr or not nb:
        raise AnalysisBroken(site + ": _time_rotation call / is_null test not found")
    bid, tl, _ = nb[0]
    live_w = [p for p in writes if p in g.reach([tnode(g, bid)], avoid_edges=[(bid, tl)])]
    ft = [(b, l) for (b, e, op) in freq_tests(f, g) if e == "Disabled" for l in (["T"] if op == "!=" else ["F"])]
    ok = bool(ft) and not g.exists_path([g.entry_node], trp, avoid_edges=ft) and \
        all(not g.exists_path([tnode(g, b)], live_w, avoid_nodes=trp, avoid_edges=[(b, other(l))]) for (b, l) in ft) and \
        not g.exists_path(live_w, trp)
    # ... and no other decision (e.g. 'the size check already rotated') lets a statement reach the write unchecked: the only way past
    # the time check is the 'frequency disabled' outcome. Otherwise the rotation point stays behind and the *next* statement rotates late.
    by_disabled_only = not g.exists_path([g.entry_node], live_w, avoid_nodes=trp, avoid_edges=[(b, other(l)) for (b, l) in ft])
    ctx.ob("C15.R1a", site + ":time-check-before-write", ok and by_disabled_only,
           "with a rotation frequency configured every statement passes the time check before it is written (and never otherwise); "
           "nothing but 'frequency disabled' bypasses it: %s" % by_disabled_only, fn=f)
    # size rotation skipped when time rotation fired
    holders = set()
    for n in f.walk():
        if n["k"] == "BinaryOperator" and n["op"] == "=" and var_ref(n["lhs"]) is not None and any(in_subtree(c, n["rhs"]) for c in tr):
            holders.add(var_ref(n["lhs"]))
    for vid, i in f.var_inits().items():
        if isnode(i) and any(in_subtree(c, i) for c in tr):
            holders.add(vid)
    edges = []
    for b2, blk in g.blocks.items():
        c = g.term_cond(b2)
        if c is None:
            continue
        core, neg = core_and_neg(c)
        if var_ref(core) in holders or any(core is c_ for c_ in tr):
            edges.append((b2, "F" if neg else "T"))  # label of 'time rotation happened'
    ok = bool(edges) and bool(sr) and all(not g.exists_path([tnode(g, b)], sr, avoid_edges=[(b, other(l))]) for (b, l) in edges) and \
        all(var_ref(c["args"][0]) == ts for c in tr)
    # the holder starts false
    decls = f.var_decls()
    ok = ok and all(const_val(decls.get(h, {}).get("init")) == 0 or any(in_subtree(c, decls.get(h, {}).get("init") or {}) for c in tr) for h in holders)
    ctx.ob("C15.R1b", site + ":size-rotation-skipped-after-time-rotation", ok,
           "when the time rotation fired for this statement the size rotation is not consulted (one rotation per statement)", fn=f)


def r1_time(ctx, f):
    g = f.g
    site = "RotatingSink<%s>::_time_rotation" % inst(f)
    ts = f.rec["params"][0]["did"]
    rot = f.calls(r"::_rotate_files$")
    rp = npos(f, rot)
    test = None
    for bid, b in g.blocks.items():
        c = g.term_cond(bid)
        cs = cmp_sides(c) if c is not None else None
        if cs and is_this_field(strip(cs[1], casts=True), "_next_rotation_time") and var_ref(cs[2]) == ts and not loops_of(f, c):
            test = (bid, cs[0], "T")
        elif cs and is_this_field(strip(cs[2], casts=True), "_next_rotation_time") and var_ref(cs[1]) == ts and not loops_of(f, c):
            # ts < next / ts <= next is the 'not due' relation: due is its complement
            test = (bid, "<=" if cs[0] == "<" else "<", "F")
    if test is None:
        raise AnalysisBroken(site + ": comparison of the statement timestamp with _next_rotation_time not found")
    if not rot:
        ctx.ob("C15.R1c1", site + ":at-or-after-point-rotates", False, "the time check never rotates the files (no _rotate_files call)", fn=f)
        return
    bid, op, due_lab = test
    t = tnode(g, bid)
    trues = g.return_nodes(lambda r: const_val(r.get("val")) == 1)
    falses = g.return_nodes(lambda r: const_val(r.get("val")) == 0)
    due = g.reach([t], avoid_edges=[(bid, other(due_lab))])
    notdue = g.reach([t], avoid_edges=[(bid, due_lab)])
    ok = op == "<=" and all(p in due and p not in notdue for p in rp) and bool(trues) and bool(falses) and \
        all(r in due and r not in notdue for r in trues) and all(r in notdue and r not in due for r in falses) and \
        not g.exists_path([t], trues, avoid_nodes=rp, avoid_edges=[(bid, other(due_lab))]) and all(var_ref(c["args"][0]) == ts for c in rot)
    ctx.ob("C15.R1c1", site + ":at-or-after-point-rotates", ok,
           "a statement whose timestamp is at or after the next rotation point (next <= timestamp; found '%s') rotates before it is written and "
           "reports 'rotated'; an earlier one does neither" % op, fn=f)
    # schedule: next point advanced from the scheduled point, repeated until beyond the record
    calc = f.calls(r"::_calculate_rotation_tp$")
    asg = [n for n in f.walk() if n["k"] == "BinaryOperator" and n["op"] == "=" and is_this_field(n["lhs"], "_next_rotation_time")]
    ap = npos(f, asg)
    ok_after = bool(asg) and not g.exists_path(rp, trues, avoid_nodes=ap) and not g.exists_path([g.entry_node], ap, avoid_edges=[(bid, due_lab)])
    from_sched = bool(calc) and all(not any(x["k"] == "DeclRefExpr" and x.get("did") == ts for x in walk(c["args"][0])) and
                                    (any(is_this_field(x, "_next_rotation_time") for x in walk(c["args"][0])) or
                                     local_from_field(f, c["args"][0], "_next_rotation_time")) for c in calc) and \
        all(any(in_subtree(c, a["rhs"]) for c in calc) or local_from_calc(f, a["rhs"], calc) for a in asg)
    # the advance repeats while the point is not beyond the record: a loop containing the advance whose continue-condition is next <= ts
    loop_ok = False
    for a in asg:
        for lp in loops_of(f, a):
            cs = cmp_sides(lp.get("cond"))
            if cs and cs[0] == "<=" and var_ref(cs[2]) == ts and (is_this_field(strip(cs[1], casts=True), "_next_rotation_time") or
                                                                  local_from_calc(f, cs[1], calc) or var_ref(cs[1]) is not None):
                loop_ok = True
    ctx.ob("C15.R1c2", site + ":next-point-on-schedule", ok_after and from_sched and loop_ok,
           "after rotating, the next rotation point is advanced from the previous scheduled point (not from the statement's timestamp) and "
           "the advance repeats until it lies beyond the statement (assigned on every rotating path: %s, derived from the schedule: %s, "
           "repeats while next <= timestamp: %s)" % (ok_after, from_sched, loop_ok), fn=f)


def loops_of(f, n):
    return [a for a in f.ancestors(n) if a["k"] in ("WhileStmt", "DoStmt", "ForStmt")]


def local_from_field(f, expr, field):
    v = var_ref(expr)
    if v is None:
        return False
    i = f.var_inits().get(v)
    srcs = [i] if isnode(i) else []
    srcs += [a["rhs"] for a in f.assignments_to_var(v)]
    return bool(srcs) and any(any(is_this_field(x, field) for x in walk(s)) for s in srcs)


def local_from_calc(f, expr, calc):
    v = var_ref(expr)
    if v is None:
        return False
    i = f.var_inits().get(v)
    srcs = [i] if isnode(i) else []
    srcs += [a["rhs"] for a in f.assignments_to_var(v)]
    return any(any(in_subtree(c, s) for c in calc) for s in srcs)


def r1_name(ctx, f, facts=None):
    site = "RotatingSink<%s>::_rotate_files" % inst(f)
    from rules.c14 import suffix_sites
    sites = suffix_sites(facts, f) if facts is not None else {}
    ok = len(sites) >= 2 and all(v[1] and v[2] for v in sites.values())
    ctx.ob("C15.R1d", site + ":suffix-from-open-time", ok,
           "the date / date-time suffix of a rotated file is rendered from the moment that file was opened, in the sink's time zone "
           "(%d naming site(s))" % len(sites), fn=f)
    schemes = {(k, v[0]) for k, v in sites.items()}
    ctx.ob("C15.R1e", site + ":scheme-formats", schemes == {("Date", "%Y%m%d"), ("DateAndTime", "%Y%m%d_%H%M%S")},
           "naming scheme Date uses %%Y%%m%%d and DateAndTime %%Y%%m%%d_%%H%%M%%S: %s" % sorted(schemes), fn=f)


def r2(ctx, facts):
    en = facts.enum(CFG + "::RotationFrequency", "A")
    if not en:
        raise AnalysisBroken("RotationFrequency not found")
    active = [n for (n, v) in en["enumerators"] if n != "Disabled"]
    for fname in ("_calculate_initial_rotation_tp", "_calculate_rotation_tp"):
        for f in facts.need(RS + fname, "A", floor=2):
            g = f.g
            tests = [(b, e, op) for (b, e, op) in freq_tests(f, g) if op == "=="]
            covered = sorted(set(e for (b, e, op) in tests))
            throws = g.pos_of(lambda n: isnode(n) and n.get("k") == "CXXThrowExpr")
            # with every comparison false no return may be reached (fall-through must throw)
            rets = g.return_nodes()
            fall = g.exists_path([g.entry_node], rets, avoid_edges=[(b, "T") for (b, e, op) in tests])
            ok = sorted(active) == covered and bool(throws) and not fall
            ctx.ob("C15.R2a", "RotatingSink<%s>::%s:exhaustive" % (inst(f), fname), ok,
                   "every active frequency %s has an arm (found %s) and the fall-through ends in a throw, never in a value" % (sorted(active), covered), fn=f)
    for f in facts.need(RS + "_calculate_rotation_tp", "A", floor=2):
        # each arm adds a positive period to its argument
        rets = [f.g.node_ast(r) for r in f.g.return_nodes()]
        p0 = f.rec["params"][0]["did"]
        ok = bool(rets) and all(isnode(strip(r["val"], casts=True)) and strip(r["val"], casts=True)["k"] == "BinaryOperator" and strip(r["val"], casts=True)["op"] == "+" and
                                var_ref(strip(r["val"], casts=True)["lhs"]) == p0 for r in rets)
        ctx.ob("C15.R2b", "RotatingSink<%s>::_calculate_rotation_tp:adds-period" % inst(f), ok,
               "every arm returns its argument plus the period", fn=f)
        # per frequency: the period is rotation_interval() minutes / hours, or 24 hours, converted to the nanoseconds of the timestamp
        g2 = f.g
        per = {}
        for (b, e, op) in freq_tests(f, g2):
            if op != "==":
                continue
            for p_ in straight_after(g2, b, "T"):
                n = g2.node_ast(p_)
                if isnode(n) and n.get("k") == "ReturnStmt":
                    tys = [x.get("ty", "") for x in walk(n.get("val")) if x["k"] in ("CXXConstructExpr", "CXXFunctionalCastExpr", "CXXTemporaryObjectExpr")]
                    unit = [t for t in tys if t in ("std::chrono::minutes", "std::chrono::hours", "std::chrono::seconds", "std::chrono::milliseconds", "std::chrono::microseconds")]
                    to_ns = "std::chrono::nanoseconds" in tys and any(is_call(x, r"duration<.*>::count$|duration::count$") for x in walk(n.get("val")))
                    amount = "interval" if any(is_call(x, r"::rotation_interval$") for x in walk(n.get("val"))) else \
                        [x["val"] for x in walk(n.get("val")) if x["k"] == "IntegerLiteral"]
                    per[e] = (sorted(set(unit)), amount, to_ns)
        want = {"Minutely": (["std::chrono::minutes"], "interval", True), "Hourly": (["std::chrono::hours"], "interval", True), "Daily": (["std::chrono::hours"], [24], True)}
        ctx.ob("C15.R2b2", "RotatingSink<%s>::_calculate_rotation_tp:period-per-frequency" % inst(f), per == want,
               "Minutely adds rotation_interval() minutes, Hourly rotation_interval() hours, Daily 24 hours, each converted to nanoseconds "
               "(found %s)" % per, fn=f)
    # ctor: initial point computed iff not Disabled
    ctors = [f for f in facts.fns if f.config == "A" and f.short == "quill::RotatingSink::RotatingSink" and f.rec.get("inits")]
    ctx.floor("C15.R2c", "RotatingSink constructors", len(ctors), 2)
    for f in ctors:
        g = f.g
        asg = npos(f, [n for n in f.walk() if n["k"] == "BinaryOperator" and n["op"] == "=" and is_this_field(n["lhs"], "_next_rotation_time") and
                       any(is_call(x, r"::_calculate_initial_rotation_tp$") for x in walk(n["rhs"]))])
        ft = [(b, "T" if op == "!=" else "F") for (b, e, op) in freq_tests(f, g) if e == "Disabled"]
        ok = bool(asg) and bool(ft) and not g.exists_path([g.entry_node], asg, avoid_edges=ft) and \
            all(not g.exists_path([tnode(g, b)], [g.exit_node], avoid_nodes=asg, avoid_edges=[(b, other(l))]) for (b, l) in ft)
        ctx.ob("C15.R2c", "RotatingSink<%s>::ctor:initial-point" % inst(f), ok,
               "the first rotation point is computed at construction exactly when a frequency is configured", fn=f)
    # setters
    s = facts.need(CFG + "::set_rotation_frequency_and_interval", "A")[0]
    g = s.g
    throws = g.pos_of(lambda n: isnode(n) and n.get("k") == "CXXThrowExpr")
    asg = {}
    for n in s.walk():
        if n["k"] == "BinaryOperator" and n["op"] == "=" and is_this_field(n["lhs"], "_rotation_frequency"):
            for x in walk(n["rhs"]):
                if x["k"] == "DeclRefExpr" and x.get("dk") == "EnumConstant":
                    chars = set()
                    for a in s.ancestors(n):
                        if a["k"] == "IfStmt" and in_subtree(n, a["then"]):
                            chars = set(chr(y["val"]) for y in walk(a["cond"]) if y["k"] == "CharacterLiteral")
                            break
                    asg[x["name"].split("::")[-1]] = chars
    zero = []
    for bid, b in g.blocks.items():
        c = g.term_cond(bid)
        nc = norm_cmp(c) if c is not None else None
        if nc and nc[0] == "==" and "0" in (nc[1], nc[2]) and any(var_ref(x) == s.rec["params"][1]["did"] for x in walk(c)):
            zero.append(bid)
    iv = npos(s, [n for n in s.walk() if n["k"] == "BinaryOperator" and n["op"] == "=" and is_this_field(n["lhs"], "_rotation_interval")])
    ok = asg.get("Minutely") == {"M", "m"} and asg.get("Hourly") == {"H", "h"} and len(throws) >= 2 and bool(zero) and \
        any(p in throws for p in straight_after(g, zero[0], "T")) and not g.exists_path([tnode(g, zero[0])], iv, avoid_edges=[(zero[0], "F")])
    ctx.ob("C15.R2d", "RotatingFileSinkConfig::set_rotation_frequency_and_interval", ok,
           "'M'/'m' select Minutely, 'H'/'h' Hourly, anything else and a zero interval are rejected by a throw (%s)" % {k: sorted(v) for k, v in asg.items()}, fn=s)
    p = facts.need(CFG + "::_parse_daily_rotation_time", "A")[0]
    pg = p.g
    throws = pg.pos_of(lambda n: isnode(n) and n.get("k") == "CXXThrowExpr")
    lim = set(x["val"] for x in p.walk() if x["k"] == "IntegerLiteral")
    ok = len(throws) >= 3 and {23, 59} <= lim
    ctx.ob("C15.R2e", "RotatingFileSinkConfig::_parse_daily_rotation_time", ok,
           "a daily time that is not HH:MM, not two digits each, or beyond 23:59 is rejected by a throw (%d rejections)" % len(throws), fn=p)
    d = facts.need(CFG + "::set_rotation_time_daily", "A")[0]
    ok = any(n["k"] == "BinaryOperator" and n["op"] == "=" and is_this_field(n["lhs"], "_rotation_frequency") and
             any(x["k"] == "DeclRefExpr" and x.get("name", "").endswith("::Daily") for x in walk(n["rhs"])) for n in d.walk()) and \
        bool(d.calls(r"::_parse_daily_rotation_time$"))
    ctx.ob("C15.R2f", "RotatingFileSinkConfig::set_rotation_time_daily", ok, "selects Daily and validates the time string", fn=d)


def _tm_field(n):
    n = strip(n, casts=True)
    return n.get("mname") if isnode(n) and n["k"] == "MemberExpr" and str(n.get("mname", "")).startswith("tm_") else None


def r3_initial(ctx, facts, f):
    g = f.g
    site = "RotatingSink<%s>::_calculate_initial_rotation_tp" % inst(f)
    # R3a: break-down and conversion back use the same zone
    zt = []
    for bid, b in g.blocks.items():
        c = g.term_cond(bid)
        nc = norm_cmp(c) if c is not None else None
        if nc and nc[0] in ("==", "!=") and any(is_call(x, r"::timezone$") for x in walk(c)) and \
                any(x["k"] == "DeclRefExpr" and x.get("name", "").endswith("Timezone::GmtTime") for x in walk(c)):
            zt.append((bid, "T" if nc[0] == "==" else "F"))
    if not zt:
        raise AnalysisBroken(site + ": time-zone test not found")
    gm_edges = zt
    lo_edges = [(b, other(l)) for (b, l) in zt]
    def only_under(positions, edges_allowed, edges_forbidden):
        # reachable when the forbidden outcomes are never taken, unreachable when the allowed ones are never taken
        return bool(positions) and all(g.exists_path([g.entry_node], [p], avoid_edges=edges_forbidden) for p in positions) and \
            not g.exists_path([g.entry_node], positions, avoid_edges=edges_allowed)
    pos = lambda pat: cpos(f, pat)
    ok = only_under(pos(r"gmtime_rs$"), gm_edges, lo_edges) and only_under(pos(r"::timegm$"), gm_edges, lo_edges) and \
        only_under(pos(r"localtime_rs$"), lo_edges, gm_edges) and only_under(pos(r"(^|::)mktime$"), lo_edges, gm_edges)
    ctx.ob("C15.R3a", site + ":same-zone-both-ways", ok,
           "the start instant is broken down with gmtime and converted back with timegm exactly under Timezone::GmtTime, with "
           "localtime/mktime otherwise (a mixed pair shifts every point by the zone offset)", fn=f)
    # R3b: per frequency arm
    units = ["tm_sec", "tm_min", "tm_hour"]
    arm = {}
    for (bid, e, op) in freq_tests(f, g):
        if op != "==":
            continue
        arm[e] = [g.node_ast(p) for p in straight_after(g, bid, "T")]
    for e, unit in (("Minutely", "tm_min"), ("Hourly", "tm_hour")):
        if e not in arm:
            raise AnalysisBroken(site + ": no arm for " + e)
        adv, zeroed, why = None, set(), ""
        for n in arm[e]:
            if not isnode(n):
                continue
            if n["k"] == "CompoundAssignOperator" and _tm_field(n["lhs"]) == unit:
                adv = "plain" if n["op"] == "+=" and const_val(n["rhs"]) == 1 else \
                    ("step of %s" % const_val(n["rhs"]) if n["op"] == "+=" and const_val(n["rhs"]) is not None else "other")
            elif n["k"] == "UnaryOperator" and n.get("op") == "++" and _tm_field(n["sub"]) == unit:
                adv = "plain"
            elif n["k"] == "BinaryOperator" and n["op"] == "=" and _tm_field(n["lhs"]):
                fld = _tm_field(n["lhs"])
                r = strip(n["rhs"], casts=True)
                if fld == unit:
                    if isnode(r) and r["k"] == "BinaryOperator" and r["op"] == "+" and \
                            ((_tm_field(r["lhs"]) == unit and const_val(r["rhs"]) == 1) or (_tm_field(r["rhs"]) == unit and const_val(r["lhs"]) == 1)):
                        adv = "plain"
                    elif any(x["k"] == "BinaryOperator" and x["op"] in ("%", "&") for x in walk(r)) or any(x["k"] == "ConditionalOperator" for x in walk(r)):
                        adv = "wrapped"
                    else:
                        adv = "other"
                elif const_val(n["rhs"]) == 0:
                    zeroed.add(fld)
        smaller = set(units[:units.index(unit)])
        if adv == "wrapped":
            carry = any(isnode(n) and _tm_field(n.get("lhs")) in units[units.index(unit) + 1:] + ["tm_mday"] for n in arm[e] if isnode(n) and n["k"] in ("BinaryOperator", "CompoundAssignOperator"))
            if carry:
                raise AnalysisBroken(site + ": %s arm wraps %s with an explicit carry — a shape no accepted idiom covers" % (e, unit))
        if adv == "other":
            raise AnalysisBroken(site + ": %s arm: advance of %s has a shape no accepted idiom covers" % (e, unit))
        ctx.ob("C15.R3b", site + ":%s:advance-with-carry" % e, adv == "plain" and smaller <= zeroed,
               "%s: %s is advanced by exactly one by plain addition (found: %s) so that the normalising conversion carries :59 into the next "
               "hour / 23h into the next day, and the smaller units %s are zeroed (zeroed: %s)" % (e, unit, adv, sorted(smaller), sorted(zeroed)), fn=f)
    if "Daily" not in arm:
        raise AnalysisBroken(site + ": no arm for Daily")
    src = {}
    for n in arm["Daily"]:
        if isnode(n) and n["k"] == "BinaryOperator" and n["op"] == "=" and _tm_field(n["lhs"]):
            fld = _tm_field(n["lhs"])
            if const_val(n["rhs"]) == 0:
                src[fld] = "0"
            else:
                m = [x.get("mname") for x in walk(n["rhs"]) if x["k"] == "MemberExpr" and x.get("mname") in ("first", "second")]
                src[fld] = (m[0] if m and any(is_call(x, r"::daily_rotation_time$") for x in walk(n["rhs"])) else "?")
    ctx.ob("C15.R3c", site + ":Daily:configured-time", src.get("tm_hour") == "first" and src.get("tm_min") == "second" and src.get("tm_sec") == "0",
           "Daily: hour and minute of the first point are the configured daily_rotation_time() (hours first, minutes second), seconds 0 (%s)" % src, fn=f)
    # R3d: a point that is not in the future is moved one day ahead, never returned as is
    rets = [g.node_ast(r) for r in g.return_nodes()]
    inits = f.var_inits()
    cond = [x for x in f.walk() if x["k"] == "ConditionalOperator"]
    ok = False
    for c in cond:
        cs = cmp_sides(c.get("cond"))
        if not cs:
            continue
        # rotation_time > time_now ? rotation_time : rotation_time + 24h
        if cs[0] in ("<", "<=") :
            small, big = cs[1], cs[2]
        else:
            continue
        t_ = strip(c.get("then"), casts=True); e_ = strip(c.get("else"), casts=True)
        if var_ref(big) is not None and var_ref(t_) == var_ref(big) and any(x["k"] == "BinaryOperator" and x["op"] == "+" for x in walk(e_)) and \
                any(var_ref(x) == var_ref(big) for x in walk(e_)) and cs[0] == "<":
            ok = True
    day = False
    for c in cond:
        e_ = c.get("else")
        tys = [x.get("ty", "") for x in walk(e_) if x["k"] in ("CXXConstructExpr", "CXXFunctionalCastExpr", "CXXTemporaryObjectExpr")]
        lits = [x["val"] for x in walk(e_) if x["k"] == "IntegerLiteral"]
        if ("std::chrono::hours" in tys and lits == [24] and "std::chrono::seconds" in tys) or lits in ([86400], [24, 3600], [24, 60, 60]):
            day = True
    ok = ok and day
    ctx.ob("C15.R3d", site + ":past-point-moved-ahead", ok,
           "the computed point is used only when it lies strictly after the start instant, otherwise a day is added (a first point at "
           "or before the start would rotate on the very first statement)", fn=f)


def r4_no_remembered_state(ctx, facts):
    """R4: the helpers that compute file names, date suffixes and rotation points are functions of their arguments. A helper may keep a
    result in a static / thread-local variable only if the test that hands the remembered value back compares every parameter (a
    remembered suffix keyed on the instant but not on the time zone names the next file in the wrong zone)."""
    helpers = ["quill::FileSink::format_datetime_string", "quill::FileSink::append_datetime_to_filename",
               "quill::FileSink::extract_stem_and_extension", RS + "_get_filename", RS + "_append_index_to_filename",
               RS + "_append_string_to_filename", RS + "_calculate_initial_rotation_tp", RS + "_calculate_rotation_tp"]
    n = 0
    for h in helpers:
        fs = facts.fn(h, "A")
        if not fs:
            raise AnalysisBroken("helper %s not found" % h)
        for f in fs:
            n += 1
            g = f.g
            params = {p["did"]: p.get("name") for p in f.rec["params"]}
            state = {}
            for x in f.walk():
                if x["k"] == "DeclStmt":
                    for v in x.get("decls") or []:
                        if (v.get("static") or v.get("tls")) and not (v.get("ty") or "").startswith("const "):
                            state[v["did"]] = v["name"]
            missing = []
            if state:
                compared = set()
                for bid, b in g.blocks.items():
                    c = g.term_cond(bid)
                    if c is None or not any(var_ref(y) in state for y in walk(c)):
                        continue
                    compared |= {var_ref(y) for y in walk(c) if var_ref(y) in params}
                missing = [nm for did, nm in params.items() if did not in compared]
            ctx.ob("C15.R4", "%s:function-of-its-arguments" % f.name.replace("quill::", ""), not missing,
                   "no result is remembered across calls%s" % ("" if not state else
                   " except in %s, and the test on it compares every parameter (not compared: %s)" % (sorted(state.values()), missing)), fn=f)
    ctx.floor("C15.R4", "name / rotation-point helpers", n, 8)


def r5_datetime_suffix(ctx, facts):
    """R5: the date / date-time suffix of a rotated file is strftime of the instant handed in, in the zone handed in:
    format_datetime_string converts timestamp_ns / 1e9 with gmtime_rs exactly on 'time_zone is GmtTime' and with localtime_rs otherwise
    (every Timezone enumerator is covered), into the tm that strftime then reads, with the caller's pattern; the returned string is
    built from the buffer strftime wrote. Callers in RotatingSink pass the sink's configured zone."""
    f = facts.need("quill::FileSink::format_datetime_string", "A")[0]
    g = f.g
    ts, tz, pat = [p["did"] for p in f.rec["params"][:3]]
    inits = f.var_inits()
    secs = [v for v, i in inits.items() if isnode(i) and any(x["k"] == "BinaryOperator" and x["op"] == "/" and var_ref(strip(x["lhs"], casts=True)) == ts and
                                                              const_val(x["rhs"]) == 1000000000 for x in walk(i))]
    gm = f.calls(r"detail::gmtime_rs$")
    lo = f.calls(r"detail::localtime_rs$")
    sf = f.calls(r"^(std::)?strftime$")

    def addr(e):
        e = strip(e, casts=True)
        return var_ref(strip(e["sub"], casts=True)) if isnode(e) and e["k"] == "UnaryOperator" and e.get("op") == "&" else None
    tms = {addr(c["args"][1]) for c in gm + lo}
    same = bool(secs) and bool(gm) and bool(lo) and bool(sf) and len(tms) == 1 and None not in tms and \
        all(addr(c["args"][0]) in secs for c in gm + lo) and all(addr(c["args"][3]) in tms for c in sf)
    zone = []
    for bid, b in g.blocks.items():
        c = g.term_cond(bid)
        nc = norm_cmp(c) if c is not None else None
        if nc and nc[0] in ("==", "!=") and any(var_ref(x) == tz for x in walk(c)):
            en = [x["name"].split("::")[-1] for x in walk(c) if x["k"] == "DeclRefExpr" and x.get("dk") == "EnumConstant"]
            if en == ["GmtTime"]:
                zone.append((bid, "T" if nc[0] == "==" else "F"))        # label of 'GmtTime'
            elif en == ["LocalTime"]:
                zone.append((bid, "F" if nc[0] == "==" else "T"))
    gp, lp, sp = npos(f, gm), npos(f, lo), npos(f, sf)
    en = facts.enum("quill::Timezone", "A")
    two = bool(en) and sorted(n for (n, v) in en["enumerators"]) == ["GmtTime", "LocalTime"]
    by_zone = bool(zone) and bool(gp) and bool(lp) and two and \
        not g.exists_path([g.entry_node], gp, avoid_edges=zone) and \
        not g.exists_path([g.entry_node], lp, avoid_edges=[(b, other(l)) for (b, l) in zone]) and \
        not g.exists_path([g.entry_node], sp, avoid_nodes=gp + lp)
    patt = bool(sf) and all(any(var_ref(x) == pat for x in walk(c["args"][2])) for c in sf)
    bufs = {var_ref(strip(c["args"][0], casts=True)) for c in sf}
    rets = [g.node_ast(r) for r in g.return_nodes()]
    # (a return that hands back a value remembered in a static / thread-local variable is R4's business: keyed on every parameter)
    memo = {v["did"] for x in f.walk() if x["k"] == "DeclStmt" for v in x.get("decls") or [] if v.get("static") or v.get("tls")}
    fresh = [(p, g.node_ast(p)) for p in g.return_nodes() if not any(var_ref(x) in memo for x in walk(g.node_ast(p).get("val")))]
    from_buf = bool(fresh) and len(bufs) == 1 and None not in bufs and all(any(var_ref(x) in bufs for x in walk(r.get("val"))) for (p, r) in fresh) and \
        all(g.dominates(sp, p) for (p, r) in fresh)
    ctx.ob("C15.R5a", "FileSink::format_datetime_string:zone-and-instant", same and by_zone,
           "seconds = timestamp_ns / 1e9 are converted into one tm by gmtime_rs exactly on the GmtTime outcome and by localtime_rs on the "
           "other (Timezone has exactly these two enumerators: %s), before strftime reads that tm (same operands: %s, by zone: %s)" % (two, same, by_zone), fn=f)
    ctx.ob("C15.R5b", "FileSink::format_datetime_string:pattern-and-result", patt and from_buf,
           "strftime is given the caller's pattern and the returned string is built from the buffer it wrote (%s, %s)" % (patt, from_buf), fn=f)
    n = 0
    # every member function of the rotating sink that renders a suffix (the naming code may live in a helper of _rotate_files)
    for r in [x for x in facts.fns if x.config == "A" and (x.cls or "").startswith("quill::RotatingSink<") and not x.rec.get("parent")]:
        for c in r.calls(r"FileSink::format_datetime_string$"):
            n += 1
            ok = is_call(strip(c["args"][1], casts=True), r"FileSinkConfig::timezone$")
            ctx.ob("C15.R5c", "%s:suffix-in-the-sink's-zone" % r.name.replace("quill::", ""), ok,
                   "the suffix is formatted in the sink's configured time zone (_config.timezone())", fn=r, loc=c.get("loc", ""))
    ctx.floor("C15.R5c", "format_datetime_string call sites in RotatingSink", n, 6)


def _rel(cond_leaf):
    """(op, lhs, rhs) for a built-in or overloaded relational / equality test (negations folded in); None otherwise"""
    from qlib import CMP_NEG
    c, neg = core_and_neg(cond_leaf)
    c = strip(c, casts=True)
    op, l, r = None, None, None
    if isnode(c) and c["k"] == "BinaryOperator" and c["op"] in ("<", "<=", ">", ">=", "==", "!="):
        op, l, r = c["op"], c["lhs"], c["rhs"]
    elif isnode(c) and c["k"] == "CXXOperatorCallExpr" and len(c.get("args") or []) == 2:
        m = re.search(r"::operator(<=|>=|==|!=|<|>)(?:<.*>)?$", c.get("callee") or "")   # (short() cannot be used on operator< / operator>)
        if m:
            op, l, r = m.group(1), c["args"][0], c["args"][1]
    if op is None:
        return None
    if neg:
        op = CMP_NEG[op]
    return op, l, r


def r6_daily_time_parser(ctx, facts):
    """R6: 'HH:MM' is read as hours HH and minutes MM. The text is split at every ':' (search from 0, resume one past the separator, the
    remainder is the last piece), anything but two pieces of two characters each is refused, the pair returned is
    (hours{stoi(piece 0)}, minutes{stoi(piece 1)}) and a value above 23 hours or 59 minutes is refused. A parser of another shape is
    not decided (analysis broken)."""
    f = facts.need("quill::RotatingFileSinkConfig::_parse_daily_rotation_time", "A")[0]
    g = f.g
    text = f.rec["params"][0]["did"]
    site = "RotatingFileSinkConfig::_parse_daily_rotation_time"
    finds = [c for c in f.calls(r"basic_string<.*>::find$") if var_ref(call_obj(c)) == text and const_val(c["args"][0]) == 58]
    loops = [n for n in f.walk() if n["k"] in ("WhileStmt", "ForStmt") and any(in_subtree(c, n.get("cond")) for c in finds)]
    for_form = False
    if not loops:
        # the same loop as a for statement: `for (end = s.find(':', start); end != npos; end = s.find(':', start))` — the search in the
        # initialiser and, identically, in the increment; the condition tests the variable they assign
        cand = [n for n in f.walk() if n["k"] == "ForStmt" and isnode(n.get("init")) and isnode(n.get("inc")) and
                any(in_subtree(c, n["init"]) for c in finds) and any(in_subtree(c, n["inc"]) for c in finds)]
        if len(cand) == 1 and len(finds) == 2 and expr_key(strip(cand[0]["init"])) == expr_key(strip(cand[0]["inc"])):
            loops, for_form = cand, True
    if not finds or len(loops) != 1:
        raise AnalysisBroken(site + ": no 'find(':', start)' split loop — a parser of this shape is not decided")
    lp = loops[0]
    decls = f.var_decls()
    startv = var_ref(strip(finds[0]["args"][1], casts=True)) if len(finds[0]["args"]) > 1 else None
    endv = None
    for x in (list(walk(lp["init"])) + list(walk(lp["inc"])) if for_form else walk(lp["cond"])):
        if x["k"] == "BinaryOperator" and x["op"] == "=" and any(any(y is fc for fc in finds) for y in walk(x["rhs"])):
            endv = var_ref(x["lhs"])
    if for_form and not any(x["k"] == "DeclRefExpr" and x.get("did") == endv for x in walk(lp.get("cond") or {})):
        raise AnalysisBroken(site + ": the for-form of the split loop does not test the variable the searches assign")
    ck = _rel(lp["cond"])
    cont_while_found = ck is not None and ck[0] == "!=" and any(y["k"] == "DeclRefExpr" and y.get("name", "").endswith("npos") for y in walk(lp["cond"]))
    start0 = startv is not None and const_val((decls.get(startv) or {}).get("init")) == 0
    resume = [x for x in walk(lp.get("body")) if x["k"] == "BinaryOperator" and x["op"] == "=" and var_ref(x["lhs"]) == startv]
    resume_ok = len(resume) == 1 and isnode(strip(resume[0]["rhs"], casts=True)) and strip(resume[0]["rhs"], casts=True)["k"] == "BinaryOperator" and \
        strip(resume[0]["rhs"], casts=True)["op"] == "+" and var_ref(strip(strip(resume[0]["rhs"], casts=True)["lhs"], casts=True)) == endv and \
        const_val(strip(resume[0]["rhs"], casts=True)["rhs"]) == 1
    subs = [c for c in f.calls(r"basic_string<.*>::substr$") if var_ref(call_obj(c)) == text]
    in_loop = [c for c in subs if in_subtree(c, lp.get("body"))]
    after = [c for c in subs if not in_subtree(c, lp)]

    def real_args(c):
        return [a for a in c["args"] if not (isnode(a) and a["k"] == "CXXDefaultArgExpr")]
    piece_ok = len(in_loop) == 1 and len(real_args(in_loop[0])) == 2 and var_ref(strip(real_args(in_loop[0])[0], casts=True)) == startv and \
        isnode(strip(real_args(in_loop[0])[1], casts=True)) and strip(real_args(in_loop[0])[1], casts=True).get("op") == "-" and \
        var_ref(strip(strip(real_args(in_loop[0])[1], casts=True)["lhs"], casts=True)) == endv and var_ref(strip(strip(real_args(in_loop[0])[1], casts=True)["rhs"], casts=True)) == startv
    last_ok = len(after) == 1 and len(real_args(after[0])) == 1 and var_ref(strip(real_args(after[0])[0], casts=True)) == startv
    pushes = [c for c in f.calls(r"std::vector<std::basic_string.*>::(push_back|emplace_back)$")]
    push_in = [c for c in pushes if in_subtree(c, lp.get("body"))]
    push_after = [c for c in pushes if not in_subtree(c, lp)]
    pushed = len(push_in) == 1 and len(push_after) == 1 and not g.exists_path(g.positions(after[0]) if after else [g.entry_node], [g.exit_node], avoid_nodes=npos(f, push_after) + npos(f, [x for x in f.walk() if x["k"] == "CXXThrowExpr"]))
    ctx.ob("C15.R6a", site + ":split-at-every-colon", cont_while_found and start0 and resume_ok and piece_ok and last_ok and pushed,
           "the search starts at 0 (%s), continues while a ':' was found (%s), resumes one past it (%s); each piece is substr(start, end - "
           "start) (%s), the remainder substr(start) (%s), and both are appended to the piece list (%s)"
           % (start0, cont_while_found, resume_ok, piece_ok, last_ok, pushed), fn=f)
    # refusals: size tests against 2
    thr = npos(f, [x for x in f.walk() if x["k"] == "CXXThrowExpr"])
    two = []
    for bid, b in g.blocks.items():
        c = g.term_cond(bid)
        rk = _rel(c) if c is not None else None
        if rk and rk[0] in ("==", "!=") and any(is_call(y, r"::(size|length)$") for y in walk(c)) and 2 in (const_val(rk[1]), const_val(rk[2])):
            lab = "T" if rk[0] == "!=" else "F"
            kind_ = "pieces" if any(is_call(y, r"std::vector<.*>::size$") for y in walk(c)) else "characters"
            leads = not g.exists_path([y for (y, l2) in g.succ.get(tnode(g, bid), ()) if l2 == lab], [g.exit_node], avoid_nodes=thr)
            two.append((kind_, leads))
    ok_b = sorted(k for (k, l_) in two) == ["characters", "pieces"] and all(l_ for (k, l_) in two)
    ctx.ob("C15.R6b", site + ":two-pieces-of-two-characters", ok_b,
           "anything but exactly two pieces, or a piece that is not exactly two characters long, ends in a throw (%s)" % two, fn=f)
    # the pair
    mk = [c for c in f.calls(r"^std::make_pair")]
    ok_c = False
    if len(mk) == 1 and len(mk[0]["args"]) == 2:
        def part(a, unit, idx):
            st = [x for x in walk(a) if is_call(x, r"^std::stoi$")]
            ix = [const_val(y["args"][1]) for x in st for y in walk(x) if y["k"] == "CXXOperatorCallExpr" and short(y.get("callee") or "").endswith("operator[]")] + \
                [const_val(y["args"][0]) for x in st for y in walk(x) if is_call(y, r"std::vector<.*>::at$")]
            a_ = strip(a, casts=True)
            return len(st) == 1 and ix == [idx] and unit in (a_.get("ty") or "")
        ok_c = part(mk[0]["args"][0], "hours", 0) and part(mk[0]["args"][1], "minutes", 1)
    rets = [g.node_ast(q) for q in g.return_nodes()]
    inits = f.var_inits()
    res_ok = bool(rets) and bool(mk) and all(any(y is mk[0] for y in walk(inits.get(var_ref(strip(r.get("val"), casts=True))) or r.get("val"))) for r in rets)
    ctx.ob("C15.R6c", site + ":hours-then-minutes", ok_c and res_ok,
           "the pair returned is (hours{stoi(piece 0)}, minutes{stoi(piece 1)}) (%s, returned: %s)" % (ok_c, res_ok), fn=f)
    # range
    lim = {}
    for bid, b in g.blocks.items():
        c = g.term_cond(bid)
        rk = _rel(c) if c is not None else None
        if not rk or rk[0] not in ("<", "<=", ">", ">="):
            continue
        mem = [y.get("mname") for y in walk(rk[1]) if y["k"] == "MemberExpr" and y.get("mname") in ("first", "second")]
        cv = [const_val(y) for y in walk(rk[2]) if const_val(y) is not None]
        if len(mem) == 1 and cv and rk[0] in (">", ">="):
            bound = cv[0] + (1 if rk[0] == ">" else 0)          # smallest refused value
            leads = not g.exists_path([y for (y, l2) in g.succ.get(tnode(g, bid), ()) if l2 == "T"], [g.exit_node], avoid_nodes=thr)
            lim[mem[0]] = (bound, leads)
    ok_d = lim.get("first") == (24, True) and lim.get("second") == (60, True)
    ctx.ob("C15.R6d", site + ":range", ok_d,
           "an hour value of 24 or more and a minute value of 60 or more end in a throw; 23 and 59 are accepted (smallest refused: %s)" % lim, fn=f)
