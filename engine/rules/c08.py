"""C08 — dropping queue: delivered intact or reported dropped, never both (DESIGN §4 C08)."""
from qlib import (AnalysisBroken, strip, isnode, walk, is_call, norm_cmp, var_ref, is_null, const_val, short, call_obj,
                  expr_key, field_name, is_this_field, atomic_op)
from rules.common import (core_and_neg, tnode, other, cpos, npos, branches_on_call, in_subtree, need_some, returns_bool,
                          loops_enclosing)
from rules import c06

EXPLANATION = ("Drop accounting. R1 (commit <=> true): in every log_statement instantiation each path returning true contains exactly one "
               "finish_and_commit_write, each path returning false contains none and writes nothing through the reserved pointer; false "
               "is returned only by the dropping queue types. R2: on the dropping arm the failure counter is incremented exactly once "
               "iff the event is an ordinary Log, and never on a path that delivers. R3: the non-zero result of "
               "get_and_reset_failure_counter is the result of an atomic read-modify-write (no load followed by a store that would "
               "lose concurrent increments). R4: the number formatted into the notifier message is that result; the report runs on the "
               "idle path of the poll and in the exit drain, for every bounded-queue context. R5: control requests are retried until "
               "accepted (shared with C06.R1)."
               " R6-R11 (= C03.R7, C02.R6, C04.R4, C17.R3, C10.R8, C03.R5): queue-kind tables, what 'empty' means, bytes reserved = bytes committed, accepted removals carried out, the drop report cannot end the process, a context is removed only when queue and buffer are empty."
               " R2 is decided per enumerator of MacroMetadata::Event under the assumption 'event() yields it': both statement kinds (Log, LogWithRuntimeMetadata) are counted on every dropped path, control events never; an unknown enumerator is analysis-broken. R12 (= C20.R5): a context leaves the backend's view only through the clean-up that reports its count. R13 (= C04.R2): the size cache is emptied at the start of every size pass, also after a refused statement.")
NOT_DECIDED = ("delivered + discarded = attempted under every schedule as a count (behavioural; follows from R1 with C01/C03 as "
               "behaviour); the unbounded dropping queue reports no counts by design.")
ASSUMPTIONS = ["C01-C03 for 'delivered intact and in order'"]
BW = "quill::detail::BackendWorker::"


# MacroMetadata::Event: which kinds carry a user's statement (made by the LOG_ macros; the backend writes them to the sinks) and which are
# control events made by the library itself (they have no text, nothing of the user's is lost when one is refused)
STATEMENT_KINDS = ("Log", "LogWithRuntimeMetadata")
CONTROL_KINDS = ("InitBacktrace", "FlushBacktrace", "Flush", "LoggerRemovalRequest")


def run(ctx):
    configs = ["A"] if ctx.tier == "quick" else ["A", "B"]
    for cfg in configs:
        facts = ctx.facts("core.cpp", cfg)
        r1_r2(ctx, facts, cfg)
        r3(ctx, facts, cfg)
        r4(ctx, facts, cfg)
        c06.r1(ctx, facts, cfg, "C08.R5")
        # which queue kinds are 'bounded' / 'dropping' for the backend's report (exhaustive over QueueType; shared with C03)
        from rules import c03
        from rules.c09 import Renamed
        c03.queue_kind_tables(Renamed(ctx, "C03.R7", "C08.R6"), facts, cfg)
        # 'true exactly when it will be delivered': what the backend calls an empty queue before it exits / reclaims (= C02.R6); the
        # bytes reserved are the bytes committed (= C04.R4); a logger removal request that was accepted is carried out (= C17.R3)
        from rules import c02, c04, c17
        bn = {m.base: m for m in facts.fns if m.config == cfg and m.cls == c02.CLS and not m.rec.get("ctor") and not m.rec.get("dtor")}
        c02.check_empty_semantics(ctx, bn, rule="C08.R7")
        if cfg == "A":
            c04.reserve_commit(Renamed(ctx, "C04.R4", "C08.R8"), facts)
        c17.r3(Renamed(ctx, "C17.R3", "C08.R9"), facts, cfg)
        # the drop report is made from a noexcept function: the notifier must be callable when it is called (= C10.R8)
        from rules import c10
        c10.r8_notifier_callable(Renamed(ctx, "C10.R8", "C08.R10"), facts, cfg)
        # a context leaves the backend's view only through the clean-up that reports its drop count first: the cache reload neither skips
        # nor removes contexts on its own (= C20.R5)
        from rules import c20
        c20.r5(Renamed(ctx, "C20.R5", "C08.R12"), facts, cfg)
        if cfg == "A":
            # 'delivered intact' after a drop: the per-thread size cache is emptied at the start of every size pass, so the lengths cached
            # for a statement that was then refused are not used to encode the next one (= C04.R2)
            c04.cache_rules(Renamed(ctx, "C04.R2", "C08.R13"), ctx.facts("effects.cpp", "A", ()))
        # statements a dropping queue has accepted are delivered even when their thread has exited: the context is removed only when
        # its queue and its transit buffer are both empty, whatever the queue type (= C03.R5)
        from rules import c03
        c03.r5(Renamed(ctx, "C03.R5", "C08.R11"), facts, cfg)


def r1_r2(ctx, facts, cfg):
    fns = facts.need("quill::LoggerImpl::log_statement", cfg, floor=8)
    ndrop = 0
    for f in fns:
        g = f.g
        opts = f.name.split("LoggerImpl<")[1].split(">")[0]
        dropping = "Dropping" in opts
        site = "log_statement<%s|%s>" % (opts, ",".join(f.rec.get("targs", [])[:2]))
        trues, falses = returns_bool(f, True), returns_bool(f, False)
        allr = g.return_nodes()
        if len(trues) + len(falses) != len(allr) or not trues:
            raise AnalysisBroken("%s: literal true/false returns expected" % site)
        commits = cpos(f, r"::finish_and_commit_write$")
        cnt = g.count_on_paths([g.entry_node], trues + falses, commits)
        ok = all(cnt[t] == (1, 1) for t in trues) and all(cnt[x] == (0, 0) for x in falses)
        ctx.ob("C08.R1a", site + ":commit-iff-true", ok,
               "exactly one commit on every path returning true %s and none on paths returning false %s" %
               (sorted(set(cnt[t] for t in trues)), sorted(set(cnt[x] for x in falses))), fn=f)
        ctx.ob("C08.R1b", site + ":false-only-when-dropping", dropping or not falses,
               "a %s queue never reports 'dropped' (false returns: %d)" % ("dropping" if dropping else "blocking", len(falses)), fn=f)
        if not dropping:
            continue
        ndrop += 1
        if not falses:
            ctx.ob("C08.R1c", site + ":drop-reported", False, "a dropping queue that cannot reserve must return false", fn=f)
            continue
        # nothing is written on a path that returns false
        writes = []
        for n in f.calls():
            cs = short(n.get("callee") or "")
            if cs.endswith("::_encode_header") or cs == "quill::detail::encode" or cs in ("memcpy", "std::memcpy"):
                writes.extend(g.positions(n))
        back = set()
        for x in falses:
            pass
        reach_false = [w for w in writes if g.exists_path([w], falses)]
        ctx.ob("C08.R1c", site + ":no-write-when-dropped", not reach_false,
               "no path that encodes into the queue buffer ends in 'return false' (a dropped statement leaves no partial record)", fn=f)
        # false is returned only on the null outcome of the reservation
        inits = f.var_inits()
        prep = f.calls(r"::_prepare_write_buffer$")
        vids = [vid for vid, i in inits.items() if isnode(i) and any(in_subtree(p, i) for p in prep)]
        from rules.common import branches_on_var_null
        nul = branches_on_var_null(f, vids[0]) if vids else []
        ok = bool(nul) and not g.exists_path([g.entry_node], falses, avoid_edges=nul) and \
            not any(g.exists_path([tnode(g, b)], trues, avoid_edges=[(b, other(l))]) for (b, l) in nul)
        ctx.ob("C08.R1d", site + ":false-iff-reservation-failed", ok,
               "false is returned exactly on the 'reservation failed' outcome: that outcome never reaches 'return true', and no other path "
               "returns false", fn=f)
        # R2 counter
        inc = cpos(f, r"::increment_failure_counter$")
        cnt_i = g.count_on_paths([g.entry_node], trues + falses, inc)
        ok_true = all(cnt_i[t] == (0, 0) for t in trues)
        # which kinds of event count: decided per enumerator of MacroMetadata::Event by reachability under the assumption 'event() yields
        # that enumerator' (comparisons, || chains and switches alike). A kind that carries a user's statement must be counted on every
        # dropped path; a control event (backtrace set-up / flush requests / logger removal) never.
        from rules.common import inconsistent_edges
        en_ = facts.enum("quill::MacroMetadata::Event", cfg)
        if not en_:
            raise AnalysisBroken("MacroMetadata::Event not found")
        names = [n for (n, _v) in en_["enumerators"]]
        unknown = sorted(set(names) - set(STATEMENT_KINDS) - set(CONTROL_KINDS))
        if unknown:
            raise AnalysisBroken("MacroMetadata::Event has enumerators the drop-count table does not know: %s — statement or control event?" % unknown)
        after_null = [y for (b, l) in nul for (y, l2) in g.succ.get(tnode(g, b), ()) if l2 == l]
        ok_log = bool(inc) and bool(after_null)
        verdict = {}
        for e in names:
            avoid = inconsistent_edges(g, r"MacroMetadata::event$", names, e)
            counted = g.exists_path(after_null, inc, avoid_edges=avoid) or any(p in after_null for p in inc)
            uncounted_drop = g.exists_path(after_null, falses, avoid_nodes=inc, avoid_edges=avoid)
            verdict[e] = "counted" if (counted and not uncounted_drop) else ("never" if not counted else "sometimes")
            if e in STATEMENT_KINDS and verdict[e] != "counted":
                ok_log = False
            if e in CONTROL_KINDS and verdict[e] != "never":
                ok_log = False
        logbr = verdict
        mx = max((cnt_i[x][1] or 0) for x in falses)
        ctx.ob("C08.R2", site + ":count-iff-dropped-log", ok_true and ok_log and mx <= 1,
               "the failure counter is incremented once for a dropped statement of either statement kind (Log, LogWithRuntimeMetadata), not "
               "for control events, never on a path that delivers (true paths: %s, max per dropped path: %d, per event kind: %s)" %
               (sorted(set(cnt_i[t] for t in trues)), mx, logbr), fn=f)
    ctx.floor("C08.R1", "dropping log_statement instantiations", ndrop, 8)


def r3(ctx, facts, cfg):
    f = facts.need("quill::detail::ThreadContext::get_and_reset_failure_counter", cfg)[0]
    g = f.g
    rets = g.return_nodes()
    ok = bool(rets)
    nonzero = 0
    for r in rets:
        v = g.node_ast(r).get("val")
        if const_val(v) == 0:
            continue
        nonzero += 1
        a = atomic_op(strip(v, casts=True))
        if not (a and a["kind"] == "rmw" and is_this_field(a["obj"], "_failure_counter") and a["op"] in ("exchange", "fetch_sub", "fetch_and")):
            ok = False
    # the reset value is zero; the early 'nothing to report' return is taken exactly when a load of the counter is zero
    for r in rets:
        v = g.node_ast(r).get("val")
        a = atomic_op(strip(v, casts=True)) if const_val(v) != 0 else None
        if a and a.get("op") == "exchange" and const_val(a.get("value")) != 0:
            ok = False
    zero_rets = [r for r in rets if const_val(g.node_ast(r).get("val")) == 0]
    zt = []
    for bid, b in g.blocks.items():
        c = g.term_cond(bid)
        nc = norm_cmp(c) if c is not None else None
        if nc and nc[0] in ("==", "!=") and "0" in (nc[1], nc[2]) and any((atomic_op(x) or {}).get("kind") == "load" and is_this_field(atomic_op(x)["obj"], "_failure_counter") for x in walk(c)):
            zt.append((bid, "T" if nc[0] == "==" else "F"))
    if zero_rets:
        ok = ok and bool(zt) and not g.exists_path([g.entry_node], zero_rets, avoid_edges=zt) and \
            all(not g.exists_path([tnode(g, b)], [r for r in rets if r not in zero_rets], avoid_edges=[(b, other(l))]) for (b, l) in zt)
    stores = [n for n in f.walk() if (atomic_op(n) or {}).get("kind") == "store" and is_this_field(atomic_op(n)["obj"], "_failure_counter")]
    ctx.ob("C08.R3", "ThreadContext::get_and_reset_failure_counter:atomic-rmw", ok and nonzero >= 1 and not stores,
           "the reported count is the value returned by an atomic exchange/fetch_sub that also resets it to zero (no separate store: %d); "
           "'nothing to report' is returned exactly when a load of the counter is zero" % len(stores), fn=f)
    inc = facts.need("quill::detail::ThreadContext::increment_failure_counter", cfg)[0]
    ops = [atomic_op(n) for n in inc.walk() if atomic_op(n)]
    ok = len(ops) == 1 and ops[0]["kind"] == "rmw" and ops[0]["op"] in ("fetch_add", "operator++", "operator+=") and is_this_field(ops[0]["obj"], "_failure_counter") and \
        (ops[0]["op"] == "operator++" or const_val(ops[0].get("value")) == 1)
    ctx.ob("C08.R3", "ThreadContext::increment_failure_counter:atomic-rmw", ok,
           "the counter is incremented by exactly one with one atomic read-modify-write", fn=inc)


def r4(ctx, facts, cfg):
    f = facts.need(BW + "_check_failure_counter", cfg)[0]
    inits = f.var_inits()
    calls = need_some(f.calls(r"::get_and_reset_failure_counter$"), "get_and_reset_failure_counter call")
    vids = [vid for vid, i in inits.items() if isnode(i) and any(in_subtree(c, i) for c in calls)]
    notif = [c for c in f.calls() if is_call(c) and c["k"] == "CXXOperatorCallExpr" and var_ref(c["args"][0]) == f.rec["params"][0]["did"]]
    ok = bool(vids) and bool(notif) and all(any(x["k"] == "DeclRefExpr" and x.get("did") in vids for x in walk(n)) for n in notif)
    # the "Dropped" text goes with the dropping queue test
    ctx.ob("C08.R4a", "_check_failure_counter:reports-the-reset-value", ok,
           "every notifier message is formatted from the value returned by get_and_reset_failure_counter (%d message site(s))" % len(notif), fn=f)
    loops = [n for n in f.walk() if n["k"] == "CXXForRangeStmt" and is_this_field(strip(n.get("range")), "_active_thread_contexts_cache")]
    if not loops:
        from rules.common import other_loop_over
        other_loop_over(f, "_active_thread_contexts_cache", "_check_failure_counter")
    early = [x for lp in loops for x in walk(lp.get("body")) if x["k"] in ("BreakStmt", "ReturnStmt", "GotoStmt")]
    ctx.ob("C08.R4b", "_check_failure_counter:all-contexts", bool(loops) and not early,
           "the counters of all active thread contexts are inspected (no early exit)", fn=f)
    drop_txt = [n for n in notif if any(x["k"] == "StringLiteral" and "Dropped" in x.get("str", "") for x in walk(n))]
    ok = False
    for n in drop_txt:
        ifs = [a for a in f.ancestors(n) if a["k"] == "IfStmt"]
        if ifs and is_call(core_and_neg(ifs[0]["cond"])[0], r"::has_dropping_queue$") and in_subtree(n, ifs[0]["then"]):
            ok = True
    ctx.ob("C08.R4c", "_check_failure_counter:dropped-text-for-dropping-queue", ok,
           "the 'Dropped N log messages' report is issued for dropping queues", fn=f)
    # R4f: the counter has just been reset to zero, so whatever value was read must be reported: the report is skipped only when that
    # value is zero (a guard like 'more than one' loses every single drop), and on the 'dropping queue' outcome it is always made
    from rules.common import nonzero_label
    g = f.g
    okf, guards = True, 0
    dp = npos(f, drop_txt)
    for bid, b in g.blocks.items():
        c = g.term_cond(bid)
        if c is None or not any(var_ref(x) in vids for x in walk(c)):
            continue
        guards += 1
        lab = nonzero_label(c, vids)
        if lab is None:
            okf = False
    dq = [(b, t) for (b, t, c) in branches_on_call(f, r"::has_dropping_queue$")]
    okf = okf and guards >= 1 and bool(dq) and bool(dp) and \
        all(not g.exists_path([y for (y, l2) in g.succ.get(tnode(g, b), ()) if l2 == t], [g.exit_node] + [p for lp in loops for p in (g.positions(lp.get("inc")) or [])], avoid_nodes=dp)
            for (b, t) in dq)
    ctx.ob("C08.R4f", "_check_failure_counter:every-nonzero-count-reported", okf,
           "the value read (and reset) is compared with zero only (%d guard(s)); with a non-zero value and a dropping queue the 'Dropped' "
           "report is made on every path" % guards, fn=f)
    # where it runs
    poll = facts.need(BW + "_poll", cfg)[0]
    ex = facts.need(BW + "_exit", cfg)[0]
    ctx.ob("C08.R4d", "_poll:reports-when-idle", bool(poll.calls(r"::_check_failure_counter$")),
           "the poll's idle path reports dropped statements", fn=poll)
    g = ex.g
    cp = cpos(ex, r"::_check_failure_counter$")
    ok = bool(cp) and not g.exists_path([g.entry_node], [g.exit_node], avoid_nodes=cp)
    ctx.ob("C08.R4d", "_exit:reports-before-terminating", ok,
           "the exit drain reports the remaining drop counts on every path before the backend terminates", fn=ex)
    # R4e: a context never leaves with an unreported count: inside the clean-up, between selecting a context and removing it, the
    # counters are reported (the thread has exited, so the count is final). A report that merely precedes the clean-up call is not
    # enough: the flush path calls the clean-up on non-idle polls.
    cu = facts.need(BW + "_cleanup_invalidated_thread_contexts", cfg)[0]
    cg = cu.g
    rem = cpos(cu, r"::remove_shared_invalidated_thread_context$")
    rep = cpos(cu, r"::_check_failure_counter$") + cpos(cu, r"::get_and_reset_failure_counter$")
    finds = cpos(cu, r"^std::find_if")
    ok = bool(rem) and bool(rep) and bool(finds) and not cg.exists_path(finds, rem, avoid_nodes=rep)
    ctx.ob("C08.R4e", "_cleanup_invalidated_thread_contexts:report-before-remove", ok,
           "a dead thread's context is removed only after its drop count was reported in the same clean-up step (otherwise a flush "
           "request processed while that thread's statements drain discards the count with the context)", fn=cu)
