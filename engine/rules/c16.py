"""C16 — level / sink-level / filter gating (DESIGN §4 C16)."""
from qlib import (AnalysisBroken, strip, isnode, walk, is_call, norm_cmp, var_ref, is_null, const_val, short, call_obj,
                  expr_key, field_name, is_this_field, atomic_op)
from rules.common import (eq_kind, core_and_neg, tnode, other, cpos, npos, branches_on_call, in_subtree, need_some, returns_bool,
                          flatten)
from rules.c02 import cmp_sides
import gen_macros
import re

EXPLANATION = ("Gating. R1 (exhaustive over every log macro LogMacros.h defines, re-derived with clang -E -dM on each run): in the "
               "macro's expansion the log_statement call and the evaluation of the user's arguments (a marker call) are reachable only "
               "through the 'true' outcome of should_log_statement for level L; the MacroMetadata built in that block has level L "
               "(static) or Dynamic (run-time form) and event Log; has_dynamic_log_level <=> Dynamic; the run-time level handed to "
               "log_statement is the expression that was tested; L equals the level in the macro's name; with a compile-time floor, "
               "macros below it expand to nothing (no marker, no call) — thorough tier: all nine floors. R2: both should_log_statement "
               "overloads are 'statement level >= logger level'. R3: a sink first rejects levels below its own threshold, then requires "
               "all its filters; the filter test, the override-formatter choice and write_log use the same sink; write_log receives the "
               "event's effective level. R4: every decoded event gets dynamic_log_level assigned on every path (record value or None) "
               "and TransitEvent::log_level() returns it iff the metadata level is Dynamic (events are reused)."
               " R5: the override pattern reaches Sink's field through every constructor chain. R6 (= C12.R7): options equality. R7: the threshold setters store their argument; add_filter appends under the lock, then raises the flag, refuses duplicates only; the local list is reloaded iff the flag is set; a sink without filters accepts. All nine compile-time level floors are analysed in both tiers."
               " R8: the logger's threshold is applied where the statement is made and nowhere else: LoggerBase::log_level is touched by its accessors only and no function that can run on the backend thread calls get_log_level / should_log_statement.")
TECHNIQUE = "static analysis: custom checker over clang AST/CFG facts of generated macro-expansion witnesses (every log macro, every compile-time level floor) and of the backend's gate functions"
NOT_DECIDED = ("Concurrent level changes (relaxed atomics: 'at the moment of the call' is whatever the load returns); user filter "
               "semantics.")
EXHAUSTIVE = "every log macro LogMacros.h defines (list re-derived with clang -E -dM on every run) x the analysed compile-time configurations"
ASSUMPTIONS = []
BW = "quill::detail::BackendWorker::"
LL = "quill::LogLevel::"


def run(ctx):
    facts = ctx.facts("core.cpp", "A")
    r1(ctx, ())
    # the compile-time level table (#if QUILL_COMPILE_ACTIVE_LOG_LEVEL <= ..._<LEVEL> around each block of macros) is invisible in the
    # default configuration: every floor is part of the quick tier too (a guard naming the wrong level compiles one level's macros out at
    # exactly one floor); the nine witnesses are extracted in parallel
    floors = [("-DQUILL_COMPILE_ACTIVE_LOG_LEVEL=%d" % lvl,) for lvl in range(0, 9)]
    from concurrent.futures import ThreadPoolExecutor
    import qlib as _qlib

    def _prefetch(flags):
        try:
            path, _t, _g = gen_macros.generate(flags)
            _qlib.extract(path, "A", flags)
        except Exception:
            pass        # reported by the sequential pass below
    with ThreadPoolExecutor(9) as ex:
        list(ex.map(_prefetch, floors))
    for lvl in range(0, 9):
        r1(ctx, floors[lvl], floor_level=lvl)
    if ctx.tier == "thorough":
        r1(ctx, ("-DQUILL_IMMEDIATE_FLUSH=1",))
    r2(ctx, facts)
    r3(ctx, facts)
    r4(ctx, facts)
    r5_override_chain(ctx, facts)
    r7_threshold_and_filter_setters(ctx, facts)
    r8_threshold_is_call_time(ctx, facts)
    # two loggers share a formatter only when every option is equal (shared with C12.R7)
    from rules import c12
    from rules.c09 import Renamed as _Ren
    c12.r7_options_equality(_Ren(ctx, "C12.R7", "C16.R6"), facts)
    # the dynamic level travels with the event through buffer growth and into the backtrace ring (shared with C03)
    from rules import c03
    from rules.c09 import Renamed
    c03.transit_event_transfer(Renamed(ctx, "C03.R4t", "C16.R4t"), facts, "A", "C03.R4")


def enum_in(n, prefix):
    for x in walk(n):
        if x["k"] == "DeclRefExpr" and x.get("dk") == "EnumConstant" and x["name"].startswith(prefix):
            return x["name"][len(prefix):]
    return None


def r1(ctx, flags, floor_level=None):
    path, table, gens = gen_macros.generate(flags)
    facts = ctx.facts(path, "A", flags)
    tag = "" if not flags else "[%s]" % flags[0].replace("-DQUILL_", "")
    n_checked = 0
    if not flags:
        ctx.floor("C16.R1", "log macros defined by LogMacros.h", len(table), 234)
    for (name, family, level, suffix, callable_) in table:
        if not callable_:
            ctx.note("%s%s is an object-like (compiled-out) definition and cannot be invoked with arguments — skipped" % (name, tag))
            continue
        fs = facts.fn("qvm::m_" + name, "A")
        if not fs:
            raise AnalysisBroken("witness function for %s not found" % name)
        f = fs[0]
        g = f.g
        n_checked += 1
        site = name + tag
        logs = f.calls(r"^quill::LoggerImpl<.*>::log_statement<")
        marks = f.calls(r"^qv_arg$")
        compiled_out = floor_level is not None and level in gen_macros.COMPILE_LEVEL and gen_macros.COMPILE_LEVEL[level] < floor_level
        if compiled_out:
            ctx.ob("C16.R1e", site + ":compiled-out", not logs and not marks,
                   "below the compile-time floor the macro expands to nothing: no log call and the arguments are not evaluated "
                   "(log calls: %d, argument evaluations: %d)" % (len(logs), len(marks)), fn=f)
            continue
        if not logs or not marks:
            ctx.ob("C16.R1a", site + ":expands-to-log-call", False,
                   "the macro must expand to a guarded log_statement call evaluating its arguments (log calls: %d, markers: %d)" % (len(logs), len(marks)), fn=f)
            continue
        expected = gen_macros.ENUM[level]
        dynamic = expected == "Dynamic"
        br = branches_on_call(f, r"LoggerBase::should_log_statement")
        # level tested
        tested = set()
        for (bid, t, c) in br:
            if dynamic:
                tested.add("Dynamic" if (c.get("args") and any(is_call(x, r"^qv_level$") for x in walk(c["args"][0]))) else "?")
            else:
                targ = c["callee"].split("should_log_statement<")[-1].rstrip(">") if "should_log_statement<" in c["callee"] else "?"
                tested.add(targ.replace(LL, ""))
        true_edges = [(bid, t) for (bid, t, c) in br]
        lp, mp = npos(f, logs), npos(f, marks)
        guarded = bool(br) and not g.exists_path([g.entry_node], lp + mp, avoid_edges=true_edges)
        ctx.ob("C16.R1a", site + ":guarded", guarded,
               "the log call and the evaluation of the arguments are reachable only through the 'true' outcome of should_log_statement", fn=f)
        ctx.ob("C16.R1b", site + ":tested-level", tested == {expected},
               "the level tested is %s, the level in the macro's name (tested: %s)" % (expected, sorted(tested)), fn=f)
        # metadata
        decls = f.var_decls()
        ok_meta, ok_dyn, ok_same = True, True, True
        for c in logs:
            a = strip(c["args"][1], casts=True)
            mv = var_ref(a["sub"]) if isnode(a) and a["k"] == "UnaryOperator" and a["op"] == "&" else None
            init = decls.get(mv, {}).get("init") if mv is not None else None
            if not isnode(init):
                ok_meta = False
                continue
            ctor = [x for x in walk(init) if is_call(x, r"MacroMetadata::MacroMetadata$")]
            if not ctor or len(ctor[0]["args"]) < 6:
                ok_meta = False
                continue
            mlevel = enum_in(ctor[0]["args"][4], LL)
            mevent = enum_in(ctor[0]["args"][5], "quill::MacroMetadata::")
            want_event = "LogWithRuntimeMetadata" if level == "RUNTIME_METADATA" else "Log"
            if mlevel != expected or mevent != want_event:
                ok_meta = False
            targs = c["callee"].split("log_statement<")[1].split(",")
            has_dyn = targs[1].strip().rstrip(">").strip() == "true"
            if has_dyn != dynamic:
                ok_dyn = False
            lv = c["args"][0]
            if dynamic:
                if not any(is_call(x, r"^qv_level$") for x in walk(lv)):
                    ok_same = False
            else:
                if enum_in(lv, LL) != "None":
                    ok_same = False
            # the metadata declaration lives inside the guarded block
            dnodes = [n for n in f.walk() if n["k"] == "DeclStmt" and any(d["did"] == mv for d in n.get("decls", []))]
            if not dnodes or g.exists_path([g.entry_node], npos(f, dnodes), avoid_edges=true_edges):
                ok_meta = False
        ctx.ob("C16.R1c", site + ":metadata-level", ok_meta,
               "the MacroMetadata handed to log_statement is the one built in the guarded block, with level %s and event %s" %
               (expected, "LogWithRuntimeMetadata" if level == "RUNTIME_METADATA" else "Log"), fn=f)
        ctx.ob("C16.R1d", site + ":dynamic-flag", ok_dyn and ok_same,
               "has_dynamic_log_level is %s and the run-time level argument is %s" %
               ("true" if dynamic else "false", "the tested expression" if dynamic else "LogLevel::None"), fn=f)
    ctx.floor("C16.R1", "log macros checked%s" % tag, n_checked, 200)


def r2(ctx, facts):
    fs = facts.need("quill::detail::LoggerBase::should_log_statement", "A", floor=2)
    kinds = set()
    for f in fs:
        rets = [f.g.node_ast(r) for r in f.g.return_nodes()]
        ok = len(rets) == 1
        kinds.add("runtime" if f.rec.get("params") else "static")
        if ok:
            cs = cmp_sides(rets[0]["val"])
            if cs is not None:
                # a side held in a local that is initialised once and never assigned again stands for its initialiser
                inits = f.var_inits()
                def resolve(e):
                    v = var_ref(strip(e, casts=True))
                    return inits[v] if v is not None and v in inits and isnode(inits[v]) and not f.assignments_to_var(v) else e
                cs = (cs[0], resolve(cs[1]), resolve(cs[2]))
            ok = cs is not None and cs[0] == "<=" and \
                (is_call(strip(cs[1], casts=True), r"LoggerBase::get_log_level$") or (atomic_op(strip(cs[1], casts=True)) or {}).get("kind") == "load")
            if ok:
                big = strip(cs[2], casts=True)
                if f.rec.get("params"):
                    ok = var_ref(big) == f.rec["params"][0]["did"]
                    kinds.add("runtime")
                else:
                    ok = "cval" in big or big["k"] == "SubstNonTypeTemplateParmExpr" or const_val(cs[2]) is not None
                    kinds.add("static")
        ctx.ob("C16.R2", "LoggerBase::should_log_statement%s" % ("(level)" if f.rec.get("params") else "<%s>" % (f.rec.get("targs") or ["?"])[0].replace(LL, "")), ok,
               "a statement is enqueued iff its level >= the logger's current level", fn=f)
    if kinds != {"runtime", "static"}:
        raise AnalysisBroken("both should_log_statement overloads expected, found %s" % sorted(kinds))
    gl = facts.need("quill::detail::LoggerBase::get_log_level", "A")[0]
    ok = any((atomic_op(n) or {}).get("kind") == "load" and is_this_field(atomic_op(n)["obj"], "log_level") for n in gl.walk())
    ctx.ob("C16.R2", "LoggerBase::get_log_level", ok, "the logger level compared is the logger's log_level field", fn=gl)


def filter_loop(f):
    """the other accepted form of 'every attached filter has to accept': a range-for over the sink's local list that returns false
    at the first rejecting filter and is left only by that return or by running out of filters. Returns None when there is no such
    loop, else {ok, why, use: graph positions where the list is consulted, calls}."""
    g = f.g
    loops = [n for n in f.walk() if n["k"] == "CXXForRangeStmt" and is_this_field(strip(n.get("range"), casts=True), "_local_filters") and
             any(is_call(x, r"quill::Filter::filter$") for x in walk(n.get("body")))]
    if not loops:
        return None
    if len(loops) > 1:
        raise AnalysisBroken("Sink::apply_all_filters: more than one loop over the local filter list")
    L = loops[0]
    body = L.get("body")
    lv = L["loopvar"]["did"]
    fcalls = [x for x in walk(body) if is_call(x, r"quill::Filter::filter$")]
    jumps = [x for x in walk(body) if x["k"] in ("BreakStmt", "ContinueStmt", "GotoStmt")]
    if jumps:
        raise AnalysisBroken("Sink::apply_all_filters: the loop over the filters contains break / continue / goto: not decided")
    stmts = (body.get("c") or body.get("stmts") or []) if isnode(body) and body["k"] == "CompoundStmt" else [body]
    falses = returns_bool(f, False)
    br = [(b, t, c) for (b, t, c) in branches_on_call(f, r"quill::Filter::filter$") if any(c is x or c.get("id") == x.get("id") for x in fcalls)]
    why = []
    if len(br) != len(fcalls):
        raise AnalysisBroken("Sink::apply_all_filters: a filter verdict in the loop is not the condition of a branch: not decided")
    top = all(any(isnode(st) and st["k"] == "IfStmt" and any(y.get("id") == c.get("id") for y in walk(st.get("cond"))) for st in stmts) or
              any(isnode(st) and st["k"] == "DeclStmt" and any(y.get("id") == c.get("id") for y in walk(st)) for st in stmts) for c in fcalls)
    if not top:
        raise AnalysisBroken("Sink::apply_all_filters: the filter call is nested below the top level of the loop body: not decided")
    on_lv = all(var_ref(strip(call_obj(c), casts=True)) == lv for c in fcalls)
    if not on_lv:
        why.append("the verdict is not asked of the filter being visited")
    lvl = f.rec["params"][5]["did"]
    if not all(len(c.get("args", [])) > 5 and any(var_ref(x) == lvl for x in walk(c["args"][5])) for c in fcalls):
        why.append("the filter is not given the statement's level")
    reject = [(b, other(t)) for (b, t, c) in br]
    fpos = [p_ for c in fcalls for p_ in g.positions(c)]
    in_loop_rets = [x for x in walk(body) if x["k"] == "ReturnStmt"]
    for r in in_loop_rets:
        rp = g.positions(r)
        if not all(p_ in falses for p_ in rp):
            why.append("a return inside the loop does not return false (%s)" % r.get("loc"))
        if g.exists_path([g.entry_node], rp, avoid_edges=reject):
            why.append("a return inside the loop is reached without a rejecting verdict (%s)" % r.get("loc"))
    for (b, lab) in reject:
        start = [y for (y, l2) in g.succ.get(tnode(g, b), ()) if l2 == lab]
        r_ = g.reach(start, include_src=True)
        if any(p_ in r_ for p_ in fpos) or any(p_ in r_ and p_ not in falses for p_ in g.return_nodes()):
            why.append("a rejecting verdict does not end in 'return false'")
    cond_pos = [p_ for x in walk(L.get("cond")) for p_ in g.positions(x)] if isnode(L.get("cond")) else []
    if not cond_pos:
        raise AnalysisBroken("Sink::apply_all_filters: the loop condition has no position in the flow graph")
    return {"ok": not why, "why": why, "use": cond_pos + fpos, "calls": fcalls, "cond": cond_pos}


def r3(ctx, facts):
    f = facts.need("quill::Sink::apply_all_filters", "A")[0]
    g = f.g
    lvl = f.rec["params"][5]["did"]
    falses = returns_bool(f, False)
    first = None
    for bid, b in g.blocks.items():
        c = g.term_cond(bid)
        cs = cmp_sides(c) if c is not None else None
        if cs and var_ref(cs[1]) == lvl and (atomic_op(strip(cs[2], casts=True)) or {}).get("kind") == "load" and \
                is_this_field(atomic_op(strip(cs[2], casts=True))["obj"], "_log_level"):
            first = (bid, cs[0])
    ok = False
    if first:
        bid, op = first
        t = tnode(g, bid)
        below = g.reach([t], avoid_edges=[(bid, "F")])
        rets = [p for p in g.return_nodes() if p in below]
        ok = op == "<" and bool(rets) and all(p in falses for p in rets) and g.dominates([t], g.exit_node)
    ctx.ob("C16.R3a", "Sink::apply_all_filters:level-threshold", ok,
           "a statement below the sink's own level threshold (level < _log_level) is rejected before any filter runs, on every path", fn=f)
    # all filters: std::all_of over _local_filters (or loop with early false)
    rets = [g.node_ast(r) for r in g.return_nodes()]
    allof = [r for r in rets if is_call(strip(r["val"], casts=True), r"^std::all_of")]
    lam = [x for x in facts.fns if x.config == "A" and x.rec.get("parent") == f.name and x.calls(r"quill::Filter::filter$")]
    ok = False
    if allof and lam:
        c = strip(allof[0]["val"], casts=True)
        over_local = any(is_this_field(x, "_local_filters") for x in walk(c["args"][0])) and any(is_this_field(x, "_local_filters") for x in walk(c["args"][1]))
        lrets = [lam[0].g.node_ast(r) for r in lam[0].g.return_nodes()]
        direct = bool(lrets) and all(is_call(strip(r["val"], casts=True), r"quill::Filter::filter$") for r in lrets)
        lvl_passed = all(any(x["k"] == "DeclRefExpr" and x.get("name") == "log_level" for x in walk(fc["args"][5])) for fc in lam[0].calls(r"quill::Filter::filter$"))
        ok = over_local and direct and lvl_passed
    other_true = [r for r in rets if const_val(r["val"]) == 1]
    empt = branches_on_call(f, r"std::vector<quill::Filter \*.*>::empty$")
    true_pos = [p for p in g.return_nodes() if const_val(g.node_ast(p)["val"]) == 1]
    only_when_empty = bool(empt) and not g.exists_path([g.entry_node], true_pos, avoid_edges=[(b, t) for (b, t, c) in empt])
    fl = filter_loop(f) if not allof else None
    if fl is not None:
        # loop form: 'true' is returned only after the loop ran out of filters (or on the 'list is empty' outcome), every other return is false
        nonbool = [r for r in rets if const_val(r["val"]) not in (0, 1)]
        after_loop = bool(true_pos) and not g.exists_path([g.entry_node], true_pos, avoid_nodes=fl["cond"], avoid_edges=[(b, t) for (b, t, c) in empt])
        ok_b = fl["ok"] and not nonbool and after_loop
        detail = "; ".join(fl["why"]) or ("loop over the sink's filters, %d verdict(s)" % len(fl["calls"]))
    else:
        ok_b = ok and (not other_true or only_when_empty)
        detail = "std::all_of"
    ctx.ob("C16.R3b", "Sink::apply_all_filters:all-filters", ok_b,
           "acceptance is the conjunction of every attached filter's verdict (std::all_of over the sink's filters with each verdict "
           "returned unchanged, or a loop over them that returns false at the first rejection and true only when it ran out of filters); "
           "unconditional 'true' only when the sink has no filter (%s)" % detail, fn=f)
    # local copy refreshed from the global list under the lock whenever _new_filter is set
    refresh = [n for n in f.walk() if n["k"] == "CXXForRangeStmt" and is_this_field(strip(n.get("range")), "_global_filters")]
    ok = bool(refresh) and any(is_call(x, r"std::vector<quill::Filter \*.*>::push_back$") for x in walk(refresh[0])) and \
        not [x for x in walk(refresh[0].get("body")) if x["k"] in ("BreakStmt", "ReturnStmt", "ContinueStmt")]
    clear = npos(f, [c for c in f.calls(r"std::vector<quill::Filter \*.*>::clear$")])
    # R3h: the 'filters were added' flag is cleared only where the local list has just been rebuilt
    clears_flag = [n for n in f.walk() if (atomic_op(n) or {}).get("kind") in ("store", "rmw") and is_this_field(atomic_op(n)["obj"], "_new_filter") and
                   (const_val(atomic_op(n).get("value")) in (0, False) or atomic_op(n).get("op") in ("exchange", "clear", "fetch_and"))]
    rebuild = npos(f, [c for c in f.calls(r"std::vector<.*>::(push_back|emplace_back|assign|insert|operator=)$") if is_this_field(call_obj(c) if c["k"] != "CXXOperatorCallExpr" else c["args"][0], "_local_filters")])
    cf = npos(f, clears_flag)
    lf_clear = npos(f, [c for c in f.calls(r"std::vector<.*>::clear$") if is_this_field(call_obj(c), "_local_filters")])
    ok_h = bool(cf) and bool(lf_clear) and all(g.dominates(lf_clear, p) for p in cf) and not g.exists_path(cf, lf_clear + rebuild)
    ctx.ob("C16.R3h", "Sink::apply_all_filters:flag-cleared-after-reload", ok_h,
           "the 'new filter' flag is cleared only after the sink's local filter list was rebuilt on that path (a statement turned away "
           "by the level threshold must not consume the flag, or the added filter is never loaded)", fn=f)
    ctx.ob("C16.R3c", "Sink::apply_all_filters:refresh-copies-all", ok and bool(clear),
           "when filters were added the sink's local list is rebuilt from all attached filters", fn=f)
    # _write_log_statement: same sink for filter, override formatter and write
    w = facts.need(BW + "_write_log_statement", "A")[0]
    wl = need_some(w.calls(r"::Sink::write_log$"), "write_log")
    ap = need_some(w.calls(r"::Sink::apply_all_filters$"), "apply_all_filters")
    loops = [a for a in w.ancestors(wl[0]) if a["k"] == "CXXForRangeStmt"]
    lv = loops[0]["loopvar"]["did"] if loops else None

    def on_loopvar(n):
        return n is not None and any(x["k"] == "DeclRefExpr" and x.get("did") == lv for x in walk(n))
    ov = [x for x in w.walk() if x["k"] == "MemberExpr" and x.get("mname", "").startswith("_override_pattern_formatter")]
    ok = lv is not None and all(on_loopvar(call_obj(c)) for c in wl + ap) and bool(ov) and all(on_loopvar(x.get("base")) for x in ov)
    ctx.ob("C16.R3d", "_write_log_statement:same-sink", ok,
           "filter test, override-formatter selection and write_log all refer to the sink being visited (independent of the logger's "
           "other sinks)", fn=w)
    ok = all(is_call(strip(c["args"][6], casts=True), r"TransitEvent::log_level$") for c in wl) and \
        all(is_call(strip(c["args"][5], casts=True), r"TransitEvent::log_level$") for c in ap)
    ctx.ob("C16.R3e", "_write_log_statement:effective-level", ok,
           "the sink's filters and write_log receive the event's effective level (dynamic level when given)", fn=w)
    # override: which line reaches write_log. Definitions of the written variable are classified by their source: the logger's formatted
    # statement, or the visited sink's override formatter; anything else is a violation.
    inits = w.var_inits()
    g = w.g
    written = var_ref(wl[0]["args"][11])
    if written is None:
        raise AnalysisBroken("_write_log_statement: the statement argument of write_log is not a variable — a shape no accepted idiom covers")
    logger_line = None
    for vid, i in inits.items():
        if isnode(i) and any(is_call(x, r"PatternFormatter::format$") for x in walk(i)) and \
                any(x["k"] == "MemberExpr" and x.get("mname") == "pattern_formatter" for x in walk(i)):
            logger_line = vid
    defs = []  # (positions, kind)
    def kind_of(rhs):
        if isnode(rhs) and any(is_call(x, r"PatternFormatter::format$") for x in walk(rhs)) and \
                any(x["k"] == "MemberExpr" and x.get("mname") == "_override_pattern_formatter" and on_loopvar(x.get("base")) for x in walk(rhs)):
            return "override"
        if isnode(rhs) and any(is_call(x, r"PatternFormatter::format$") for x in walk(rhs)) and \
                any(x["k"] == "MemberExpr" and x.get("mname") == "pattern_formatter" for x in walk(rhs)):
            return "logger"
        if rhs is not None and logger_line is not None and var_ref(rhs) == logger_line:
            return "logger"
        return "other"
    if written == logger_line:
        dk = [(g.pos_of(lambda n: isnode(n) and n.get("k") in ("Var", "DeclStmt") and (n.get("did") == written or any(d.get("did") == written for d in n.get("decls") or []))), "logger")]
    elif written in inits and inits[written] is not None and not (
            isnode(strip(inits[written], casts=True)) and strip(inits[written], casts=True)["k"] == "CXXConstructExpr" and not strip(inits[written], casts=True).get("args")):
        # (a default-constructed declaration sets no line: the assignments below must cover every path)
        dk = [(g.pos_of(lambda n: isnode(n) and n.get("k") in ("Var", "DeclStmt") and (n.get("did") == written or any(d.get("did") == written for d in n.get("decls") or []))), kind_of(inits[written]))]
    else:
        dk = []
    for a_ in w.assignments_to_var(written):
        rhs = a_.get("rhs") if a_["k"] == "BinaryOperator" else (a_["args"][1] if len(a_.get("args") or []) > 1 else None)
        dk.append((g.positions(a_), kind_of(rhs)))
    d_over = sorted(set(p for ps, k in dk if k == "override" for p in ps))
    d_log = sorted(set(p for ps, k in dk if k == "logger" for p in ps))
    d_other = sorted(set(p for ps, k in dk if k == "other" for p in ps))
    ob = []
    for bid, b in g.blocks.items():
        c = g.term_cond(bid)
        if c is not None and any(x["k"] == "MemberExpr" and x.get("mname") == "_override_pattern_formatter_options" and on_loopvar(x.get("base")) for x in walk(c)):
            core, neg = core_and_neg(c)
            ob.append((bid, "F" if neg else "T"))  # label of 'this sink has an override pattern'
    app, wlp = npos(w, ap), npos(w, wl)
    ok = bool(ob) and bool(d_over) and not d_other and \
        not g.exists_path([g.entry_node], d_over, avoid_edges=ob) and \
        all(not g.exists_path([tnode(g, b)], wlp, avoid_nodes=d_over, avoid_edges=[(b, other(l))]) for (b, l) in ob) and \
        not any(g.exists_path([p], wlp, avoid_nodes=app) and g.exists_path(d_over, [p], avoid_nodes=app) for p in d_log)
    ctx.ob("C16.R3f", "_write_log_statement:override-pattern", ok,
           "a sink with an override pattern receives the line formatted by its own formatter: the override line is produced only "
           "under 'this sink has an override', reaches write_log on every path from there, and is not replaced by the logger's line "
           "on the way", fn=w)
    # R3i: the sink's own formatter exists when it is used: created on the 'missing' outcome, from that sink's override options
    mk = [n for n in w.walk() if ((n["k"] == "BinaryOperator" and n["op"] == "=") or (n["k"] == "CXXOperatorCallExpr" and short(n.get("callee") or "").endswith("operator="))) and
          any(x["k"] == "MemberExpr" and x.get("mname") == "_override_pattern_formatter" and on_loopvar(x.get("base"))
              for x in walk(n["lhs"] if n["k"] == "BinaryOperator" else n["args"][0])) and
          any(is_call(x, r"^std::make_shared<quill::(v\d+::)?PatternFormatter") for x in walk(n["rhs"] if n["k"] == "BinaryOperator" else n["args"][1]))]
    mkp = npos(w, mk)
    from_opts = bool(mk) and all(any(x["k"] == "MemberExpr" and x.get("mname") == "_override_pattern_formatter_options" and on_loopvar(x.get("base"))
                                     for x in walk(n["rhs"] if n["k"] == "BinaryOperator" else n["args"][1])) for n in mk)
    exists = []
    for bid, b in g.blocks.items():
        c = g.term_cond(bid)
        if c is None:
            continue
        core, neg = core_and_neg(c)
        if any(x["k"] == "MemberExpr" and x.get("mname") == "_override_pattern_formatter" and on_loopvar(x.get("base")) for x in walk(core)) and \
                not any(is_call(x, r"PatternFormatter::format$") for x in walk(core)):
            exists.append((bid, "F" if neg else "T"))  # label of 'formatter exists'
    ok_i = bool(mkp) and from_opts and bool(exists) and bool(d_over) and \
        not g.exists_path(app, d_over, avoid_nodes=mkp, avoid_edges=exists) and \
        not g.exists_path([g.entry_node], mkp, avoid_edges=[(b, other(l)) for (b, l) in exists])
    ctx.ob("C16.R3i", "_write_log_statement:override-formatter-created", ok_i,
           "a sink's override formatter is created from that sink's own override options exactly when it does not exist yet, and "
           "every path to its use has seen or created it", fn=w)
    # R3g: the line is chosen afresh for every sink
    alld = sorted(set(d_over) | set(d_log))
    stale = g.exists_path(app, wlp, avoid_nodes=alld) if written != logger_line else False
    plain = all(not g.exists_path([tnode(g, b)], wlp, avoid_nodes=d_log + app, avoid_edges=[(b, l)]) or
                # the logger's line may have been set before the override test within the same iteration
                not g.exists_path(app, [tnode(g, b)], avoid_nodes=d_log) for (b, l) in ob) if written != logger_line else not d_over
    ctx.ob("C16.R3g", "_write_log_statement:line-chosen-per-sink", bool(alld) and not stale and plain and not d_other,
           "the line handed to write_log is chosen afresh for each sink — on every path from that sink's filter test to its write it "
           "is set, and without an override it is the logger's formatted statement — so a sink without an override never receives "
           "the line an earlier sink's override produced (set on every path: %s, logger's line without override: %s)" % (not stale, plain), fn=w)


def r4(ctx, facts):
    f = facts.need(BW + "_populate_transit_event_from_frontend_queue", "A")[0]
    g = f.g
    pb = cpos(f, r"TransitEventBuffer::push_back$")
    writes = []
    for n in f.walk():
        if n["k"] == "BinaryOperator" and n["op"] == "=" and field_name(n["lhs"]) == "dynamic_log_level":
            writes.append((n, "None" if enum_in(n["rhs"], LL) == "None" else "?"))
        if is_call(n, r"^(std::)?memcpy$") and any(x["k"] == "MemberExpr" and x.get("mname") == "dynamic_log_level" for x in walk(n["args"][0])):
            writes.append((n, "record"))
    wp = npos(f, [w for (w, k) in writes])
    ok = bool(pb) and bool(wp) and not g.exists_path([g.entry_node], pb, avoid_nodes=wp)
    ctx.ob("C16.R4a", "_populate_transit_event_from_frontend_queue:dynamic-level-always-assigned", ok,
           "on every path to push_back the (reused) event's dynamic_log_level is assigned — from the record or reset to None", fn=f)
    # which one: under metadata level == Dynamic the record value, else None
    dyn = []
    for bid, b in g.blocks.items():
        c = g.term_cond(bid)
        nc = norm_cmp(c) if c is not None else None
        if nc and nc[0] in ("==", "!=") and any(is_call(x, r"MacroMetadata::log_level$") for x in walk(c)) and enum_in(c, LL) == "Dynamic":
            dyn.append((bid, "T" if nc[0] == "==" else "F"))
    ok = bool(dyn)
    for (bid, lab) in dyn:
        t = tnode(g, bid)
        via_dyn = g.reach([t], avoid_edges=[(bid, other(lab))])
        via_static = g.reach([t], avoid_edges=[(bid, lab)])
        rec = [p for (w, k) in writes if k == "record" for p in g.positions(w)]
        non = [p for (w, k) in writes if k == "None" for p in g.positions(w)]
        if not rec or not non or any(p in via_static and p not in via_dyn for p in rec) or any(p in via_dyn and p not in via_static for p in non):
            ok = False
        if g.exists_path([t], pb, avoid_nodes=rec, avoid_edges=[(bid, other(lab))]) or g.exists_path([t], pb, avoid_nodes=non, avoid_edges=[(bid, lab)]):
            ok = False
    ctx.ob("C16.R4b", "_populate_transit_event_from_frontend_queue:dynamic-level-source", ok,
           "the level comes from the record exactly when the metadata level is Dynamic, and is None otherwise", fn=f)
    ll = facts.need("quill::detail::TransitEvent::log_level", "A")[0]
    lg = ll.g
    dynb = []
    for bid, b in lg.blocks.items():
        c = lg.term_cond(bid)
        nc = norm_cmp(c) if c is not None else None
        if nc and nc[0] in ("==", "!=") and enum_in(c, LL) == "Dynamic":
            dynb.append((bid, "T" if nc[0] == "==" else "F"))
    ok = bool(dynb)
    for (bid, lab) in dynb:
        t = tnode(lg, bid)
        for r in lg.return_nodes():
            v = strip(lg.node_ast(r)["val"], casts=True)
            is_dyn_field = is_this_field(v, "dynamic_log_level")
            is_meta = is_call(v, r"MacroMetadata::log_level$")
            if r in lg.reach([t], avoid_edges=[(bid, other(lab))]) and not is_dyn_field:
                ok = False
            if r in lg.reach([t], avoid_edges=[(bid, lab)]) and not is_meta:
                ok = False
    ctx.ob("C16.R4c", "TransitEvent::log_level", ok,
           "the effective level is the dynamic level iff the metadata level is Dynamic, else the metadata level", fn=ll)
    # named_args cleared at consumption (events are reused)
    pl = facts.need(BW + "_process_lowest_timestamp_transit_event", "A")[0]
    cl = [c for c in pl.calls(r"std::vector<std::pair<.*>::clear$")]
    pops = cpos(pl, r"TransitEventBuffer::pop_front$")
    ok = bool(cl) and bool(pops) and all(pl.g.exists_path(pl.g.positions(c), pops) for c in cl)
    ctx.ob("C16.R4d", "_process_lowest_timestamp_transit_event:named-args-reset", ok,
           "the consumed event's named arguments are cleared before the slot is reused", fn=pl)


def r5_override_chain(ctx, facts):
    """R5: the override pattern a user configures reaches the field the backend reads. Per config class: the setter stores its parameter
    in the field the getter returns. Per constructor of a class derived from Sink: a parameter that bears the override (an
    optional<PatternFormatterOptions>, or a config object whose class has the getter) is handed — itself, or through the getter — to a
    base-constructor parameter that in turn reaches Sink::_override_pattern_formatter_options."""
    OPT = "optional<PatternFormatterOptions>"
    FIELD = "_override_pattern_formatter_options"
    classes = {n: rec for (n, c), rec in facts.classes.items() if c == "A"}

    canon = {n.replace("quill::", ""): n for n in classes}

    def bases_closure(n, seen=None):
        seen = seen if seen is not None else set()
        for b in (classes.get(n) or {}).get("bases", []):
            b = canon.get(b.replace("quill::", ""), b)
            if b not in seen:
                seen.add(b)
                bases_closure(b, seen)
        return seen

    cfg_classes = [n for n, c in classes.items() if any(m["name"].endswith("::override_pattern_formatter_options") for m in c.get("methods", []))]
    if len(cfg_classes) < 2:
        raise AnalysisBroken("sink config classes with an override_pattern_formatter_options() getter: expected FileSinkConfig and ConsoleSinkConfig, found %s" % cfg_classes)
    cfg_all = set(cfg_classes) | {n for n in classes if bases_closure(n) & set(cfg_classes)}
    for cn in cfg_classes:
        setter = facts.need(cn + "::set_override_pattern_formatter_options", "A")[0]
        getter = facts.need(cn + "::override_pattern_formatter_options", "A")[0]
        p0 = setter.rec["params"][0]["did"]
        stored = [field_name(a["lhs"]) for a in setter.walk() if a["k"] in ("BinaryOperator", "CXXOperatorCallExpr") and
                  ((a["k"] == "BinaryOperator" and a.get("op") == "=" and var_ref(strip(a["rhs"], casts=True)) == p0 and is_this_field(a["lhs"])))]
        for a in setter.walk():
            if a["k"] == "CXXOperatorCallExpr" and (a.get("callee") or "").endswith("operator=") and len(a["args"]) == 2 and \
                    is_this_field(a["args"][0]) and any(var_ref(x) == p0 for x in walk(a["args"][1])):
                stored.append(field_name(a["args"][0]))
        rets = [getter.g.node_ast(r) for r in getter.g.return_nodes()]
        got = [field_name(strip(r.get("val"), casts=True)) for r in rets if is_this_field(strip(r.get("val"), casts=True))]
        ctx.ob("C16.R5a", "%s:override-setter-getter" % cn.split("::")[-1], len(stored) == 1 and got == stored,
               "set_override_pattern_formatter_options stores its argument in the field override_pattern_formatter_options() returns "
               "(stored in %s, returned %s)" % (stored, got), fn=setter)

    ctors = [f for f in facts.fns if f.config == "A" and f.rec.get("ctor")]

    def resolve(callee, nargs):
        c = [f for f in ctors if f.name == callee or f.short == callee]
        if not c:   # inheriting constructor: Derived<...>::Base names Base's constructor
            last = callee.split("::")[-1]
            c = [f for f in ctors if f.short.endswith("::%s::%s" % (last, last)) or f.short == "quill::%s::%s" % (last, last)]
        c = [f for f in c if len(f.rec["params"]) == nargs]
        return c[0] if c else None

    memo = {}

    def carried(f):
        """indexes of f's parameters whose override reaches Sink's field"""
        if id(f) in memo:
            return memo[id(f)]
        memo[id(f)] = set()
        params = [p["did"] for p in f.rec["params"]]
        out = set()
        for i in f.rec.get("inits") or []:
            e = i.get("expr")
            if e is None:
                continue
            if i["member"] == FIELD and f.cls == "quill::Sink":
                out |= {params.index(var_ref(x)) for x in walk(e) if var_ref(x) in params}
            if i["member"].startswith("base:"):
                ce = [x for x in walk(e) if x["k"] in ("CXXConstructExpr", "CXXTemporaryObjectExpr") and x.get("callee")]
                if not ce:
                    continue
                ce = ce[0]
                b = resolve(ce["callee"], len(ce.get("args") or []))
                if b is None:
                    continue
                for j in carried(b):
                    arg = ce["args"][j]
                    for x in walk(arg):
                        v = var_ref(x)
                        if v in params and (OPT in (f.rec["params"][params.index(v)].get("ty") or "")):
                            out.add(params.index(v))
                        if is_call(x, r"::override_pattern_formatter_options$"):
                            o = call_obj(x)
                            if var_ref(strip(o, casts=True)) in params:
                                out.add(params.index(var_ref(strip(o, casts=True))))
                        # the whole config handed on to a base that takes the config
                        if v in params and any(c.split("::")[-1] in (f.rec["params"][params.index(v)].get("ty") or "") for c in cfg_all) and \
                                strip(arg, casts=True) is x:
                            out.add(params.index(v))
        memo[id(f)] = out
        return out

    sink = [f for f in ctors if f.short == "quill::Sink::Sink"]
    if not sink or not carried(sink[0]):
        raise AnalysisBroken("Sink's constructor does not initialise %s from a parameter" % FIELD)
    n = 0
    for f in ctors:
        if "quill::Sink" not in bases_closure(f.cls):
            continue
        bearing = [k for k, p in enumerate(f.rec["params"]) if OPT in (p.get("ty") or "") or
                   any(re.search(r"\b%s\b" % re.escape(c.split("::")[-1]), p.get("ty") or "") for c in cfg_all)]
        if not bearing:
            continue
        n += 1
        ok = set(bearing) <= carried(f)
        ctx.ob("C16.R5b", "%s:override-forwarded" % f.name.replace("quill::", ""), ok,
               "the constructor hands the override pattern options of its parameter(s) %s on to the base constructor argument that reaches "
               "Sink::%s (reaching: %s)" % ([f.rec["params"][k].get("name") or k for k in bearing], FIELD, sorted(carried(f))), fn=f)
    ctx.floor("C16.R5b", "sink constructors that take override-bearing parameters", n, 6)


def r8_threshold_is_call_time(ctx, facts):
    """R8: the logger's threshold is applied where the statement is made and nowhere else. A statement that passed it at the call is in the
    queue; code that runs on the backend thread and looked at the logger's *current* level again would discard (or admit) statements by a
    threshold set after they were made. Who-may-read rule over the resolved program: LoggerBase::log_level is read only through
    get_log_level / should_log_statement, and no function that can run on the backend thread (roles, DESIGN 3.1) calls either."""
    import roles as roles_mod
    from qlib import atomic_op, field_name
    roles, _pr, croots = roles_mod.infer(facts, "A")
    if not croots:
        raise AnalysisBroken("no backend entry point found for the role inference")
    readers = []     # functions that touch the field directly
    for f in facts.fns:
        if f.config != "A":
            continue
        for n in f.walk():
            if n["k"] == "MemberExpr" and n.get("dk") == "Field" and n.get("mname") == "log_level" and "LoggerBase" in (n.get("member") or ""):
                readers.append(f)
                break
    if not readers:
        raise AnalysisBroken("LoggerBase::log_level is accessed by no function: the threshold field was renamed, the rule has to be re-confirmed")
    accessors = set(short(f.name) for f in readers)
    unexpected = sorted(a for a in accessors if not re.search(r"LoggerBase::(get_log_level|set_log_level|LoggerBase)$", a))
    ctx.ob("C16.R8a", "LoggerBase::log_level:accessors", not unexpected,
           "the threshold field is touched only by its getter, its setter and the constructor (also by: %s)" % (unexpected or "nothing else"), fn=readers[0])
    bad = []
    n_backend = 0
    for f in facts.fns:
        if f.config != "A" or "C" not in roles.get(id(f), ()):
            continue
        n_backend += 1
        if re.search(r"LoggerBase::(get_log_level|should_log_statement)$", short(f.name)):
            # reachable only if something on the backend calls it: reported at the caller below
            continue
        for c in f.calls(r"LoggerBase::(get_log_level|should_log_statement)$|LoggerImpl<.*>::should_log_statement$"):
            bad.append("%s at %s" % (short(f.name).replace("quill::", ""), c.get("loc")))
        if f in readers and not re.search(r"LoggerBase::", short(f.name)):
            bad.append("%s reads the field" % short(f.name))
    ctx.floor("C16.R8", "functions that can run on the backend thread", n_backend, 60)
    ctx.ob("C16.R8b", "backend:never-consults-the-logger-threshold", not bad,
           "none of the %d functions that can run on the backend thread asks for the logger's current level: a statement that passed the "
           "threshold when it was made is not discarded (nor one admitted) by a level set afterwards (%s)" % (n_backend, "; ".join(bad) or "no call site"),
           fn=croots[0])


def r7_threshold_and_filter_setters(ctx, facts):
    """R7: what the user sets is what the gate compares with. R7a: Sink::set_log_level_filter / LoggerBase::set_log_level store their
    argument itself into the atomic the gate loads, on every path that does not throw; the getters load that atomic. R7b: add_filter,
    under the filters lock, appends the filter it was given on every path that does not throw and raises the 'new filter' flag after the
    append (the flag is what makes the backend reload its local list); a filter is refused (throw) exactly when one of the same name is
    found. R7c/R7d (apply_all_filters): the local list is rebuilt exactly on the 'flag set' outcome, and a sink whose list is empty
    accepts."""
    def stores_param(fn_name, field, floor=1):
        for f in facts.need(fn_name, "A")[:floor]:
            g = f.g
            p0 = f.rec["params"][0]["did"]
            st = [n for n in f.walk() if (atomic_op(n) or {}).get("kind") == "store" and is_this_field(atomic_op(n)["obj"], field)]
            okv = bool(st) and all(var_ref(strip(atomic_op(n).get("value"), casts=True)) == p0 for n in st)
            thr = [q for x in f.walk() if x["k"] == "CXXThrowExpr" for q in g.positions(x)]
            every = bool(st) and not g.exists_path([g.entry_node], [g.exit_node], avoid_nodes=npos(f, st) + thr)
            ctx.ob("C16.R7a", "%s:stores-argument" % fn_name.replace("quill::", "").replace("detail::", ""), okv and every,
                   "the threshold the gate loads (%s) receives the caller's argument itself on every path that does not throw "
                   "(value is the parameter: %s, on every path: %s)" % (field, okv, every), fn=f)

    def loads_field(fn_name, field):
        f = facts.need(fn_name, "A")[0]
        rets = [f.g.node_ast(r) for r in f.g.return_nodes()]
        ok = bool(rets) and all((atomic_op(strip(r.get("val"), casts=True)) or {}).get("kind") == "load" and
                                is_this_field(atomic_op(strip(r.get("val"), casts=True))["obj"], field) for r in rets)
        ctx.ob("C16.R7a", "%s:loads-threshold" % fn_name.replace("quill::", "").replace("detail::", ""), ok,
               "the getter returns a load of %s" % field, fn=f)
    stores_param("quill::Sink::set_log_level_filter", "_log_level")
    loads_field("quill::Sink::get_log_level_filter", "_log_level")
    stores_param("quill::detail::LoggerBase::set_log_level", "log_level")
    # add_filter
    f = facts.need("quill::Sink::add_filter", "A")[0]
    g = f.g
    p0 = f.rec["params"][0]["did"]
    push = [c for c in f.calls(r"std::vector<std::unique_ptr<quill::Filter.*>::(push_back|emplace_back)$") if is_this_field(call_obj(c), "_global_filters")]
    push_ok = bool(push) and all(any(var_ref(x) == p0 for x in walk(c["args"][0])) for c in push)
    thr = [q for x in f.walk() if x["k"] == "CXXThrowExpr" for q in g.positions(x)]
    pp = npos(f, push)
    every = bool(pp) and not g.exists_path([g.entry_node], [g.exit_node], avoid_nodes=pp + thr)
    flag = [n for n in f.walk() if (atomic_op(n) or {}).get("kind") == "store" and is_this_field(atomic_op(n)["obj"], "_new_filter")]
    flag_true = bool(flag) and all(const_val(atomic_op(n).get("value")) == 1 for n in flag)
    fp = npos(f, flag)
    after = bool(fp) and bool(pp) and not g.exists_path(pp, [g.exit_node], avoid_nodes=fp) and not g.exists_path(fp, pp)
    locks = [d for d in f.var_decls().values() if "LockGuard" in (d.get("ty") or "") and isnode(d.get("init")) and
             any(is_this_field(x, "_global_filters_lock") for x in walk(d["init"]))]
    lockp = g.pos_of(lambda n: isnode(n) and n.get("k") in ("Var", "DeclStmt") and any(d.get("did") in [l.get("did") for l in locks] for d in (n.get("decls") or [n])))
    locked = bool(locks) and bool(lockp) and all(g.dominates(lockp, p) for p in pp)
    ctx.ob("C16.R7b", "Sink::add_filter:appends-then-raises-flag", push_ok and every and flag_true and after and locked,
           "under the filters lock (%s) the filter handed in is appended to the sink's list on every path that does not throw (%s, %s) and "
           "the 'new filter' flag is then set to true on every path (%s, %s)" % (locked, push_ok, every, flag_true, after), fn=f)
    # refusal: exactly when a filter of the same name was found
    lam = [x for x in facts.fns if x.config == "A" and x.rec.get("parent") == f.name]
    same_name = False
    for l in lam:
        rets = [l.g.node_ast(r) for r in l.g.return_nodes()]
        for r in rets:
            v = strip(r.get("val"), casts=True)
            sides = None
            if isnode(v) and v["k"] == "CXXOperatorCallExpr" and re.search(r"operator==", v.get("callee") or "") and len(v["args"]) == 2:
                sides = v["args"]
            elif isnode(v) and v["k"] == "BinaryOperator" and v["op"] == "==":
                sides = [v["lhs"], v["rhs"]]
            if sides and all(any(is_call(x, r"Filter::get_filter_name$") for x in walk(s_)) for s_ in sides):
                same_name = True
    found = []
    for bid, b in g.blocks.items():
        c = g.term_cond(bid)
        nc = eq_kind(c) if c is not None else None
        if nc and any(is_call(x, r"std::vector<.*>::c?end$") for x in walk(c)):
            found.append((bid, "T" if nc[0] == "!=" else "F"))   # label of 'found'
    if not found and not lam:
        # the search written as a loop: range-for over the sink's filter list whose body tests 'same name' (equality of two
        # get_filter_name() results, one of them the visited filter's) and throws on that outcome
        loops = [n for n in f.walk() if n["k"] == "CXXForRangeStmt" and is_this_field(strip(n.get("range")), "_global_filters")]
        if len(loops) == 1:
            lv = loops[0]["loopvar"]["did"]
            for bid, b in g.blocks.items():
                c = g.term_cond(bid)
                if c is None or not in_subtree(c, loops[0].get("body") or {}):
                    continue
                nc = eq_kind(c)
                names = [x for x in walk(c) if is_call(x, r"Filter::get_filter_name$")]
                if nc and len(names) == 2 and any(y["k"] == "DeclRefExpr" and y.get("did") == lv for x in names for y in walk(x)) and \
                        not all(any(y["k"] == "DeclRefExpr" and y.get("did") == lv for y in walk(x)) for x in names):
                    same_name = True
                    found.append((bid, "T" if nc[0] == "==" else "F"))
        if not found:
            raise AnalysisBroken("Sink::add_filter: the duplicate-name test has a shape no accepted idiom covers (no find_if + end() comparison, no loop over the filters): not decided")
        # in the loop form 'not found' is the loop running out: the exit is reached from the loop without a throw only when no test matched
        refuse = bool(thr) and not g.exists_path([g.entry_node], thr, avoid_edges=found) and \
            all(not g.exists_path([y for (y, l2) in g.succ.get(tnode(g, b), ()) if l2 == lab], [g.exit_node], avoid_nodes=thr) for (b, lab) in found)
        ctx.ob("C16.R7b", "Sink::add_filter:refuses-duplicate-name-only", same_name and refuse,
               "the search compares filter names for equality (%s) and the call throws exactly on the 'found' outcome (%s)" % (same_name, refuse), fn=f)
        found = None
    if found is not None:
        refuse = bool(found) and bool(thr) and not g.exists_path([g.entry_node], thr, avoid_edges=found) and \
            all(not g.exists_path([y for (y, l2) in g.succ.get(tnode(g, b), ()) if l2 == lab], [g.exit_node], avoid_nodes=thr) for (b, lab) in found)
        ctx.ob("C16.R7b", "Sink::add_filter:refuses-duplicate-name-only", same_name and refuse,
               "the search compares filter names for equality (%s) and the call throws exactly on the 'found' outcome (%s)" % (same_name, refuse), fn=f)
    # apply_all_filters: reload exactly when the flag is set; an empty list accepts
    a = facts.need("quill::Sink::apply_all_filters", "A")[0]
    g = a.g
    flag_edges = []
    for bid, b in g.blocks.items():
        c = g.term_cond(bid)
        if c is None:
            continue
        core, neg = core_and_neg(c)
        core = strip(core, casts=True)
        if is_call(core, r"__builtin_expect$") and core.get("args"):
            c2, n2 = core_and_neg(strip(core["args"][0], casts=True))
            core, neg = strip(c2, casts=True), neg != n2
        ao = atomic_op(core)
        if ao and ao.get("kind") == "load" and is_this_field(ao["obj"], "_new_filter"):
            flag_edges.append((bid, "F" if neg else "T"))    # label of 'flag set'
    rebuild = npos(a, [c for c in a.calls(r"std::vector<.*>::(push_back|emplace_back)$") if is_this_field(call_obj(c), "_local_filters")])
    lf_clear = npos(a, [c for c in a.calls(r"std::vector<.*>::clear$") if is_this_field(call_obj(c), "_local_filters")])
    uses = npos(a, [c for c in a.calls(r"^std::all_of") ] + [c for c in a.calls(r"std::vector<.*>::empty$") if is_this_field(call_obj(c), "_local_filters")])
    fl = filter_loop(a) if not a.calls(r"^std::all_of") else None
    if fl is not None:
        uses = uses + fl["use"]
    ok = bool(flag_edges) and bool(rebuild) and bool(lf_clear) and bool(uses) and \
        not g.exists_path([g.entry_node], rebuild + lf_clear, avoid_edges=flag_edges) and \
        all(not g.exists_path([y for (y, l2) in g.succ.get(tnode(g, b), ()) if l2 == lab], uses, avoid_nodes=lf_clear) for (b, lab) in flag_edges)
    ctx.ob("C16.R7c", "Sink::apply_all_filters:reload-iff-flag-set", ok,
           "the sink's local filter list is cleared and rebuilt exactly on the 'new filter flag is set' outcome, before the list is consulted", fn=a)
    empt = [(b, t) for (b, t, c) in branches_on_call(a, r"std::vector<.*>::empty$") if is_this_field(call_obj(c), "_local_filters")]
    trues = [p for p in g.return_nodes() if const_val(g.node_ast(p)["val"]) == 1]
    nontrue = [p for p in g.return_nodes() if p not in trues]
    ok = (not empt) or all(not g.exists_path([y for (y, l2) in g.succ.get(tnode(g, b), ()) if l2 == t], nontrue) and
                           not any(y in nontrue for (y, l2) in g.succ.get(tnode(g, b), ()) if l2 == t) for (b, t) in empt)
    ctx.ob("C16.R7d", "Sink::apply_all_filters:no-filter-accepts", ok and (bool(empt) or bool(a.calls(r"^std::all_of")) or (fl is not None and fl["ok"])),
           "a statement that passed the threshold is accepted when the sink has no filter (the 'list is empty' outcome returns true, or "
           "std::all_of / the loop runs over the empty list)", fn=a)
