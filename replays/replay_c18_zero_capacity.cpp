// C18 defect 7: init_backtrace(0) then LOG_BACKTRACE wrote through an empty ring (pre-fix: ASan SEGV in store()).
#include "quill/backend/BacktraceStorage.h"
#include "quill/backend/TransitEvent.h"
#include <cstdio>
int main(){
  quill::detail::BacktraceStorage bs;
  bs.set_capacity(0);
  quill::detail::TransitEvent te;
  bs.store(std::move(te), "tid", "tname");   // pre-fix: assigns to _stored_events[0] of an empty vector
  int n = 0;
  bs.process([&](quill::detail::TransitEvent const&, std::string_view, std::string_view){ ++n; });
  std::printf("replayed %d\n", n);
  return 0;
}
