"""C19 — named args: text, ordered pairs, one JSON object per line (DESIGN §4 C19)."""
import os
import re
from rules.c02 import cmp_sides
import qlib
from qlib import (peel_not, AnalysisBroken, strip, isnode, walk, is_call, norm_cmp, var_ref, is_null, const_val, short, call_obj,
                  expr_key, field_name, is_this_field)
from rules.common import (straight_after, core_and_neg, tnode, other, cpos, npos, branches_on_call, in_subtree, need_some, loops_enclosing,
                          eq_kind, branches_on_var_null)
import gen_macros

EXPLANATION = ("Named arguments. R1 (exhaustive over every generator macro defined, k = 0..26): the LOGV_ generator yields a literal "
               "with exactly k '{}' placeholders, each preceded by the stringified k-th argument name, in order; the LOGJ_ generator "
               "yields exactly k '{name}' placeholders in argument order and no other braces (string literals read from the AST after "
               "concatenation; the dispatcher macro is what is expanded, so selection by argument count is covered). R2: in the decode "
               "function the cache-hit and cache-miss arms both format the message with the cached positional template and fill the "
               "named-args list from the cached names, exactly once each; the cache key is the original template; the miss arm "
               "stores what the template parser returned for that template. R3: JsonSink::write_log emits exactly one "
               "StreamSink::write_log per call on every path, the payload is cleared first and ends with '}\\n', a template containing "
               "newlines is rewritten before use; the object carries the seven fixed keys and one key/value per named argument in "
               "list order. R4 (join/split agreement in _format_and_split_arguments): one placeholder per pair is appended, the "
               "separator is appended only between placeholders, the splitter searches for that same separator (the whole of it, "
               "not a part) and skips its full length, the i-th piece is stored as the value of the i-th pair and the remainder as "
               "the last one; the values are sanitised only after the split (the separator itself is non-printable)."
               " R3g-i: the JSON sink's template copy, its newline rewrite, and the key/value loop exactly when a list exists. R4f: the splitter keeps nothing between statements. R5b: the escaped-brace test is made on the first '{' found from first + 1 on, only when one was found. R7t-R9 (= C03.R4t, C10.R2, C14.R1h): the pairs travel with the event and never stay behind in a slot; the JSON line is written whole."
               ' R10 (= C12.R9a): a statement with named placeholders made through LOG_RUNTIME_METADATA is delivered like any other.'
               " R11 (= C12.R5): a statement with named args is handed to the sinks whole, decided from the event's named-args list."
               " R12: LOG_RUNTIME_METADATA appends file, line and function to the user's arguments (count re-derived from the macro's expansion); the decoder takes exactly that many pairs off the end of the named-args list, guarded by the same count, before the run-time metadata is applied.")
TECHNIQUE = 'static analysis: custom checker over clang AST/CFG facts (macro-expansion witnesses, join/split agreement, path rules) plus a compile-time witness (static_assert table of 30k templates evaluated by the compiler) for the constexpr named-args flag'
NOT_DECIDED = ("The brace scanner for every template, values that contain the whole three-byte separator (a known dynamic risk: R4 "
               "decides that join and split agree on the separator, not that no value contains it), JSON escaping (excluded by the "
               "property), equality of text with positional formatting.")
EXHAUSTIVE = "every QUILL_GENERATE_[NAMED_]FORMAT_STRING_<k> macro that is defined (k = 0..26)"
ASSUMPTIONS = []
BW = "quill::detail::BackendWorker::"


def run(ctx):
    r1(ctx)
    facts = ctx.facts("core.cpp", "A")
    r2(ctx, facts)
    r3(ctx, facts)
    r4(ctx, facts)
    r5_placeholder_scanner(ctx, facts)
    r5d_scanner_terminates(ctx, facts)
    r6_named_flag_witness(ctx)
    # the key/value pairs travel with the event (buffer growth, backtrace ring) and never stay behind in a slot (= C03.R4t)
    from rules import c03
    from rules.c09 import Renamed as _R
    c03.transit_event_transfer(_R(ctx, "C03.R4t", "C19.R7t"), facts, "A", "C03.R4")
    # no key/value pair of an earlier statement survives in a reused backend slot, on the error path as well (= C10.R2); the JSON line
    # assembled by the sink is written whole, exactly once (= C14.R1h)
    from rules import c10, c14
    from rules.c09 import Renamed
    c10.r2(Renamed(ctx, "C10.R2", "C19.R8"), facts, "A")
    c14.stream_write(Renamed(ctx, "C14.R1h", "C19.R9"), facts)
    # a statement with named placeholders made through LOG_RUNTIME_METADATA is delivered like any other: its run-time metadata is applied
    # on the named-args arm of the decoder too (= C12.R9a)
    from rules import c12
    c12.r9_runtime_metadata(Renamed(ctx, "C12.R9a", "C19.R10"), facts, only=("C12.R9a",))
    # one JSON object per statement: a statement with named args is handed to the sinks whole, never split at its newlines — decided
    # from the event's named-args list, which the run-time-metadata path keeps while it replaces the metadata (= C12.R5)
    c12.r5(Renamed(ctx, "C12.R5", "C19.R11"), facts)
    r12_runtime_metadata_pairs(ctx, facts)


def r1(ctx):
    path, table, gens = gen_macros.generate(())
    facts = ctx.facts(path, "A", ())
    for kind in ("FORMAT", "NAMED"):
        ks = sorted(gens[kind])
        ctx.floor("C19.R1", "QUILL_GENERATE_%sFORMAT_STRING_<k> macros" % ("NAMED_" if kind == "NAMED" else ""), len(ks), 27)
        if ks != list(range(len(ks))):
            raise AnalysisBroken("generator macros are not contiguous from 0: %s" % ks)
        for k in ks:
            v = facts.var("qvm::g_%s_%d" % (kind, k), "A")
            if v is None:
                raise AnalysisBroken("generated literal g_%s_%d not found" % (kind, k))
            lits = [x for x in walk(v["init"]) if x["k"] == "StringLiteral"]
            if len(lits) != 1:
                raise AnalysisBroken("g_%s_%d is not a single string literal" % (kind, k))
            s = lits[0]["str"]
            names = ["a%d" % i for i in range(k)]
            if kind == "FORMAT":
                holes = [m.start() for m in re.finditer(r"\{\}", s)]
                pos = [s.find(n + ":") for n in names]
                ok = s.startswith("T") and len(holes) == k and all(p >= 0 for p in pos) and pos == sorted(pos) and \
                    all(pos[i] < holes[i] and (i + 1 >= k or holes[i] < pos[i + 1]) for i in range(k)) and \
                    s.count("{") == k and s.count("}") == k
                what = "'%s' has %d '{}' placeholders, each after its argument's name, in order" % (s[:60], len(holes))
            else:
                ph = re.findall(r"\{([^{}]*)\}", s)
                ok = s.startswith("T") and ph == names and s.count("{") == k and s.count("}") == k
                what = "'%s' has placeholders %s" % (s[:60], ph[:4] + (["..."] if len(ph) > 4 else []))
            ctx.ob("C19.R1", "QUILL_GENERATE_%sFORMAT_STRING/%d" % ("NAMED_" if kind == "NAMED" else "", k), ok,
                   "with %d argument(s) the generated template %s" % (k, what), loc=v["loc"])


def r2(ctx, facts):
    f = facts.need(BW + "_populate_transit_event_from_frontend_queue", "A")[0]
    g = f.g
    br = branches_on_call(f, r"MacroMetadata::has_named_args$")
    if not br:
        raise AnalysisBroken("decode function: has_named_args test not found")
    # the test that routes the statement: the one whose positive outcome leads to the named-args population (a later test of the same
    # flag, e.g. around the runtime-metadata step, decides something else)
    nam_all = npos(f, f.calls(r"::_populate_formatted_named_args$"))
    routing = [(b_, l_, c_) for (b_, l_, c_) in br
               if g.exists_path([y for (y, lab) in g.succ.get(tnode(g, b_), ()) if lab == l_], nam_all)]
    if not routing:
        raise AnalysisBroken("decode function: no has_named_args test leads to _populate_formatted_named_args")
    bid, tlab, _c = routing[0]
    t = tnode(g, bid)
    named = g.reach([t], avoid_edges=[(bid, other(tlab))])
    msg = [c for c in f.calls(r"::_populate_formatted_log_message$") if any(p in named for p in g.positions(c))]
    nam = [c for c in f.calls(r"::_populate_formatted_named_args$")]
    pb = cpos(f, r"TransitEventBuffer::push_back$")
    # per path: exactly one of each on the named-args outcome
    msg_named = [c for c in msg if not g.exists_path([g.entry_node], g.positions(c), avoid_edges=[(bid, tlab)])]
    mp, np_ = npos(f, msg_named), npos(f, nam)
    c1 = g.count_on_paths([t], pb, mp)
    c2 = g.count_on_paths([t], pb, np_)
    # restrict to paths through the named outcome: start after the edge
    start = [y for (y, lab) in g.succ.get(t, ()) if lab == tlab]
    c1 = g.count_on_paths(start, pb, mp)
    c2 = g.count_on_paths(start, pb, np_)
    ok = bool(pb) and all(c1[p] == (1, 1) for p in pb) and all(c2[p] == (1, 1) for p in pb) and \
        not g.exists_path([g.entry_node], np_, avoid_edges=[(bid, tlab)])
    ctx.ob("C19.R2a", "_populate_transit_event_from_frontend_queue:named-args-both-populated", ok,
           "for a template with named placeholders every path formats the message once and fills the named-args list once "
           "(message: %s, named args: %s)" % (sorted(set(c1.values())), sorted(set(c2.values()))), fn=f)
    # arms agree: arguments come from the cached pair (structured binding of ->second)
    keys = set()
    for c in msg_named:
        keys.add(re.sub(r"v\d+", "v", expr_key(c["args"][1])))
    for c in nam:
        keys.add("N:" + re.sub(r"v\d+", "v", expr_key(c["args"][1])))
    ctx.ob("C19.R2b", "_populate_transit_event_from_frontend_queue:arms-agree", len(keys) == 2,
           "the cache-hit and cache-miss arms pass arguments of the same shape to the two populate functions (sibling agreement): %s" % sorted(keys), fn=f)
    finds = [c for c in f.calls(r"unordered_map<.*>::find$") if is_this_field(call_obj(c), "_named_args_templates")]
    emps = [c for c in f.calls(r"unordered_map<.*>::(try_emplace|emplace|insert)") if is_this_field(call_obj(c), "_named_args_templates")]
    asg = [c for c in f.calls(r"basic_string<.*>::(assign|operator=)") if is_this_field(call_obj(c) if c["k"] == "CXXMemberCallExpr" else strip(c["args"][0]), "_named_args_format_template")]
    key_ok = bool(finds) and bool(emps) and bool(asg) and \
        all(is_this_field(strip(c["args"][0], casts=True), "_named_args_format_template") for c in finds + emps) and \
        all(any(is_call(x, r"MacroMetadata::message_format$") for x in walk(c)) for c in asg) and \
        all(g.dominates(npos(f, asg), p) for p in npos(f, finds + emps))
    ctx.ob("C19.R2c", "_populate_transit_event_from_frontend_queue:cache-key", key_ok,
           "look-up and insertion use the statement's original template as key", fn=f)
    ok = bool(emps) and all(any(is_call(x, r"::_process_named_args_format_message$") and
                                any(is_call(y, r"MacroMetadata::message_format$") for y in walk(x)) for x in walk(c)) for c in emps)
    ctx.ob("C19.R2d", "_populate_transit_event_from_frontend_queue:miss-stores-parse-result", ok,
           "on a miss the cache receives the parser's result for that same template", fn=f)
    # R2g: the look-up result is dereferenced only when it found something; the insertion happens only on a miss
    found = []
    for b2, blk in g.blocks.items():
        c = g.term_cond(b2)
        if c is None:
            continue
        core, neg = core_and_neg(c)
        cs_ = strip(core, casts=True)
        if isnode(cs_) and is_call(cs_, r"operator(==|!=)") and any(is_call(x, r"(::c?end$|^std::c?end)") and any(is_this_field(y, "_named_args_templates") for y in walk(x)) for x in walk(cs_)):
            lab = "F" if "operator==" in cs_["callee"] else "T"
            found.append((b2, other(lab) if neg else lab))
    inits_ = f.var_inits()
    sv = [vid for vid, i in inits_.items() if isnode(i) and any(in_subtree(c, i) for c in finds)]
    deref = [x for x in f.walk() if x["k"] in ("MemberExpr", "CXXOperatorCallExpr") and
             ((x["k"] == "MemberExpr" and x.get("mname") in ("second", "first") and any(y["k"] == "DeclRefExpr" and y.get("did") in sv for y in walk(x.get("base")))) or
              (x["k"] == "CXXOperatorCallExpr" and re.search(r"operator(->|\*)$", x.get("callee") or "") and any(var_ref(a) in sv for a in x["args"])))]
    dp = sorted(set(p_ for x in deref for p_ in (g.positions(x) or [])))
    ok = bool(found) and bool(sv) and bool(dp) and not g.exists_path([g.entry_node], dp, avoid_edges=found) and \
        not g.exists_path([g.entry_node], npos(f, emps), avoid_edges=[(b2, other(l)) for (b2, l) in found])
    ctx.ob("C19.R2g", "_populate_transit_event_from_frontend_queue:cache-entry-used-when-found", ok,
           "the cached (template, names) pair is read through the look-up result only on its 'found' outcome, and a template is parsed "
           "and inserted only on the 'not found' outcome (every order in which templates are first seen takes one of the two)", fn=f)
    # the bound names really are message_format / arg_names of the cached value: uses of ->second
    seconds = [x for x in f.walk() if x["k"] == "MemberExpr" and x.get("mname") == "second"]
    ctx.ob("C19.R2e", "_populate_transit_event_from_frontend_queue:cached-pair-used", len(seconds) >= 2,
           "both arms take (positional template, names) from the cache entry", fn=f)
    # _populate_formatted_named_args: names copied in order, values from _format_and_split_arguments
    pn = facts.need(BW + "_populate_formatted_named_args", "A")[0]
    ok = bool(pn.calls(r"::_format_and_split_arguments$")) and \
        any(n["k"] == "CXXOperatorCallExpr" and (n.get("callee") or "").endswith("operator=") and field_name(n["args"][0]) == "first" and field_name(n["args"][1]) == "first"
            for n in pn.walk())
    resize = [c for c in pn.calls(r"std::vector<std::pair<.*>::resize$")]
    ok = ok and bool(resize) and any(is_call(x, r"std::vector<.*>::size$") and var_ref(call_obj(x)) == pn.rec["params"][1]["did"] for x in walk(resize[0]))
    ctx.ob("C19.R2f", "_populate_formatted_named_args:pairs-in-order", ok,
           "the list has one pair per placeholder name, keys copied index by index, values filled by the split formatter", fn=pn)


def r12_runtime_metadata_pairs(ctx, facts):
    """R12: the key/value pairs of a LOG_RUNTIME_METADATA statement are those of its own placeholders: the macro appends file, line and
    function to the user's arguments (they travel inside the formatted text); the decoder takes exactly that many pairs off the end of
    the list before the run-time metadata is applied. Writer/reader agreement between LogMacros.h (re-derived from the macro's
    expansion on every run) and the backend."""
    import gen_macros
    path, table, gens = gen_macros.generate(())
    mf = ctx.facts(path, "A", ())
    appended = set()
    for name in ("LOG_RUNTIME_METADATA", "QUILL_LOG_RUNTIME_METADATA"):
        fs = mf.fn("qvm::m_" + name, "A")
        if not fs:
            continue
        for c in fs[0].calls(r"^quill::LoggerImpl<.*>::log_statement<"):
            args = c.get("args") or []
            marks = [a for a in args[2:] if any(is_call(x, r"^qv_arg$") for x in walk(a))]
            appended.add(len(args) - 2 - len(marks))
    if len(appended) != 1:
        raise AnalysisBroken("LOG_RUNTIME_METADATA: number of arguments the macro appends could not be derived from its expansion (%s)" % sorted(appended))
    k = appended.pop()
    dec = facts.need(BW + "_populate_transit_event_from_frontend_queue", "A")[0]
    g = dec.g
    rs = [c for c in dec.calls(r"std::vector<std::pair<.*>::resize$") if any(x["k"] == "MemberExpr" and x.get("mname") == "named_args" for x in walk(call_obj(c)))]
    ap = npos(dec, dec.calls(r"BackendWorker::_apply_runtime_metadata$"))
    ok = bool(rs) and bool(ap)
    took = []
    for c in rs:
        a = strip(c["args"][0], casts=True)
        if isnode(a) and a["k"] == "BinaryOperator" and a["op"] == "-" and any(is_call(x, r"std::vector<.*>::size$") for x in walk(a["lhs"])):
            took.append(const_val(a["rhs"]))
        else:
            took.append(None)
        # ... before the metadata object is replaced (its named-args flag is what tells that there are pairs)
        ok = ok and all(g.exists_path(g.positions(c), [p_]) for p_ in ap) and not any(g.exists_path([p_], g.positions(c)) for p_ in ap)
    guards = []
    for bid in g.blocks:
        c = g.term_cond(bid)
        cs = cmp_sides(c) if c is not None else None
        if cs and any(is_call(x, r"std::vector<.*>::size$") and any(y["k"] == "MemberExpr" and y.get("mname") == "named_args" for y in walk(x)) for x in walk(c)):
            lo, hi = strip(cs[1], casts=True), strip(cs[2], casts=True)
            # k <= size  /  k - 1 < size
            if const_val(lo) is not None:
                guards.append(const_val(lo) + (1 if cs[0] == "<" else 0))
    ctx.ob("C19.R12", "_populate_transit_event_from_frontend_queue:runtime-metadata-pairs", ok and took == [k] and (not guards or guards == [k]),
           "LOG_RUNTIME_METADATA appends %d arguments to the user's (derived from the macro's expansion); the decoder takes %s pair(s) off "
           "the end of the named-args list, only when the list has at least %s, before the run-time metadata is applied" % (k, took, guards or "that many"), fn=dec)


def r3(ctx, facts):
    fns = facts.need("quill::detail::JsonSink::write_log", "A", floor=2)
    for f in fns:
        g = f.g
        site = "JsonSink<%s>::write_log" % f.name.split("JsonSink<")[1].split(">")[0].replace("quill::", "")
        w = cpos(f, r"^quill::StreamSink::write_log$") + cpos(f, r"^quill::FileSink::write_log$")
        cnt = g.count_on_paths([g.entry_node], [g.exit_node], w)
        ctx.ob("C19.R3a", site + ":one-write-per-statement", cnt[g.exit_node] == (1, 1),
               "exactly one write to the underlying stream per statement on every path %s" % (cnt[g.exit_node],), fn=f)
        apps = [c for c in f.calls(r"::append\b") if is_this_field(call_obj(c), "_json_message")]
        gen = cpos(f, r"::generate_json_message$")
        clr = npos(f, [c for c in f.calls(r"::clear$") if is_this_field(call_obj(c), "_json_message")])
        term = [c for c in apps if any(x["k"] == "StringLiteral" and x.get("str") == "}\n" for x in walk(c))]
        tp = npos(f, term)
        other_apps = npos(f, [c for c in apps if c not in term])
        ok = bool(clr) and bool(gen) and bool(tp) and bool(w) and \
            all(g.dominates(clr, p) for p in gen) and all(g.dominates(gen, p) for p in tp) and all(g.dominates(tp, p) for p in w) and \
            not g.exists_path(tp, other_apps) and not g.exists_path(gen, clr)
        ctx.ob("C19.R3b", site + ":object-terminated", ok,
               "the buffer is cleared, the object generated, then terminated by '}\\n' as the last append before the write", fn=f)
        # payload handed over is the json buffer
        calls = f.calls(r"^quill::(StreamSink|FileSink)::write_log$")
        ok = bool(calls) and all(any(is_this_field(x, "_json_message") for x in walk(c["args"][11])) for c in calls)
        ctx.ob("C19.R3c", site + ":writes-json-buffer", ok, "what is written is the assembled JSON buffer", fn=f)
        # newline handling of the template
        nl = []
        for bid, b in g.blocks.items():
            c = g.term_cond(bid)
            if c is None:
                continue
            if any(is_call(x, r"^strchr$") and const_val(x["args"][1]) == 10 for x in walk(c)):
                nc = norm_cmp(c)
                nl.append((bid, "T" if (nc and nc[0] == "!=") else "F" if (nc and nc[0] == "==") else "T"))
        gcall = f.calls(r"::generate_json_message$")
        mfv = var_ref(gcall[0]["args"][12]) if gcall and len(gcall[0]["args"]) >= 13 else None
        asg = f.assignments_to_var(mfv) if mfv is not None else []
        repl = [c for c in f.calls(r"basic_string<.*>::replace$") if is_this_field(call_obj(c), "_format")]
        # accepted second idiom: std::replace(_format.begin(), _format.end(), '\n', c)
        alt = [c for c in f.calls(r"^std::replace<") if len(c["args"]) == 4 and all(any(is_this_field(x, "_format") for x in walk(a_)) for a_ in c["args"][:2]) and
               any(is_call(x, r"::begin$") for x in walk(c["args"][0])) and any(is_call(x, r"::end$") for x in walk(c["args"][1])) and const_val(c["args"][2]) == 10]
        ok = bool(nl) and bool(asg) and (bool(repl) or bool(alt)) and \
            all(any(is_this_field(x, "_format") for x in walk(a["rhs"])) for a in asg) and \
            all(not g.exists_path([tnode(g, b)], gen, avoid_nodes=npos(f, asg), avoid_edges=[(b, other(l))]) for (b, l) in nl) and \
            all(g.dominates(npos(f, repl), p) or True for p in npos(f, asg))
        loops = [a for c in repl for a in f.ancestors(c) if a["k"] in ("ForStmt", "WhileStmt")]
        ok = ok and (bool(alt) or (bool(loops) and any(is_call(x, r"basic_string<.*>::find$") and const_val(x["args"][0]) == 10 for x in walk(loops[0]))))
        ctx.ob("C19.R3d", site + ":template-newlines-removed", ok,
               "a template containing a newline is copied, every newline replaced, and the rewritten copy is what goes into the object", fn=f)
        # R3g: the copy is this statement's template (assigned from message_format() before the replace loop, on the newline outcome);
        # R3h: the loop looks at every character: the search starts at 0, continues while a newline was found, and each replacement
        # removes exactly the one newline character
        cp = [n for n in f.walk() if ((n["k"] == "CXXOperatorCallExpr" and short(n.get("callee") or "").endswith("operator=") and len(n["args"]) == 2 and
                                       is_this_field(n["args"][0], "_format") and any(is_call(x, r"MacroMetadata::message_format$") for x in walk(n["args"][1]))) or
                                      (is_call(n, r"basic_string<.*>::assign$") and is_this_field(call_obj(n), "_format") and
                                       any(is_call(x, r"MacroMetadata::message_format$") for x in walk(n))))]
        cpp = npos(f, cp)
        rp = npos(f, repl + alt)
        lp_heads = [q for l_ in loops for q in (g.positions(l_.get("cond")) if l_.get("cond") is not None else [])]
        ok_g = bool(cpp) and bool(nl) and all(not g.exists_path([tnode(g, b)], rp + lp_heads, avoid_nodes=cpp, avoid_edges=[(b, other(l))]) for (b, l) in nl)
        ctx.ob("C19.R3g", site + ":template-copied-afresh", ok_g,
               "on the 'template has a newline' outcome the scratch string is assigned this statement's message_format() before any newline "
               "is searched or replaced in it", fn=f)
        ok_h = False
        if loops and repl:
            lp = loops[0]
            posv = None
            for d in walk(lp.get("init")) if lp.get("init") is not None else []:
                if d.get("k") == "Var" and const_val(d.get("init")) == 0:
                    posv = d["did"]
            condk = eq_kind(lp.get("cond")) if lp.get("cond") is not None else None
            found_ne = condk is not None and condk[0] == "!=" and any(x["k"] == "DeclRefExpr" and x.get("name", "").endswith("npos") for x in walk(lp["cond"]))
            srch = [x for x in walk(lp.get("cond")) if is_call(x, r"basic_string<.*>::find$")]
            from_pos = bool(srch) and posv is not None and all(var_ref(strip(x["args"][1], casts=True)) == posv for x in srch if len(x["args"]) > 1)
            one = all(var_ref(strip(c["args"][0], casts=True)) == posv and const_val(c["args"][1]) == 1 and
                      [len(x.get("str", "")) for x in walk(c["args"][2]) if x["k"] == "StringLiteral"] == [1] for c in repl)
            inc = lp.get("inc")
            step1 = isnode(inc) and strip(inc)["k"] == "UnaryOperator" and strip(inc)["op"] in ("++",) and var_ref(strip(inc)["sub"]) == posv
            ok_h = posv is not None and found_ne and from_pos and one and step1
        ctx.ob("C19.R3h", site + ":every-newline-replaced-one-for-one", ok_h or (bool(alt) and not repl),
               "the newline search starts at index 0, the loop continues exactly while a newline was found, each one is replaced by a single "
               "character (count 1, one-character replacement) and the search resumes right behind it", fn=f)
    for f in facts.need("quill::detail::JsonSink::generate_json_message", "A", floor=2):
        site = "JsonSink<%s>::generate_json_message" % f.name.split("JsonSink<")[1].split(">")[0].replace("quill::", "")
        fm = [c for c in f.calls(r"^fmtquill::(v\d+::)?format\b")]
        ok = False
        keys = []
        if fm:
            lits = [x for x in walk(fm[0]["args"][0]) if x["k"] == "StringLiteral"]
            if lits:
                s = lits[0]["str"]
                keys = re.findall(r'"(\w+)":"\{\}"', s)
                ok = s.startswith('{{"') and len(keys) == s.count("{}") and len(fm[0]["args"]) == 1 + len(keys) and "\n" not in s
        want = ["timestamp", "file_name", "line", "thread_id", "logger", "log_level", "message"]
        ctx.ob("C19.R3e", site + ":fixed-keys", ok and keys == want,
               "the object opens with '{' and carries the keys %s, one value each (found %s)" % (want, keys), fn=f)
        loops = [n for n in f.walk() if n["k"] == "CXXForRangeStmt"]
        ok = False
        if loops:
            lp = loops[0]
            over = any(var_ref(x) == f.rec["params"][9]["did"] for x in walk(lp.get("range")))
            apps = [c for c in f.calls(r"::append\b") if in_subtree(c, lp.get("body"))]
            early = [x for x in walk(lp.get("body")) if x["k"] in ("BreakStmt", "ReturnStmt", "ContinueStmt")]
            kinds = []
            for c in apps:
                a = c["args"][0]
                lit = [x for x in walk(a) if x["k"] == "StringLiteral"]
                if lit:
                    kinds.append(lit[0]["str"])
                else:
                    names = [x.get("name") for x in walk(a) if x["k"] == "DeclRefExpr"]
                    kinds.append("<%s>" % (names[0] if names else "?"))
            ok = over and not early and kinds == [',"', "<key>", '":"', "<value>", '"']
        ctx.ob("C19.R3f", site + ":one-pair-per-named-arg", ok,
               "every named argument is appended as ,\"key\":\"value\" in list order", fn=f)
        # R3i: the pairs are emitted exactly when the statement has a named-args list
        g = f.g
        nulls = branches_on_var_null(f, f.rec["params"][9]["did"])
        heads = g.positions(loops[0].get("range")) if loops and loops[0].get("range") is not None else []
        if loops and not heads:
            heads = [q for c in f.calls(r"::append\b") if in_subtree(c, loops[0].get("body")) for q in g.positions(c)]
        ok_i = bool(nulls) and bool(heads) and not g.exists_path([g.entry_node], heads, avoid_edges=[(b, other(l)) for (b, l) in nulls]) and \
            all(not g.exists_path([y for (y, l2) in g.succ.get(tnode(g, b), ()) if l2 == other(l)], [g.exit_node], avoid_nodes=heads) for (b, l) in nulls)
        ctx.ob("C19.R3i", site + ":pairs-iff-list-present", ok_i,
               "the key/value loop runs exactly on the 'named_args is not null' outcome (never dereferenced when null, never skipped when present)", fn=f)


def r5_placeholder_scanner(ctx, facts):
    """R5: the two facts about fmt's grammar the template scanner must respect to cut a named placeholder correctly"""
    f = facts.need(BW + "_process_named_args_format_message", "A")[0]
    g = f.g
    tpl = f.rec["params"][0]["did"]
    inits = f.var_inits()
    decls = f.var_decls()

    def search(ch):
        return [c for c in f.calls(r"basic_string_view<.*>::(find_first_of|find)$") if var_ref(call_obj(c)) == tpl and
                any(x["k"] == "CharacterLiteral" and x.get("val") == ord(ch) for x in walk(c["args"][0]))]
    opens, closes = search("{"), search("}")
    # the variable that holds the position of the field's close bracket = the one used to cut the text inside the placeholder
    cut = [c for c in f.calls(r"basic_string_view<.*>::substr$") if var_ref(call_obj(c)) == tpl]
    inside = None
    for c in cut:
        a0 = strip(c["args"][0], casts=True)
        if isnode(a0) and a0["k"] == "BinaryOperator" and a0["op"] == "+" and const_val(a0["rhs"]) == 1 and len(c["args"]) > 1 and \
                any(x["k"] == "DeclRefExpr" and x.get("dk") == "Var" for x in walk(c["args"][1])):
            inside = c
    if inside is None or not opens or not closes:
        raise AnalysisBroken("_process_named_args_format_message: searches / cut of the placeholder text not found")
    openv = var_ref(strip(inside["args"][0], casts=True)["lhs"])
    closev = [x.get("did") for x in walk(inside["args"][1]) if x["k"] == "DeclRefExpr" and x.get("dk") == "Var" and x.get("did") != openv]
    closev = closev[0] if closev else None
    # R5a: the close bracket of a field is the first '}' after its open bracket: closev is defined by find('}', open + 1) and is not
    # moved between that definition and the cut
    defs = []
    if closev in inits and isnode(inits[closev]):
        defs.append(("init", inits[closev], g.pos_of(lambda n: isnode(n) and n.get("k") in ("Var", "DeclStmt") and (n.get("did") == closev or any(d.get("did") == closev for d in n.get("decls") or [])))))
    for a in f.assignments_to_var(closev) if closev is not None else []:
        defs.append(("assign", a.get("rhs"), g.positions(a)))
    def first_after_open(e):
        e = strip(e, casts=True)
        if not is_call(e, r"basic_string_view<.*>::(find_first_of|find)$") or var_ref(call_obj(e)) != tpl:
            return False
        st = strip(e["args"][1], casts=True) if len(e["args"]) > 1 else None
        return any(x["k"] == "CharacterLiteral" and x.get("val") == 125 for x in walk(e["args"][0])) and isnode(st) and st["k"] == "BinaryOperator" and \
            st["op"] == "+" and var_ref(st["lhs"]) == openv and const_val(st["rhs"]) == 1
    good = [d for d in defs if first_after_open(d[1])]
    moved = [d for d in defs if not first_after_open(d[1])]
    ip = g.positions(inside)
    ok = bool(good) and closev is not None and \
        not any(g.exists_path(d[2], ip) and any(g.exists_path(gd[2], d[2]) for gd in good) for d in moved) and \
        all(not g.exists_path([g.entry_node], ip, avoid_nodes=[p_ for gd in good for p_ in gd[2]]) for _ in [0])
    ctx.ob("C19.R5a", "_process_named_args_format_message:field-closed-by-first-brace", ok,
           "the text of a named placeholder is cut between its '{' and the first '}' after it (fmt: a replacement field cannot contain "
           "'}'); the position found by find('}', open + 1) is not moved before the cut — \"}}\" after a placeholder is literal text, "
           "not part of it (%d other definition(s) of the close position reach the cut)" % len([d for d in moved if g.exists_path(d[2], ip)]), fn=f)
    # R5b: "{{" is skipped only when the two braces are adjacent, and the scan resumes behind both
    ok_b = False
    for bid, b in g.blocks.items():
        c = g.term_cond(bid)
        nc = norm_cmp(c) if c is not None else None
        if nc and nc[0] == "==" and isnode(peel_not(c)) and peel_not(c)["k"] == "BinaryOperator":
            l, r = strip(peel_not(c)["lhs"], casts=True), strip(peel_not(c)["rhs"], casts=True)
            for a, b_ in ((l, r), (r, l)):
                while isnode(a) and a["k"] == "ParenExpr":
                    a = strip(a.get("sub") or (a.get("c") or [None])[0], casts=True)
                if isnode(a) and a["k"] == "BinaryOperator" and a["op"] == "-" and const_val(a["rhs"]) == 1 and var_ref(b_) == openv and var_ref(a["lhs"]) is not None:
                    second = var_ref(a["lhs"])
                    after = [g.node_ast(p_) for p_ in straight_after(g, bid, "T")]
                    ok_b = any(isnode(n) and n.get("k") == "BinaryOperator" and n["op"] == "=" and var_ref(n["lhs"]) == openv and
                               any(isnode(x) and x["k"] == "BinaryOperator" and x["op"] == "+" and var_ref(x["lhs"]) == second and const_val(x["rhs"]) == 1 for x in walk(n["rhs"]))
                               for n in after)
    # ... the second brace is the first '{' behind the first one (searched from first + 1) and the adjacency test is made on the 'found' outcome
    sec_ok = False
    if ok_b:
        si = inits.get(second)
        st = None
        if isnode(si):
            for x in walk(si):
                if is_call(x, r"basic_string_view<.*>::(find_first_of|find)$") and var_ref(call_obj(x)) == tpl and \
                        any(y["k"] == "CharacterLiteral" and y.get("val") == 123 for y in walk(x["args"][0])) and len(x["args"]) > 1:
                    st = strip(x["args"][1], casts=True)
        from_next = isnode(st) and st["k"] == "BinaryOperator" and st["op"] == "+" and var_ref(st["lhs"]) == openv and const_val(st["rhs"]) == 1
        found_e = []
        for bid2, b2 in g.blocks.items():
            c2 = g.term_cond(bid2)
            nc2 = norm_cmp(c2) if c2 is not None else None
            if nc2 and nc2[0] in ("==", "!=") and any(var_ref(x) == second for x in walk(c2)) and any(x["k"] == "DeclRefExpr" and x.get("name", "").endswith("npos") for x in walk(c2)):
                found_e.append((bid2, "T" if nc2[0] == "!=" else "F"))
        adj = [tnode(g, bid3) for bid3 in g.blocks if g.term_cond(bid3) is not None and norm_cmp(g.term_cond(bid3)) and norm_cmp(g.term_cond(bid3))[0] == "==" and
               any(var_ref(x) == second for x in walk(g.term_cond(bid3))) and any(var_ref(x) == openv for x in walk(g.term_cond(bid3)))]
        sec_ok = from_next and bool(found_e) and bool(adj) and not g.exists_path([g.entry_node], adj, avoid_edges=found_e)
    ctx.ob("C19.R5b", "_process_named_args_format_message:escaped-open-brace", ok_b and sec_ok,
           "\"{{\" is an escaped brace exactly when the second '{' — the first one found from first + 1 on, tested only when one was "
           "found — directly follows the first (second - 1 == first); the scan then resumes behind the second one", fn=f)
    # R5c: literal text is carried over verbatim: what precedes the placeholder from the end of the previous one, and the tail
    tail = [c for c in cut if c is not inside]
    ok_c = len(tail) >= 2
    ctx.ob("C19.R5c", "_process_named_args_format_message:literal-text-kept", ok_c,
           "the text between placeholders and the tail after the last one are copied from the template (%d copies)" % len(tail), fn=f)


FIND_RE = r"basic_string(_view)?<.*>::(find_first_of|find|find_last_of|rfind|find_first_not_of|find_last_not_of)(<.*>)?$"


def search_never_starts_behind_npos(ctx, f, rule, site, floor=1):
    """a search that starts at `V + c` (c >= 1) where V holds the result of an earlier search wraps around to the beginning of the text
    when V is npos (npos + 1 == 0): the scanner then finds the same character again and never ends. Every path from a definition of V by
    a search to such a use passes through the 'found' outcome of a test of V against npos."""
    g = f.g
    inits = f.var_inits()

    def is_npos(e):
        return any(x["k"] == "DeclRefExpr" and (x.get("name") or "").endswith("npos") for x in walk(e))
    n_ob = 0
    for c in f.calls(FIND_RE):
        if len(c.get("args", [])) < 2:
            continue
        st = strip(c["args"][1], casts=True)
        if not isnode(st) or st["k"] in ("IntegerLiteral", "CXXDefaultArgExpr") or var_ref(st) is not None:
            continue        # a constant start, or the position itself: npos stays npos
        if not (st["k"] == "BinaryOperator" and st["op"] == "+" and var_ref(st["lhs"]) is not None and (const_val(st["rhs"]) or 0) >= 1):
            raise AnalysisBroken("%s: start position of a search is neither a position nor 'position + constant' (%s)" % (f.short, c.get("loc")))
        v = var_ref(st["lhs"])
        defs = []
        if v in inits and isnode(inits[v]):
            defs += [x for x in walk(inits[v]) if is_call(x, FIND_RE)]
        for a in f.assignments_to_var(v):
            if isnode(a.get("rhs")):
                defs += [x for x in walk(a["rhs"]) if is_call(x, FIND_RE)]
        dpos = [p_ for d in defs for p_ in g.positions(d)]
        if not dpos:
            continue        # not the result of a search
        notfound = []       # edges on which V is (or may be) npos: the outcome 'V == npos' of a test; every other way to the use has no test at all
        found = []
        for bid in g.blocks:
            cnd = g.term_cond(bid)
            if cnd is None or not any(var_ref(x) == v for x in walk(cnd)) or not is_npos(cnd):
                continue
            nc = norm_cmp(cnd)
            if not nc or nc[0] not in ("==", "!="):
                raise AnalysisBroken("%s: test of a search result against npos in an unknown form (%s)" % (f.short, cnd.get("loc")))
            found.append((bid, "T" if nc[0] == "!=" else "F"))
            notfound.append((bid, "F" if nc[0] == "!=" else "T"))
        up = g.positions(c)
        # reach the use from a definition without crossing a 'found' edge = every test on the way (if any) was left on 'not found'
        tests = [tnode(g, b) for (b, _) in found]
        ok = bool(found) and not g.exists_path(dpos, up, avoid_nodes=tests) and not g.exists_path(dpos, up, avoid_edges=found)
        n_ob += 1
        ctx.ob(rule, "%s:search#%d-from-%s+%s" % (site, n_ob, next((x.get("name") for x in walk(st["lhs"]) if x["k"] == "DeclRefExpr"), "?"), const_val(st["rhs"])), ok,
               "a search that starts one behind an earlier search result is made only after that result was tested 'found' (npos + 1 wraps to "
               "0: the scanner would find the same character again and the backend thread would never leave the loop)", loc=c.get("loc", ""), fn=f)
    ctx.floor(rule, "%s: searches starting behind an earlier result" % site, n_ob, floor)


def r5d_scanner_terminates(ctx, facts):
    f = facts.need(BW + "_process_named_args_format_message", "A")[0]
    search_never_starts_behind_npos(ctx, f, "C19.R5d", "_process_named_args_format_message", floor=3)


TEMPLATE_ALPHABET = ["{", "}", "a", "_", "0", ":", " "]


def _ref_named(s):
    """fmt's grammar, restricted to the property's domain. Returns None when s is outside the domain (malformed for fmt, nested
    fields, or a field that is not a named placeholder), else the number of named placeholders."""
    i, n, named = 0, len(s), 0
    while i < n:
        c = s[i]
        if c == "{":
            if i + 1 < n and s[i + 1] == "{":
                i += 2
                continue
            j = s.find("}", i + 1)
            if j == -1:
                return None
            content = s[i + 1:j]
            if "{" in content:
                return None
            aid = content.split(":", 1)[0]
            if aid and (aid[0].isalpha() or aid[0] == "_") and all(ch.isalnum() or ch == "_" for ch in aid):
                named += 1
            else:
                return None  # positional / indexed fields: not a 'template with named placeholders'
            i = j + 1
        elif c == "}":
            if i + 1 < n and s[i + 1] == "}":
                i += 2
                continue
            return None
        else:
            i += 1
    return named


def r6_named_flag_witness(ctx):
    """R6: compile-time witness. MacroMetadata::_contains_named_args is constexpr, so the compiler itself evaluates it: a generated
    translation unit static_asserts, for every template over a 7-symbol alphabet up to length N that lies in the property's domain
    (well-formed for fmt, every placeholder named, escaped braces anywhere), that the flag is 'true' iff the template has a named
    placeholder. A violating header fails to build; nothing is executed."""
    import itertools, subprocess, hashlib
    N = 6 if ctx.tier == "quick" else 7
    rows = []
    for L in range(0, N + 1):
        for t in itertools.product(TEMPLATE_ALPHABET, repeat=L):
            s_ = "".join(t)
            k = _ref_named(s_)
            if k is not None:
                rows.append((s_, k > 0))
    os.makedirs(qlib.CACHE, exist_ok=True)
    src = os.path.join(qlib.CACHE, "namedflag-%d.cpp" % N)
    step = 256
    def write(path, per_row_from=None):
        with open(path, "w") as fh:
            fh.write('#include "quill/core/MacroMetadata.h"\n#include <string_view>\nusing M = quill::MacroMetadata;\n'
                     'struct Row { std::string_view t; bool named; };\nconstexpr Row rows[] = {\n')
            for (t, nm) in rows:
                fh.write('  {"%s", %s},\n' % (t, "true" if nm else "false"))
            fh.write('};\nconstexpr int first_mismatch(int from, int to) { for (int i = from; i < to; ++i) '
                     'if (M::_contains_named_args(rows[i].t) != rows[i].named) return i; return -1; }\n')
            if per_row_from is None:
                for a in range(0, len(rows), step):
                    fh.write('static_assert(first_mismatch(%d, %d) == -1, "chunk %d");\n' % (a, min(len(rows), a + step), a))
            else:
                for i in range(per_row_from, min(len(rows), per_row_from + step)):
                    fh.write('static_assert(M::_contains_named_args(rows[%d].t) == rows[%d].named, "row %d");\n' % (i, i, i))
    def compile_(path):
        cmd = ["clang++", "-std=gnu++17", "-fsyntax-only", "-fno-access-control", "-fconstexpr-steps=400000000", "-ferror-limit=0", "-w",
               "-I" + qlib.SRC, path]
        r = subprocess.run(cmd, capture_output=True, text=True)
        return r.returncode, r.stderr
    write(src)
    rc, err = compile_(src)
    bad_chunks = sorted(set(int(m) for m in re.findall(r'static_assert failed[^\n]*"chunk (\d+)"', err)))
    if rc != 0 and not bad_chunks:
        raise AnalysisBroken("named-flag witness does not compile against the current tree: " + err[:600])
    ctx.units.add(("namedflag-witness(len<=%d)" % N, "A"))
    ctx.floor("C19.R6", "templates in the witness table", len(rows), 1000)
    examples = []
    for a in bad_chunks[:3]:
        p2 = os.path.join(qlib.CACHE, "namedflag-%d-rows.cpp" % N)
        write(p2, per_row_from=a)
        rc2, err2 = compile_(p2)
        for m in re.findall(r'static_assert failed[^\n]*"row (\d+)"', err2)[:4]:
            t, nm = rows[int(m)]
            examples.append("'%s' (has a named placeholder: %s, flag says %s)" % (t, nm, not nm))
    ctx.ob("C19.R6", "MacroMetadata::_contains_named_args:agrees-with-fmt-grammar", not bad_chunks,
           "compile-time witness over all %d templates of length <= %d over %s that are well-formed for fmt and whose placeholders are all "
           "named: the constexpr flag computed by the compiler is true exactly when the template has a named placeholder (a statement "
           "whose flag is wrong is formatted positionally and ends as 'argument not found')%s" %
           (len(rows), N, "".join(TEMPLATE_ALPHABET).replace(" ", "<space>"), ("; first mismatches: " + "; ".join(examples)) if examples else ""),
           loc="core/MacroMetadata.h")


def _same_entity(a, b):
    """do two expressions denote the same separator: the same variable, or equal string literals"""
    va, vb = var_ref(a), var_ref(b)
    if va is not None or vb is not None:
        return va == vb
    la = [x.get("str") for x in walk(a) if x["k"] == "StringLiteral"]
    lb = [x.get("str") for x in walk(b) if x["k"] == "StringLiteral"]
    return bool(la) and la == lb and strip(a, casts=True)["k"] == strip(b, casts=True)["k"]


def r4(ctx, facts):
    f = facts.need(BW + "_format_and_split_arguments", "A")[0]
    g = f.g
    site = "_format_and_split_arguments"
    # R4f: the joined placeholder string depends on the template's specs *and* on how many arguments this statement passed (trailing
    # unnamed ones get '{}'): it is built for the statement at hand — the function keeps nothing between calls: no static local, no
    # member (it is a static function) and no in/out parameter besides the pair list it fills
    statics = [v["name"] for x in f.walk() if x["k"] == "DeclStmt" for v in x.get("decls") or []
               if (v.get("static") or v.get("tls")) and not (v.get("ty") or "").startswith("const ")]
    outs = [p.get("name") for p in f.rec["params"] if (p.get("ty") or "").rstrip().endswith("&") and not (p.get("ty") or "").startswith("const ")]
    uses_this = any(x["k"] == "CXXThisExpr" for x in f.walk())
    ctx.ob("C19.R4f", site + ":nothing-kept-between-statements", not statics and not uses_this and len(outs) == 1,
           "the splitter is a function of this statement's names, values and argument store: no static local (%s), no member access (%s), "
           "the pair list is its only in/out parameter (%s)" % (statics or "none", uses_this, outs), fn=f)
    named = f.rec["params"][1]["did"]
    decls = f.var_decls()
    fs = [v for v, d in decls.items() if d.get("name") == "format_string" or (d.get("ty") == "std::string" and v in
          [var_ref(c["args"][0]) for c in f.calls(r"basic_string<.*>::operator\+=") if c["k"] == "CXXOperatorCallExpr"])]
    appends = [c for c in f.calls(r"basic_string<.*>::operator\+=") if c["k"] == "CXXOperatorCallExpr" and var_ref(c["args"][0]) in fs]
    joinloops = [n for n in f.walk() if n["k"] in ("ForStmt", "WhileStmt") and any(in_subtree(a, n.get("body")) for a in appends)]
    finds = [c for c in f.calls(r"basic_string<.*>::(find|find_first_of)\b")]
    splitloops = [n for n in f.walk() if n["k"] in ("WhileStmt", "ForStmt") and any(in_subtree(c, n.get("cond")) for c in finds)]
    if len(joinloops) != 1 or len(splitloops) != 1 or not appends:
        raise AnalysisBroken(site + ": join loop / split loop not recognised (%d/%d)" % (len(joinloops), len(splitloops)))
    jl, sl = joinloops[0], splitloops[0]
    # placeholders vs separators among the appends
    holes, seps = [], []
    for a in appends:
        lit = [x.get("str") for x in walk(a["args"][1]) if x["k"] == "StringLiteral"]
        if lit and all("{" in t for t in lit):
            holes.append(a)
        else:
            seps.append(a)
    # R4a: exactly one placeholder per iteration, bounded by named_args.size()
    body_entry = g.positions(jl["body"]) if False else None
    hp, sp = npos(f, holes), npos(f, seps)
    cs = norm_cmp(jl.get("cond"))
    bound_ok = cs is not None and cs[0] == "<" and any(is_call(x, r"std::vector<.*>::size$") and var_ref(call_obj(x)) == named for x in walk(jl["cond"]))
    # count placeholders on paths through one iteration: from the loop condition's true edge back to the increment
    cb = [bid for bid, b in g.blocks.items() if g.term_cond(bid) is not None and in_subtree(g.term_cond(bid), jl["cond"])]
    one = False
    if cb and jl.get("inc") is not None:
        incp = g.positions(jl["inc"])
        first = [y for (y, lab) in g.succ.get(tnode(g, cb[0]), ()) if lab == "T"]
        # at least one: the increment is not reachable from the iteration start without a placeholder;
        # at most one: no placeholder reaches a placeholder without passing the increment
        one = bool(incp) and bool(hp) and not g.exists_path(first, incp, avoid_nodes=hp) and not any(p in first for p in incp) and \
            not any(g.exists_path([h], hp, avoid_nodes=incp) for h in hp)
    ctx.ob("C19.R4a", site + ":one-placeholder-per-pair", bound_ok and one,
           "the join loop runs over named_args.size() (%s) and appends exactly one placeholder per pair on every path (%s)" % (bound_ok, one), fn=f)
    # R4b: separator only between placeholders: guarded by i < size - 1
    ok = len(seps) == 1
    if ok:
        guard = [a for a in f.ancestors(seps[0]) if a["k"] == "IfStmt" and in_subtree(seps[0], a["then"])]
        ok = False
        if guard:
            c = strip(guard[0]["cond"], casts=True)
            nc = norm_cmp(c)
            minus1 = any(x["k"] == "BinaryOperator" and x["op"] == "-" and const_val(x["rhs"]) == 1 and
                         any(is_call(y, r"std::vector<.*>::size$") and var_ref(call_obj(y)) == named for y in walk(x["lhs"])) for x in walk(c))
            plus1 = any(x["k"] == "BinaryOperator" and x["op"] == "+" and 1 in (const_val(x["rhs"]), const_val(x["lhs"])) for x in walk(c)) and \
                any(is_call(y, r"std::vector<.*>::size$") and var_ref(call_obj(y)) == named for y in walk(c))
            ok = nc is not None and ((nc[0] == "<" and (minus1 or plus1)) or (nc[0] == "!=" and minus1))
    ctx.ob("C19.R4b", site + ":separator-between-only", ok,
           "the separator is appended after every placeholder but the last (i < size - 1): k pairs give k - 1 separators, so the split "
           "yields exactly k pieces", fn=f)
    # R4c: the splitter searches for the same separator and skips its whole length
    ok = len(finds) == 1 and len(seps) == 1
    why = ""
    if ok:
        fc = finds[0]
        needle = fc["args"][0]
        same = _same_entity(needle, seps[0]["args"][1])
        whole = short(fc["callee"]).endswith("::find") and strip(needle, casts=True)["k"] not in ("CharacterLiteral",) and \
            not any(is_call(x, r"::(front|back|operator\[\]|at|substr|data)$") for x in walk(needle))
        start_args = fc["args"][1] if len(fc["args"]) > 1 else None
        startv = var_ref(start_args) if start_args is not None else None
        endv = None
        for a in f.walk():
            if a["k"] == "BinaryOperator" and a["op"] == "=" and in_subtree(fc, a["rhs"]):
                endv = var_ref(a["lhs"])
        adv = [a for a in walk(sl["body"]) if a["k"] == "BinaryOperator" and a["op"] == "=" and var_ref(a["lhs"]) == startv and startv is not None]
        skip = False
        for a in adv:
            r = strip(a["rhs"], casts=True)
            if isnode(r) and r["k"] == "BinaryOperator" and r["op"] == "+":
                sides = [r["lhs"], r["rhs"]]
                e_side = [x for x in sides if var_ref(x) == endv and endv is not None]
                l_side = [x for x in sides if any(is_call(y, r"::(length|size)$") and _same_entity(call_obj(y), needle) for y in walk(x))]
                skip = bool(e_side) and bool(l_side)
        ok = same and whole and skip and startv is not None
        why = "same separator: %s, searched as a whole: %s, next piece starts at end + separator length: %s" % (same, whole, skip)
    ctx.ob("C19.R4c", site + ":split-on-the-joined-separator", ok,
           "the splitter looks for exactly the separator that was inserted between the placeholders and resumes after all of it (%s); "
           "searching for a part of it cuts values that merely contain that byte" % why, fn=f)
    # R4d: piece i -> value of pair i; remainder -> last pair
    asg = [c for c in f.calls(r"basic_string<.*>::operator=$") if c["k"] == "CXXOperatorCallExpr" and field_name(c["args"][0]) == "second" and
           any(var_ref(x) == named for x in walk(c["args"][0]))]
    in_loop = [a for a in asg if in_subtree(a, sl["body"])]
    after = [a for a in asg if not in_subtree(a, sl["body"])]
    ok = len(in_loop) == 1 and len(after) == 1
    if ok:
        a = in_loop[0]
        sub = [x for x in walk(a["args"][1]) if is_call(x, r"basic_string<.*>::substr$")]
        idx_inc = any(x["k"] == "UnaryOperator" and x.get("op") == "++" and x.get("postfix") for x in walk(a["args"][0])) or \
            any(x["k"] in ("UnaryOperator", "CompoundAssignOperator") and x.get("op") in ("++", "+=") for x in walk(sl["body"]))
        ok = bool(sub) and len(sub[0]["args"]) == 2 and var_ref(sub[0]["args"][0]) == startv and idx_inc
        if ok:
            ln = strip(sub[0]["args"][1], casts=True)
            ok = isnode(ln) and ln["k"] == "BinaryOperator" and ln["op"] == "-" and var_ref(ln["lhs"]) == endv and var_ref(ln["rhs"]) == startv
        b = after[0]
        sub2 = [x for x in walk(b["args"][1]) if is_call(x, r"basic_string<.*>::substr$")]
        ok = ok and bool(sub2) and var_ref(sub2[0]["args"][0]) == startv and \
            (len(sub2[0]["args"]) == 1 or sub2[0]["args"][1]["k"] == "CXXDefaultArgExpr" or
             any(x["k"] == "DeclRefExpr" and x.get("name", "").endswith("npos") for x in walk(sub2[0]["args"][1])))
        # both guarded by idx < named_args.size()
        for x in (a, b):
            gd = [i for i in f.ancestors(x) if i["k"] == "IfStmt" and in_subtree(x, i["then"])]
            nc = norm_cmp(gd[0]["cond"]) if gd else None
            ok = ok and nc is not None and nc[0] == "<" and any(is_call(y, r"std::vector<.*>::size$") and var_ref(call_obj(y)) == named for y in walk(gd[0]["cond"]))
    ctx.ob("C19.R4d", site + ":pieces-to-pairs-in-order", ok,
           "piece i = [start, end) becomes the value (.second) of pair i with i advancing by one per piece, the remainder after the last "
           "separator becomes the value of the next pair, both within bounds", fn=f)
    # R4e: sanitising happens after the split
    san = cpos(f, r"::sanitize_non_printable_chars\b")
    fp = npos(f, finds)
    ctx.ob("C19.R4e", site + ":sanitise-after-split", bool(san) and bool(fp) and not g.exists_path(san, fp) and
           not any(is_call(x, r"::sanitize_non_printable_chars\b") for x in walk(jl)),
           "values are sanitised individually after the split; sanitising the joined string first would escape the separator itself", fn=f)
