#include "quill/Backend.h"
#include "quill/Frontend.h"
#include "quill/LogMacros.h"
#include "quill/Logger.h"
#include "quill/sinks/Sink.h"
#include "quill/std/UnorderedSet.h"
#include "quill/std/UnorderedMap.h"
#include "quill/bundled/fmt/ranges.h"
#include <cstdio>
#include <string>
#include <unordered_set>
#include <unordered_map>
#include <vector>
struct Cap : quill::Sink {
  std::vector<std::string> lines;
  void write_log(quill::MacroMetadata const*, uint64_t, std::string_view, std::string_view, std::string const&, std::string_view, quill::LogLevel,
                 std::string_view, std::string_view, std::vector<std::pair<std::string, std::string>> const*, std::string_view msg, std::string_view) override { lines.emplace_back(msg); }
  void flush_sink() override {}
};
int main(){
  quill::Backend::start();
  auto sink = quill::Frontend::create_or_get_sink<Cap>("cap");
  auto* l = quill::Frontend::create_or_get_logger("root", sink);
  std::unordered_set<int> s; s.reserve(1000); for (int i = 1; i <= 12; ++i) s.insert(i * 7);
  std::unordered_map<int, int> m; m.reserve(1000); for (int i = 1; i <= 6; ++i) m.emplace(i * 13, i);
  std::string sync_s = fmtquill::format("{}", s), sync_m = fmtquill::format("{}", m);
  LOG_INFO(l, "{}", s); LOG_INFO(l, "{}", m);
  l->flush_log();
  auto& got = static_cast<Cap*>(sink.get())->lines;
  std::printf("set  sync : %s\nset  async: %s\nmap  sync : %s\nmap  async: %s\n", sync_s.c_str(), got[0].c_str(), sync_m.c_str(), got[1].c_str());
  quill::Backend::stop();
  return (sync_s == got[0] && sync_m == got[1]) ? 0 : 1;
}
