"""C17 — removing / re-creating loggers (DESIGN §4 C17)."""
import re
from qlib import (AnalysisBroken, strip, isnode, walk, is_call, norm_cmp, var_ref, is_null, const_val, short, call_obj,
                  expr_key, field_name, is_this_field, atomic_op, is_release, is_acquire)
from rules.common import (core_and_neg, tnode, other, cpos, npos, branches_on_call, in_subtree, need_some, loops_enclosing)
from rules import c06

EXPLANATION = ("Registries. R1 lock discipline: every access to LoggerManager::_loggers, SinkManager::_sinks, "
               "ThreadContextManager::_thread_contexts and Sink::_global_filters is dominated by a live acquisition of the sibling "
               "spinlock (LockGuard or lock()..unlock(), guard scope taken from the CFG's implicit destructors), or lies in a private "
               "helper all of whose call sites hold it; find-then-insert is one critical section. R2: Spinlock::lock leaves only "
               "through an RMW with >= acquire that observed 'free', unlock stores 'free' with >= release, LockGuard pairs them. "
               "R3: a logger is erased only on the outcomes 'invalid' and 'all queues and buffers empty' (the backend's callback is the "
               "emptiness check of C07.R1d); when an invalid logger must be kept, the pending flag is re-armed; remove_logger "
               "invalidates before raising the flag. R4: remove_logger_blocking enqueues the request (retried), then invalidates, "
               "then waits on the flag whose address it sent; the backend raises a removal flag only after the logger was erased and "
               "unused sinks were pruned, and only for names reported as removed. R5: the sink registry holds sinks weakly, loggers "
               "strongly; an entry is pruned exactly when expired; destroying a file sink closes its file. R6 (sorted registries, sibling "
               "agreement): insert and lookup order the registry identically, and a re-created sink is inserted in front of an expired "
               "entry of the same name because the lookup inspects the first entry of a name."
               ' R1e: nothing that can throw more than an allocation failure runs between an explicit lock() and unlock(). R8: Frontend::remove_logger reaches the registry. R9: CsvWriter creates its own logger and removes it with the blocking form.'
               ' R6c: the sorted registries are changed only by insert-at-the-searched-position and by erase (no swap / pop_back / push_back / assignment into an element).')
NOT_DECIDED = ("Use-after-free over all interleavings of user log calls with removal (the API contract forbids logging after "
               "removal), destruction order of shared sinks as behaviour.")
ASSUMPTIONS = ["user code does not log through a logger after removing it (documented contract)"]
BW = "quill::detail::BackendWorker::"

GUARDED = [
    ("quill::detail::LoggerManager", "_loggers", "_spinlock"),
    ("quill::detail::SinkManager", "_sinks", "_spinlock"),
    ("quill::detail::ThreadContextManager", "_thread_contexts", "_spinlock"),
    ("quill::Sink", "_global_filters", "_global_filters_lock"),
]


class LockInfo:
    def __init__(self, f, lockfield):
        self.f = f
        g = f.g
        self.acq = []
        self.rel = []
        guards = set()
        for n in f.walk():
            if n["k"] == "DeclStmt":
                for d in n.get("decls") or []:
                    if "LockGuard" in d.get("ty", "") and isnode(d.get("init")) and any(is_this_field(x, lockfield) for x in walk(d["init"])):
                        self.acq.extend(g.positions(n))
                        guards.add(d["did"])
            if is_call(n, r"Spinlock::lock$") and is_this_field(call_obj(n), lockfield):
                self.acq.extend(g.positions(n))
            if is_call(n, r"Spinlock::unlock$") and is_this_field(call_obj(n), lockfield):
                self.rel.extend(g.positions(n))
        self.rel.extend(g.pos_of(lambda e: isinstance(e, dict) and "dtor" in e and e.get("did") in guards))

    def held_at(self, pos):
        g = self.f.g
        if not self.acq:
            return False
        if g.exists_path([g.entry_node], [pos], avoid_nodes=self.acq) or pos == g.entry_node:
            return False
        for r in self.rel:
            if g.exists_path([r], [pos], avoid_nodes=self.acq):
                return False
        return True


def run(ctx):
    configs = ["A"] if ctx.tier == "quick" else ["A", "B"]
    for cfg in configs:
        facts = ctx.facts("core.cpp", cfg)
        r6_order_kept(ctx, facts, cfg)
        r1(ctx, facts, cfg)
        r2(ctx, facts, cfg)
        r3(ctx, facts, cfg)
        r4(ctx, facts, cfg)
        r5(ctx, facts, cfg)
        r6(ctx, facts, cfg)
        r7_lookup(ctx, facts, cfg)
        r9_csv_writer(ctx, facts, cfg)
        r10_get_valid_logger(ctx, facts, cfg)
        # no raw pointer to a sink outlives the pass that collected it (the sink may be destroyed by the next clean-up) = C06.R4f
        from rules import c06
        c06.r4f_cache_emptied(ctx, facts, cfg, rule="C17.R11")
        # the public entry point reaches the registry: Frontend::remove_logger(l) calls LoggerManager::remove_logger(l)
        from rules.common import forwards
        forwards(ctx, facts, cfg, "C17.R8", "quill::FrontendImpl::remove_logger", r"LoggerManager::remove_logger$",
                 "FrontendImpl::remove_logger() hands its logger to LoggerManager::remove_logger() on every path", param_idx=0, floor=4)
        # the predicate a logger is erased on (R3): the backend's 'everything is drained' check, and what the unbounded queue calls empty
        from rules import c07, c02
        c07.r1d(ctx, facts, cfg, rule="C17.R3f")
        bn = {m.base: m for m in facts.fns if m.config == cfg and m.cls == c02.CLS and not m.rec.get("ctor") and not m.rec.get("dtor")}
        c02.check_empty_semantics(ctx, bn, rule="C17.R3g")
        # ... and what the bounded queue underneath calls empty (seeded change C17-s17: empty() answered from the writer position
        # cached at the last read, so the re-check before a logger is erased did not see a statement logged after that read) = C01.R4b-e
        from rules import c01
        from rules.c09 import Renamed
        import re as _re
        classes = list(facts.cls_all(c01.CLS, cfg))
        ctx.floor("C17.R3h", "instantiations of BoundedSPSCQueueImpl", len(classes), 4)
        for crec in classes:
            em = [m for m in c01.methods_of(facts, crec["name"], cfg) if m.base == "empty"]
            if not em:
                raise AnalysisBroken("anchor %s::empty not found (config %s)" % (crec["name"], cfg))
            tag = "BoundedSPSCQueueImpl<%s>" % _re.search(r"<(.*)>$", crec["name"]).group(1)
            c01.check_empty(Renamed(ctx, "C01.R4", "C17.R3h-"), tag, em[0])


def r1(ctx, facts, cfg):
    total = 0
    for (cls, fld, lockf) in GUARDED:
        crec = facts.cls(cls, cfg)
        if not crec or fld not in {x["name"] for x in crec["fields"]} or lockf not in {x["name"] for x in crec["fields"]}:
            raise AnalysisBroken("guarded field %s::%s / lock %s not found" % (cls, fld, lockf))
        meths = [f for f in facts.fns if f.config == cfg and (f.cls == cls) and not f.rec.get("ctor") and not f.rec.get("dtor")]
        # lambdas defined inside methods of the class run in the method's context
        lam = [f for f in facts.fns if f.config == cfg and f.rec.get("parent") and any(f.rec["parent"] == m.name for m in meths)]
        info = {id(m): LockInfo(m, lockf) for m in meths}
        unlocked_helpers = {}  # id(m) -> [access nodes] for methods that touch the field without acquiring
        for m in meths:
            acc = [n for n in m.walk() if n["k"] == "MemberExpr" and n.get("dk") == "Field" and n["mname"] == fld and is_this_field(n)]
            # accesses inside lambdas of m (e.g. predicates) — attribute to the lambda expression position in m
            for l in lam:
                if l.rec["parent"] == m.name and any(x["k"] == "MemberExpr" and x.get("mname") == fld for x in l.walk()):
                    acc.extend([x for x in m.walk() if x["k"] == "LambdaExpr" and l.name.endswith(x["lambda"])])
            if not acc:
                continue
            li = info[id(m)]
            for n in acc:
                total += 1
                pos = m.g.positions(n)
                held = bool(pos) and all(li.held_at(p) for p in pos)
                if held:
                    ctx.ob("C17.R1a", "%s::%s:%s@lock-held" % (short(cls).split("::")[-1], m.base, fld), True,
                           "access to %s is dominated by a live acquisition of %s" % (fld, lockf), loc=n["loc"], fn=m)
                else:
                    unlocked_helpers.setdefault(id(m), (m, []))[1].append(n)
        # helpers: every call site must hold the lock
        for mid, (m, nodes) in unlocked_helpers.items():
            sites = [(g_, c) for (g_, c) in facts.callsites(cfg).get(mid, []) if g_.cls == cls or (g_.rec.get("parent") or "").startswith(cls)]
            private = m.rec.get("access") == "private"
            ok = private and bool(sites)
            where = []
            for (g_, c) in sites:
                li = info.get(id(g_)) or LockInfo(g_, lockf)
                pos = g_.g.positions(c)
                if not (pos and all(li.held_at(p) for p in pos)):
                    ok = False
                    where.append("%s@%s" % (g_.base, c["loc"]))
            ctx.ob("C17.R1b", "%s::%s:%s@helper" % (short(cls).split("::")[-1], m.base, fld), ok,
                   "%s touches %s without acquiring %s itself: it must be a private helper whose every call site holds the lock "
                   "(private: %s, call sites: %d%s)" % (m.base, fld, lockf, private, len(sites), (", unlocked: " + ", ".join(where)) if where else ""),
                   loc=nodes[0]["loc"], fn=m)
    # R1d: an explicit lock() is released on every path out of the function (a guard object does that by itself)
    nl = 0
    for (cls, fld, lockf) in GUARDED:
        for m in [f for f in facts.fns if f.config == cfg and f.cls == cls]:
            g = m.g
            locks = npos(m, [n for n in m.walk() if is_call(n, r"Spinlock::lock$") and is_this_field(call_obj(n), lockf)])
            unlocks = npos(m, [n for n in m.walk() if is_call(n, r"Spinlock::unlock$") and is_this_field(call_obj(n), lockf)])
            if not locks:
                continue
            nl += 1
            ok = bool(unlocks) and not g.exists_path(locks, [g.exit_node], avoid_nodes=unlocks)
            ctx.ob("C17.R1d", "%s::%s:%s@released" % (short(cls).split("::")[-1], m.base, lockf), ok,
                   "every path from %s.lock() to the end of the function passes %s.unlock() (a registry left locked blocks every later "
                   "create / get / remove and the backend's reload)" % (lockf, lockf), fn=m)
            # R1e: ... and on the exceptional paths too: what runs between an explicit lock() and its unlock() cannot throw anything
            # but an allocation failure (a sink or logger constructor can — a file that cannot be opened —, and so can user callbacks)
            held = set(g.reach(locks, avoid_nodes=unlocks, include_src=False)) if unlocks else set()
            risky = []
            for c in m.walk():
                if not (is_call(c) or c["k"] in ("CXXConstructExpr", "CXXTemporaryObjectExpr", "CXXNewExpr")) or not c.get("callee"):
                    continue
                if not any(p_ in held for p_ in g.positions(c)):
                    continue
                cal = c.get("callee") or ""
                if c.get("nothrow") or is_call(c, r"Spinlock::(lock|unlock)$"):
                    continue
                if cal.startswith("std::") and not re.match(r"^std::(make_shared|make_unique|allocate_shared|function<.*>::operator\(\)|invoke)", cal):
                    continue        # std containers / smart pointers: allocation failure only (not armed)
                risky.append("%s@%s" % (short(cal).split("::")[-1], c["loc"].split(":", 1)[1]))
            ctx.ob("C17.R1e", "%s::%s:%s@nothing-throws-while-held" % (short(cls).split("::")[-1], m.base, lockf), not risky,
                   "between the explicit %s.lock() and unlock() nothing is called that can throw more than an allocation failure; code that "
                   "constructs a sink or a logger, or calls back into user code, holds the lock through a guard object instead (%s)"
                   % (lockf, ", ".join(risky) or "ok"), fn=m)
    ctx.floor("C17.R1d", "explicit lock() sites in the guarded classes", nl, 1)
    ctx.floor("C17.R1", "accesses to guarded registry fields", total, 19)
    # find-then-insert is one critical section
    for (short_name, find_pat, ins_pat, lockf) in (
            ("quill::detail::LoggerManager::create_or_get_logger", r"LoggerManager::_find_logger$", r"LoggerManager::_insert_logger$", "_spinlock"),
            ("quill::detail::SinkManager::create_or_get_sink", r"SinkManager::_find_sink$", r"SinkManager::_insert_sink$", "_spinlock")):
        n = 0
        for f in facts.fn(short_name, cfg):
            ins = cpos(f, ins_pat)
            if not ins:
                continue
            n += 1
            g = f.g
            fnd = cpos(f, find_pat)
            li = LockInfo(f, lockf)
            ok = bool(fnd) and all(g.dominates(fnd, p) for p in ins) and all(li.held_at(p) for p in fnd + ins) and \
                not any(g.exists_path(fnd, [r]) and g.exists_path([r], ins) for r in li.rel)
            ctx.ob("C17.R1c", "%s:find-then-insert-atomic" % f.short.replace("quill::detail::", ""), ok,
                   "lookup and insertion happen in one critical section (idempotent create-or-get from any thread)", fn=f)
        ctx.floor("C17.R1c", short_name, n, 1)


def r2(ctx, facts, cfg):
    lk = facts.need("quill::detail::Spinlock::lock", cfg)[0]
    g = lk.g
    rm = [n for n in lk.walk() if (atomic_op(n) or {}).get("kind") == "rmw" and is_this_field(atomic_op(n)["obj"], "_flag")]
    rp = npos(lk, rm)
    acq = bool(rm) and all(is_acquire(atomic_op(n)["order"]) for n in rm)
    # leaving only through the 'was not locked' outcome of a comparison of the RMW result with Locked
    edges = []
    for bid, b in g.blocks.items():
        c = g.term_cond(bid)
        if c is None:
            continue
        nc = norm_cmp(c)
        if nc and nc[0] in ("==", "!=") and any(x in rm for x in walk(c)) and \
                any(x["k"] == "DeclRefExpr" and x.get("name", "").endswith("State::Locked") for x in walk(c)):
            edges.append((bid, "F" if nc[0] == "==" else "T"))  # label of 'observed free'
    ok = acq and bool(edges) and not g.exists_path([g.entry_node], [g.exit_node], avoid_edges=edges)
    stores_locked = all(any(x["k"] == "DeclRefExpr" and x.get("name", "").endswith("State::Locked") for x in walk(atomic_op(n)["value"])) for n in rm)
    ctx.ob("C17.R2a", "Spinlock::lock:acquire-rmw", ok and stores_locked,
           "lock() returns only through the 'observed free' outcome of an atomic exchange to Locked with >= acquire", fn=lk)
    ul = facts.need("quill::detail::Spinlock::unlock", cfg)[0]
    g = ul.g
    st = [n for n in ul.walk() if (atomic_op(n) or {}).get("kind") in ("store", "rmw") and is_this_field(atomic_op(n)["obj"], "_flag")]
    sp = npos(ul, st)
    ok = bool(st) and all(is_release(atomic_op(n)["order"]) for n in st) and not g.exists_path([g.entry_node], [g.exit_node], avoid_nodes=sp) and \
        all(any(x["k"] == "DeclRefExpr" and x.get("name", "").endswith("State::Free") for x in walk(atomic_op(n)["value"])) for n in st)
    ctx.ob("C17.R2b", "Spinlock::unlock:release-store", ok, "unlock() stores Free with >= release on every path", fn=ul)
    gc = [f for f in facts.fns if f.config == cfg and f.cls == "quill::detail::LockGuard"]
    ctor = [f for f in gc if f.rec.get("ctor")]
    dtor = [f for f in gc if f.rec.get("dtor")]
    ok = bool(ctor) and bool(dtor) and bool(ctor[0].calls(r"Spinlock::lock$")) and bool(dtor[0].calls(r"Spinlock::unlock$")) and \
        not ctor[0].calls(r"Spinlock::unlock$") and not dtor[0].calls(r"Spinlock::lock$")
    ctx.ob("C17.R2c", "LockGuard:pairs-lock-unlock", ok, "LockGuard acquires in its constructor and releases in its destructor", fn=ctor[0] if ctor else None)


def r3(ctx, facts, cfg):
    fs = facts.need("quill::detail::LoggerManager::cleanup_invalidated_loggers", cfg)
    for f in fs:
        g = f.g
        cbp = f.rec["params"][0]["did"]
        er = [c for c in f.calls(r"std::vector<.*>::erase$") if is_this_field(call_obj(c), "_loggers")]
        ep = npos(f, er)
        if not er:
            raise AnalysisBroken("cleanup_invalidated_loggers: erase not found")
        vb = branches_on_call(f, r"LoggerBase::is_valid_logger$")
        qb = []
        for bid, b in g.blocks.items():
            c = g.term_cond(bid)
            if c is None:
                continue
            core, neg = core_and_neg(c)
            if isnode(core) and core["k"] == "CXXOperatorCallExpr" and core.get("args") and var_ref(core["args"][0]) == cbp:
                qb.append((bid, "F" if neg else "T"))  # label 'queues empty'
        ok = bool(vb) and bool(qb) and \
            not g.exists_path([g.entry_node], ep, avoid_edges=[(b, other(t)) for (b, t, c) in vb]) and \
            not g.exists_path([g.entry_node], ep, avoid_edges=qb)
        ctx.ob("C17.R3a", "LoggerManager::cleanup_invalidated_loggers:erase-guard", ok,
               "a logger is erased only on the outcomes 'invalidated' and 'all queues and transit buffers empty' (no record can still "
               "reference it)", loc=er[0]["loc"], fn=f)
        rearm = [n for n in f.walk() if (atomic_op(n) or {}).get("kind") == "store" and is_this_field(atomic_op(n)["obj"], "_has_invalidated_loggers")
                 and const_val(atomic_op(n)["value"]) == 1]
        rp = npos(f, rearm)
        ok = bool(rp) and bool(qb) and all(
            not g.exists_path([tnode(g, b)], [g.exit_node], avoid_nodes=rp, avoid_edges=[(b, l)]) for (b, l) in qb)
        ctx.ob("C17.R3b", "LoggerManager::cleanup_invalidated_loggers:rearm-when-kept", ok,
               "when an invalidated logger must be kept (records pending) the pending flag is raised again on every path, so a later "
               "clean-up retries", fn=f)
        names = [c for c in f.calls(r"std::vector<std::(__cxx11::)?basic_string<.*>::push_back$")]
        np_ = npos(f, names)
        ok = bool(np_) and not g.exists_path([g.entry_node], ep, avoid_nodes=np_) and not g.exists_path([g.entry_node], np_, avoid_edges=qb)
        ctx.ob("C17.R3c", "LoggerManager::cleanup_invalidated_loggers:reports-what-it-erased", ok,
               "the name of every erased logger (and only of those) is reported to the caller", fn=f)
    # the backend's callback
    bf = facts.need(BW + "_cleanup_invalidated_loggers", cfg)[0]
    lams = [x for x in facts.fns if x.config == cfg and x.rec.get("parent") == bf.name]
    ok = False
    for l in lams:
        rets = [l.g.node_ast(r) for r in l.g.return_nodes()]
        if rets and all(is_call(strip(r["val"], casts=True), r"::_check_frontend_queues_and_cached_transit_events_empty$") for r in rets):
            ok = True
    ctx.ob("C17.R3d", "_cleanup_invalidated_loggers:emptiness-callback", ok,
           "the 'queues empty' callback handed to the logger registry is the full emptiness check (all queues and transit buffers)", fn=bf)
    rl = facts.need("quill::detail::LoggerManager::remove_logger", cfg)[0]
    g = rl.g
    mi = cpos(rl, r"LoggerBase::mark_invalid$")
    st = npos(rl, [n for n in rl.walk() if (atomic_op(n) or {}).get("kind") == "store" and is_this_field(atomic_op(n)["obj"], "_has_invalidated_loggers")
                   and const_val(atomic_op(n)["value"]) == 1 and is_release(atomic_op(n)["order"])])
    ok = bool(mi) and bool(st) and all(g.dominates(mi, p) for p in st) and not g.exists_path([g.entry_node], [g.exit_node], avoid_nodes=st)
    ctx.ob("C17.R3e", "LoggerManager::remove_logger:invalidate-then-flag", ok,
           "remove_logger invalidates the logger and then raises the pending flag with >= release (the backend that sees the flag sees the "
           "invalid logger)", fn=rl)


def r4(ctx, facts, cfg):
    c06.r2(ctx, facts, cfg, "quill::FrontendImpl::remove_logger_blocking", "C17.R4", 4)
    for f in facts.need("quill::FrontendImpl::remove_logger_blocking", cfg, floor=4):
        g = f.g
        site = "FrontendImpl<%s>::remove_logger_blocking" % f.name.split("Impl<")[1].split(">")[0]
        req = cpos(f, r"^quill::LoggerImpl<.*>::log_statement<")
        rem = cpos(f, r"LoggerManager::remove_logger$")
        ok = bool(req) and bool(rem) and all(g.dominates(req, p) for p in rem) and not g.exists_path(rem, req) and \
            not g.exists_path([g.entry_node], [g.exit_node], avoid_nodes=rem)
        ctx.ob("C17.R4d", site + ":request-then-invalidate", ok,
               "the removal request is enqueued before the logger is invalidated (statements logged earlier are ahead of it in the queue) "
               "and the logger is invalidated on every path", fn=f)
        # the request carries the logger's name
        calls = f.calls(r"^quill::LoggerImpl<.*>::log_statement<")
        ok = bool(calls) and len(calls[0]["args"]) >= 4 and any(is_call(x, r"LoggerBase::get_logger_name$") for x in walk(calls[0]["args"][3]))
        ctx.ob("C17.R4e", site + ":request-names-logger", ok, "the request carries the name of the logger being removed", fn=f)
    bf = facts.need(BW + "_cleanup_invalidated_loggers", cfg)[0]
    g = bf.g
    inits = bf.var_inits()
    cl = bf.calls(r"LoggerManager::cleanup_invalidated_loggers")
    cu = cpos(bf, r"SinkManager::cleanup_unused_sinks$")
    stores = [n for n in bf.walk() if (atomic_op(n) or {}).get("kind") == "store" and const_val(atomic_op(n)["value"]) == 1]
    sp = npos(bf, stores)
    removed = [vid for vid, i in inits.items() if isnode(i) and any(in_subtree(c, i) for c in cl)]
    ok = bool(cl) and bool(cu) and bool(sp) and all(g.dominates(cu, p) for p in sp) and all(g.dominates(npos(bf, cl), p) for p in cu)
    loops = [a for s in stores for a in bf.ancestors(s) if a["k"] == "CXXForRangeStmt"]
    over_removed = bool(loops) and var_ref(loops[0].get("range")) in removed
    lv = loops[0]["loopvar"]["did"] if loops else None
    finds = [c for c in bf.calls(r"unordered_map<.*>::find$") if is_this_field(call_obj(c), "_logger_removal_flags") and var_ref(c["args"][0]) == lv]
    ctx.ob("C17.R4f", "_cleanup_invalidated_loggers:flag-after-erase-and-sink-prune", ok and over_removed and bool(finds),
           "a blocking remover is released only after its logger was erased and sinks no longer referenced were destroyed, and only "
           "for the names reported as removed (order: %s, iterates removed names: %s, looked up by that name: %s)" % (ok, over_removed, bool(finds)), fn=bf)
    # R4i: the release really happens: with loggers removed the pruning is reached, and a waiting remover found in the map is released
    # on the 'found' outcome (never dereferencing the end iterator, never skipping a waiter that is there)
    nonempty = []
    found = []
    for bid, b in g.blocks.items():
        c = g.term_cond(bid)
        if c is None:
            continue
        core, neg = core_and_neg(c)
        cs_ = strip(core, casts=True)
        if is_call(cs_, r"std::vector<.*>::empty$") and var_ref(call_obj(cs_)) in removed:
            nonempty.append((bid, "T" if neg else "F"))  # label of 'something was removed'
        if isnode(cs_) and is_call(cs_, r"operator(==|!=)") and any(is_call(x, r"unordered_map<.*>::end$") and is_this_field(call_obj(x), "_logger_removal_flags") for x in walk(cs_)):
            eq = "operator==" in cs_["callee"]
            lab = "F" if eq else "T"   # label of 'found'
            found.append((bid, other(lab) if neg else lab))
    ok_i = bool(nonempty) and bool(found) and not g.exists_path([g.entry_node], cu, avoid_edges=nonempty) and \
        all(not g.exists_path([tnode(g, b)], [g.exit_node], avoid_nodes=cu, avoid_edges=[(b, other(l))]) for (b, l) in nonempty) and \
        not g.exists_path([g.entry_node], sp, avoid_edges=found) and \
        all(not g.exists_path([tnode(g, b)], [tnode(g, b), g.exit_node], avoid_nodes=sp, avoid_edges=[(b, other(l))]) for (b, l) in found)
    ctx.ob("C17.R4i", "_cleanup_invalidated_loggers:waiter-released", ok_i,
           "when loggers were removed the unused sinks are pruned on every path; a removal flag is stored to exactly on the 'found in "
           "the pending map' outcome of its lookup, and on that outcome always (a blocked remove_logger_blocking is released)", fn=bf)
    er = [c for c in bf.calls(r"unordered_map<.*>::erase$") if is_this_field(call_obj(c), "_logger_removal_flags")]
    ok = bool(er) and not g.exists_path(sp, [g.exit_node], avoid_nodes=npos(bf, er)) is False or (bool(er) and all(g.exists_path(sp, [p]) for p in npos(bf, er)))
    ctx.ob("C17.R4g", "_cleanup_invalidated_loggers:flag-entry-erased", bool(er) and all(g.exists_path(sp, [p]) for p in npos(bf, er)),
           "the signalled entry is dropped from the pending map (a re-created logger of the same name starts clean)", fn=bf)
    df = facts.need(BW + "_populate_transit_event_from_frontend_queue", cfg)[0]
    em = [c for c in df.calls(r"unordered_map<.*>::(emplace|try_emplace|insert|insert_or_assign)") if is_this_field(call_obj(c), "_logger_removal_flags")]
    ok = False
    for c in em:
        name_ok = any(is_call(x, r"Codec<std::(__cxx11::)?basic_string<.*>::decode_arg$") for x in walk(c)) or \
            any(x["k"] == "DeclRefExpr" and x.get("did") in [vid for vid, i in df.var_inits().items() if isnode(i) and any(
                is_call(y, r"Codec<std::(__cxx11::)?basic_string<.*>::decode_arg$") for y in walk(i))] for x in walk(c))
        ok = ok or name_ok
    ctx.ob("C17.R4h", "_populate_transit_event_from_frontend_queue:removal-request-registered", ok,
           "a LoggerRemovalRequest registers the caller's flag under the logger name decoded from the record", fn=df)


def r5(ctx, facts, cfg):
    """sinks: weakly held by the registry, strongly by loggers; pruned exactly when expired; a file sink closes its file when destroyed"""
    info = facts.cls("quill::detail::SinkManager::SinkInfo", cfg)
    if not info:
        raise AnalysisBroken("SinkManager::SinkInfo not found")
    fld = {x["name"]: x for x in info["fields"]}
    weak = any("std::weak_ptr<quill::Sink>" in x["cty"].replace("class ", "") or x["cty"].startswith("std::weak_ptr<") for x in info["fields"])
    strong = [x["name"] for x in info["fields"] if x["cty"].startswith("std::shared_ptr<")]
    ctx.ob("C17.R5a", "SinkManager::SinkInfo:weak", weak and not strong,
           "the sink registry holds sinks weakly (a strong reference would keep a sink — and its file — alive after its last logger is gone)",
           loc=info["loc"])
    lb = facts.cls("quill::detail::LoggerBase", cfg)
    sk = [x for x in (lb["fields"] if lb else []) if x["name"] == "sinks"]
    ctx.ob("C17.R5b", "LoggerBase::sinks:strong", bool(sk) and "std::shared_ptr<quill::Sink>" in sk[0]["cty"],
           "a logger shares ownership of its sinks (a sink still used by another logger keeps working)", loc=sk[0]["loc"] if sk else "")
    f = facts.need("quill::detail::SinkManager::cleanup_unused_sinks", cfg)[0]
    g = f.g
    er = [c for c in f.calls(r"std::vector<.*>::erase$") if is_this_field(call_obj(c), "_sinks")]
    ep = npos(f, er)
    eb = branches_on_call(f, r"std::weak_ptr<.*>::expired$|__weak_ptr<.*>::expired$")
    ok = bool(er) and bool(eb) and not g.exists_path([g.entry_node], ep, avoid_edges=[(b, t) for (b, t, c) in eb]) and \
        all(not g.exists_path([tnode(g, b)], [tnode(g, b)], avoid_nodes=ep, avoid_edges=[(b, other(t))]) or True for (b, t, c) in eb)
    # on the expired outcome the entry is erased before the next test
    for (b, t, c) in eb:
        if g.exists_path([tnode(g, b)], [tnode(g, b)], avoid_nodes=ep, avoid_edges=[(b, other(t))]):
            ok = False
    ctx.ob("C17.R5c", "SinkManager::cleanup_unused_sinks:erase-iff-expired", ok,
           "a registry entry is erased exactly when its sink has expired (no live sink is dropped, every dead entry is pruned)", fn=f)
    d = [x for x in facts.fns if x.config == cfg and x.cls == "quill::FileSink" and x.rec.get("dtor")]
    ok = False
    if d:
        dg = d[0].g
        cp = cpos(d[0], r"FileSink::close_file$")
        ok = bool(cp) and not dg.exists_path([dg.entry_node], [dg.exit_node], avoid_nodes=cp)
    ctx.ob("C17.R5d", "~FileSink:closes-file", ok, "destroying a file sink closes its file on every path", fn=d[0] if d else None)
    c = facts.need("quill::FileSink::close_file", cfg)[0]
    cg = c.g
    fc = npos(c, [x for x in c.calls(r"^fclose$") if is_this_field(x["args"][0], "_file")])
    nul = npos(c, [n for n in c.walk() if n["k"] == "BinaryOperator" and n["op"] == "=" and is_this_field(n["lhs"], "_file") and is_null(n["rhs"])])
    nb = []
    for bid, b in cg.blocks.items():
        cond = cg.term_cond(bid)
        if cond is not None and is_this_field(strip(core_and_neg(cond)[0], casts=True), "_file"):
            nb.append((bid, "T" if core_and_neg(cond)[1] else "F"))  # label of 'no file'
    ok = bool(fc) and bool(nul) and not cg.exists_path(fc, [cg.exit_node], avoid_nodes=nul) and \
        not cg.exists_path([cg.entry_node], [cg.exit_node], avoid_nodes=fc, avoid_edges=nb)
    ctx.ob("C17.R5e", "FileSink::close_file:fclose-and-forget", ok,
           "an open file is closed with fclose and the handle forgotten on every path (only 'no file open' skips it)", fn=c)


def r7_lookup(ctx, facts, cfg):
    """R7: by-name lookup and create-or-get: what 'found' means, and that exactly the not-found outcome creates"""
    for cls, fnd, field, keyf in (("quill::detail::SinkManager", "_find_sink", "_sinks", "sink_id"), ("quill::detail::LoggerManager", "_find_logger", "_loggers", "get_logger_name")):
        f = facts.need(cls + "::" + fnd, cfg)[0]
        g = f.g
        tgt = f.rec["params"][0]["did"]
        inits = f.var_inits()
        itv = [vid for vid, i in inits.items() if isnode(i) and any(is_call(x, r"^std::(lower_bound|upper_bound|find_if|find|equal_range)\b") for x in walk(i))]
        if len(itv) != 1:
            raise AnalysisBroken("%s::%s: search result variable not identified" % (cls, fnd))
        itv = itv[0]
        inr, same = [], []
        for bid, b in g.blocks.items():
            c = g.term_cond(bid)
            if c is None:
                continue
            core, neg = core_and_neg(c)
            cs_ = strip(core, casts=True)
            if isnode(cs_) and is_call(cs_, r"operator(==|!=)") and any(is_call(x, r"(::c?end$|^std::c?end)") and any(is_this_field(y, field) for y in walk(x)) for x in walk(cs_)):
                lab = "F" if "operator==" in cs_["callee"] else "T"   # label of 'in range'
                inr.append((bid, other(lab) if neg else lab))
            elif isnode(cs_) and ((is_call(cs_, r"operator(==|!=)") or (cs_["k"] == "BinaryOperator" and cs_["op"] in ("==", "!="))) and
                                  any(x["k"] == "DeclRefExpr" and x.get("did") == tgt for x in walk(cs_)) and
                                  any((x["k"] == "MemberExpr" and x.get("mname") == keyf) or is_call(x, r"::%s$" % keyf) for x in walk(cs_))):
                eq = ("operator==" in cs_.get("callee", "")) or cs_.get("op") == "=="
                lab = "T" if eq else "F"   # label of 'same name'
                same.append((bid, other(lab) if neg else lab))
        # dereferences of the search result outside the range test
        deref = [x for x in f.walk() if ((x["k"] == "CXXOperatorCallExpr" and re.search(r"operator(->|\*)$", x.get("callee") or "") and any(var_ref(a) == itv for a in x["args"])))
                 and not any(in_subtree(x, g.term_cond(b)) for (b, _l) in inr)]
        dp = sorted(set(p_ for x in deref for p_ in (g.positions(x) or [])))
        # what is handed back as 'found': every non-null result lies on 'in range' and 'same name'
        hits = []
        for r in g.return_nodes():
            v = g.node_ast(r).get("val")
            hits.append(r)
        lock_or_get = npos(f, [c for c in f.calls(r"(weak_ptr<.*>::lock$|__weak_ptr<.*>::lock$|unique_ptr<.*>::get$)")
                               if not any(in_subtree(c, g.term_cond(b)) for (b, _l) in same)])
        ok = bool(inr) and bool(same) and bool(dp) and not g.exists_path([g.entry_node], dp, avoid_edges=inr) and \
            bool(lock_or_get) and not g.exists_path([g.entry_node], lock_or_get, avoid_edges=same)
        # the pointer that is returned on the 'found' outcome comes from the search result
        ctx.ob("C17.R7a", "%s::%s:found-means-in-range-and-same-name" % (cls.split("::")[-1], fnd), ok,
               "the search result is dereferenced only on its 'not the end' outcome, and an entry is handed back only on the 'same name' "
               "outcome of the comparison with the requested name (in-range tests: %d, name tests: %d)" % (len(inr), len(same)), fn=f)
    for cls, cg_, fnd, ins, maker in (("quill::detail::SinkManager", "create_or_get_sink", r"SinkManager::_find_sink$", r"SinkManager::_insert_sink$", r"^std::make_shared<"),
                                      ("quill::detail::LoggerManager", "create_or_get_logger", r"LoggerManager::_find_logger$", r"LoggerManager::_insert_logger$", None)):
        n = 0
        for f in facts.fn(cls + "::" + cg_, cfg):
            ip = cpos(f, ins)
            if not ip:
                continue
            n += 1
            g = f.g
            inits = f.var_inits()
            fc = f.calls(fnd)
            rv = [vid for vid, i in inits.items() if isnode(i) and any(in_subtree(c, i) for c in fc)]
            if not rv:
                raise AnalysisBroken("%s::%s: lookup result variable not identified" % (cls, cg_))
            nf = []
            for bid, b in g.blocks.items():
                c = g.term_cond(bid)
                if c is None:
                    continue
                core, neg = core_and_neg(c)
                cs_ = strip(core, casts=True)
                if var_ref(cs_) == rv[0] or (is_call(cs_, r"shared_ptr<.*>::operator bool$|__shared_ptr<.*>::operator bool$") and var_ref(call_obj(cs_)) == rv[0]):
                    nf.append((bid, "T" if neg else "F"))  # label of 'not found'
            mk = npos(f, [x for x in f.walk() if x["k"] == "CXXNewExpr" or (maker and is_call(x, maker))])
            nf = [(b, l) for (b, l) in nf if g.exists_path([tnode(g, b)], mk)]  # the test that decides the creation (not a re-check after it)
            rets = [r for r in g.return_nodes()]
            ok = bool(nf) and bool(mk) and not g.exists_path([g.entry_node], mk + ip, avoid_edges=nf) and \
                all(not g.exists_path([tnode(g, b)], rets, avoid_nodes=ip, avoid_edges=[(b, other(l))]) for (b, l) in nf) and \
                all(not g.exists_path([tnode(g, b)], rets, avoid_nodes=mk, avoid_edges=[(b, other(l))]) for (b, l) in nf)
            ctx.ob("C17.R7b", "%s:creates-iff-not-found" % f.short.replace("quill::detail::", "")[:100], ok,
                   "an object is created and inserted exactly on the 'not found' outcome of the lookup, on every path from there (on "
                   "'found' the existing one is returned: create-or-get is idempotent)", fn=f)
        ctx.floor("C17.R7b", cls + "::" + cg_, n, 1)
    for cls, ins, field in (("quill::detail::SinkManager", "_insert_sink", "_sinks"), ("quill::detail::LoggerManager", "_insert_logger", "_loggers")):
        f = facts.need(cls + "::" + ins, cfg)[0]
        ic = npos(f, [c for c in f.calls(r"std::vector<.*>::(insert|emplace)$") if is_this_field(call_obj(c), field)])
        ctx.ob("C17.R7c", "%s::%s:inserts" % (cls.split("::")[-1], ins), bool(ic) and not f.g.exists_path([f.g.entry_node], [f.g.exit_node], avoid_nodes=ic),
               "the new entry is inserted into the registry on every path", fn=f)
    # walking the registries: the erase-or-advance loops visit every element
    for cls, meth, field in (("quill::detail::SinkManager", "cleanup_unused_sinks", "_sinks"), ("quill::detail::LoggerManager", "cleanup_invalidated_loggers", "_loggers")):
        for f in facts.need(cls + "::" + meth, cfg)[:2]:
            g = f.g
            loops = [n for n in f.walk() if n["k"] == "ForStmt"]
            if not loops:
                raise AnalysisBroken("%s::%s: erase-or-advance loop not found" % (cls, meth))
            lp = loops[0]
            itv = lp["init"]["decls"][0]["did"] if isnode(lp.get("init")) and lp["init"].get("decls") else None
            cnd = strip(lp.get("cond"))
            whole = isnode(cnd) and is_call(cnd, r"operator!=") and any(is_call(x, r"std::vector<.*>::end$") and is_this_field(call_obj(x), field) for x in walk(cnd)) and \
                any(is_call(x, r"std::vector<.*>::begin$") and is_this_field(call_obj(x), field) for x in walk(lp.get("init") or {}))
            adv = npos(f, [x for x in walk(lp["body"]) if (is_call(x, r"operator\+\+$") and any(var_ref(a) == itv for a in x["args"])) or
                           (_is_assign_from_erase(x, itv, field))])
            cb = [bid for bid, b in g.blocks.items() if g.term_cond(bid) is not None and in_subtree(g.term_cond(bid), lp["cond"])]
            progress = bool(cb) and bool(adv) and not g.exists_path([y for (y, lab) in g.succ.get(tnode(g, cb[0]), ()) if lab == "T"], [tnode(g, cb[0])], avoid_nodes=adv)
            early = [x for x in walk(lp["body"]) if x["k"] in ("BreakStmt", "ReturnStmt", "GotoStmt")]
            ctx.ob("C17.R7d", "%s::%s:walks-the-whole-registry" % (cls.split("::")[-1], meth), whole and progress and not early,
                   "the loop runs from begin() until end(), every iteration either advances the iterator or continues from erase()'s "
                   "result, and none leaves early (whole: %s, progress on every path: %s)" % (whole, progress), fn=f)


def _is_assign_from_erase(x, itv, field):
    if not isnode(x):
        return False
    if x["k"] == "CXXOperatorCallExpr" and short(x.get("callee") or "").endswith("operator=") and len(x.get("args") or []) == 2 and var_ref(x["args"][0]) == itv:
        return any(is_call(y, r"std::vector<.*>::erase$") and is_this_field(call_obj(y), field) for y in walk(x["args"][1]))
    if x["k"] == "BinaryOperator" and x["op"] == "=" and var_ref(x["lhs"]) == itv:
        return any(is_call(y, r"std::vector<.*>::erase$") and is_this_field(call_obj(y), field) for y in walk(x["rhs"]))
    return False


def _rel_op(callee):
    """relational operator named by an operator-function callee ('std::operator<<char, ...>' is operator< of a template)"""
    import re
    m = re.search(r"operator([<>=]+)(.*)$", callee)
    if not m:
        return None
    run, rest = m.group(1), m.group(2)
    if rest and run.endswith("<") and len(run) > 1:
        run = run[:-1]  # the last '<' opens the template argument list
    return run if run in ("<", ">", "<=", ">=") else None


def _bound_search(facts, f, cfg, field):
    """(algorithm, comparator-op, compared-member) of the sorted-position search over this->field in f"""
    calls = [c for c in f.calls(r"^std::(lower_bound|upper_bound|equal_range|find_if|find|partition_point|binary_search)\b")
             if any(is_this_field(x, field) for x in walk(c))]
    if len(calls) != 1:
        raise AnalysisBroken("%s: expected one position search over %s, found %d" % (f.short, field, len(calls)))
    c = calls[0]
    algo = short(c["callee"]).split("::")[-1].split("<")[0]
    lam = [x for x in facts.fns if x.config == cfg and x.rec.get("parent") == f.name]
    # the comparator handed over by name: a (static) member or free function referenced in the call's arguments
    named = set(x["name"] for a_ in (c.get("args") or [])[3:] for x in walk(a_)
                if x["k"] == "DeclRefExpr" and x.get("dk") in ("CXXMethod", "Function") and x.get("name"))
    lam = lam + [x for x in facts.fns if x.config == cfg and x.name in named]
    ops = []
    for l in lam:
        ps = [p_["did"] for p_ in l.rec.get("params", [])]
        if len(ps) != 2:
            continue
        for r in l.g.return_nodes():
            v = strip(l.g.node_ast(r).get("val"), casts=True)
            if isnode(v) and v["k"] == "CXXOperatorCallExpr" and _rel_op(v["callee"]):
                op, lhs, rhs = _rel_op(v["callee"]), v["args"][0], v["args"][1]
            elif isnode(v) and v["k"] == "BinaryOperator" and v["op"] in ("<", ">", "<=", ">="):
                op, lhs, rhs = v["op"], v["lhs"], v["rhs"]
            else:
                continue
            side = lambda e: [i for i in (0, 1) if any(x["k"] == "DeclRefExpr" and x.get("did") == ps[i] for x in walk(e))]
            if side(lhs) == [0] and side(rhs) == [1]:
                pass
            elif side(lhs) == [1] and side(rhs) == [0]:
                op = {"<": ">", ">": "<", "<=": ">=", ">=": "<="}[op]
            else:
                continue
            # comp(first, second) == first <op> second
            ops.append("ascending" if op == "<" else "descending" if op == ">" else "non-strict " + op)
    return algo, ops


def r6_order_kept(ctx, facts, cfg):
    """R6c: the registries are searched by binary search (R6a/b), so they stay sorted by every operation: entries come in through the
    insert at the searched position and leave through erase (which keeps the order of the rest). No member function of the manager
    re-orders the vector: no swap / iter_swap / pop_back / sort-free assignment into an element, no push_back / emplace_back at the end"""
    n = 0
    for cls, field in (("quill::detail::SinkManager", "_sinks"), ("quill::detail::LoggerManager", "_loggers")):
        for f in [x for x in facts.fns if x.config == cfg and x.cls == cls]:
            bad = []
            for c in f.calls():
                cal = short(c.get("callee") or "")
                onfield = any(is_this_field(x, field) for a in (c.get("args") or []) for x in walk(a)) or \
                    (call_obj(c) is not None and any(is_this_field(x, field) for x in walk(call_obj(c))))
                if not onfield:
                    continue
                if re.search(r"(^std::swap$|^std::iter_swap$|::pop_back$|::push_back$|::emplace_back$|^std::rotate$|^std::reverse$|^std::remove(_if)?$|::swap$)", cal):
                    bad.append("%s at %s" % (cal, c.get("loc")))
            for x in f.walk():
                if x["k"] == "CXXOperatorCallExpr" and short(x.get("callee") or "").endswith("operator=") and len(x.get("args") or []) == 2:
                    tgt = strip(x["args"][0], casts=True)
                    if isnode(tgt) and tgt["k"] == "CXXOperatorCallExpr" and short(tgt.get("callee") or "").endswith("operator[]") and \
                            any(is_this_field(y, field) for y in walk(tgt)):
                        bad.append("assignment into %s[...] at %s" % (field, x.get("loc")))
            if any(is_this_field(y, field) for y in f.walk()):
                n += 1
                ctx.ob("C17.R6c", "%s::%s:keeps-%s-sorted" % (cls.split("::")[-1], f.base, field), not bad,
                       "the sorted registry is changed only by insert-at-the-searched-position and by erase (re-ordering operations: %s)"
                       % ("; ".join(bad) or "none"), fn=f)
    ctx.floor("C17.R6c", "member functions touching the sorted registries", n, 8)


def r6(ctx, facts, cfg):
    """sorted registries: the insert position is the position the lookup inspects"""
    r6_order_kept(ctx, facts, cfg)
    for cls, ins, fnd, field, stale in (("quill::detail::SinkManager", "_insert_sink", "_find_sink", "_sinks", True),
                                        ("quill::detail::LoggerManager", "_insert_logger", "_find_logger", "_loggers", False)):
        fi = facts.need(cls + "::" + ins, cfg)[0]
        ff = facts.need(cls + "::" + fnd, cfg)[0]
        ai, oi = _bound_search(facts, fi, cfg, field)
        af, of = _bound_search(facts, ff, cfg, field)
        if not oi or not of:
            raise AnalysisBroken("%s: comparator of the position search not recognised" % cls)
        ctx.ob("C17.R6a", "%s:%s/%s:same-order" % (cls.split("::")[-1], ins, fnd), oi == of,
               "insert and lookup search the sorted registry with the same ordering (insert: %s, lookup: %s); a lookup that orders "
               "differently misses entries that are present and the same name is created twice" % (oi, of), fn=fi)
        if stale:
            if ai not in ("lower_bound", "upper_bound") or af not in ("lower_bound", "upper_bound"):
                raise AnalysisBroken("%s: position search %s/%s has a shape no accepted idiom covers" % (cls, ai, af))
            ctx.ob("C17.R6b", "%s:%s/%s:fresh-entry-shadows-stale" % (cls.split("::")[-1], ins, fnd), ai == af == "lower_bound",
                   "the registry may still hold an expired entry of the same name (the user dropped the last reference after the last "
                   "pruning); the lookup inspects the first entry of that name (%s), so a re-created sink must be inserted in front of it "
                   "(%s) — otherwise every later lookup sees the expired entry and creates yet another sink on the same file" % (af, ai), fn=fi)


def r9_csv_writer(ctx, facts, cfg):
    """R9: a CsvWriter owns a logger of its own for the time it lives: every constructor creates (or gets) the logger under the class's
    name prefix + the caller's name, and the destructor removes it with the *blocking* form — when the destructor has returned the
    logger is gone and its file closed, so a writer for the same file can be created again (the non-blocking form returns while the
    old logger, with the file still open, may still exist)."""
    dt = [f for f in facts.fns if f.config == cfg and f.rec.get("dtor") and short(f.cls or "") == "quill::CsvWriter"]
    if not dt:
        raise AnalysisBroken("~CsvWriter not instantiated in the witness")
    for f in dt[:2]:
        g = f.g
        rb = [c for c in f.calls(r"FrontendImpl<.*>::remove_logger_blocking$")]
        rp = npos(f, rb)
        ok = bool(rb) and all(c.get("args") and is_this_field(strip(c["args"][0], casts=True), "_logger") for c in rb) and \
            not g.exists_path([g.entry_node], [g.exit_node], avoid_nodes=rp)
        ctx.ob("C17.R9a", "CsvWriter<%s>::~CsvWriter:blocking-removal" % f.name.split("CsvWriter<")[1].split(">::")[0][-40:], ok,
               "the destructor calls remove_logger_blocking(_logger) on every path (not the non-blocking form)", fn=f)
    ct = [f for f in facts.fns if f.config == cfg and f.rec.get("ctor") and short(f.cls or "") == "quill::CsvWriter" and f.rec.get("params") and
          "CsvWriter" not in (f.rec["params"][0].get("ty") or "")]
    ctx.floor("C17.R9b", "CsvWriter constructors instantiated", len(ct), 1)
    for f in ct[:6]:
        g = f.g
        mk = [n for n in f.walk() if n["k"] == "BinaryOperator" and n["op"] == "=" and is_this_field(n["lhs"], "_logger") and
              any(is_call(x, r"FrontendImpl<.*>::create_or_get_logger$") for x in walk(n["rhs"]))]
        p0 = f.rec["params"][0]["did"]
        named = bool(mk) and all(any(is_this_field(x, "_logger_name_prefix") or (x["k"] == "MemberExpr" and x.get("mname") == "_logger_name_prefix") or
                                     (x["k"] == "DeclRefExpr" and "_logger_name_prefix" in (x.get("name") or "")) for x in walk(n["rhs"])) and
                                 any(var_ref(x) == p0 for x in walk(n["rhs"])) for n in mk)
        thr = [q for x in f.walk() if x["k"] == "CXXThrowExpr" for q in g.positions(x)]
        every = bool(mk) and not g.exists_path([g.entry_node], [g.exit_node], avoid_nodes=npos(f, mk) + thr)
        ctx.ob("C17.R9b", "CsvWriter::CsvWriter(%s):own-logger" % (f.rec["params"][1].get("ty") if len(f.rec["params"]) > 1 else "")[:30], named and every,
               "_logger is set on every path from create_or_get_logger(prefix + the caller's name, ...) (%s, %s)" % (named, every), fn=f)


def r10_get_valid_logger(ctx, facts, cfg, rule="C17.R10"):
    """R10: get_valid_logger (what the signal handler falls back to, and what users call to log 'through any logger') hands out a logger only
    on the 'is valid' outcome — an invalidated logger may be freed by the backend at any time — and, when an exclusion text is given, only
    one whose name does not contain it; under the registry lock."""
    f = facts.need("quill::detail::LoggerManager::get_valid_logger", cfg)[0]
    g = f.g
    valid = [(b, t) for (b, t, c) in branches_on_call(f, r"LoggerBase::is_valid_logger$")]
    rets = [(p, g.node_ast(p)) for p in g.return_nodes()]
    nonnull = [p for (p, r) in rets if not is_null(strip(r.get("val"), casts=True))]
    excl = f.rec["params"][0]["did"] if f.rec.get("params") else None
    notfound = []
    for bid, b in g.blocks.items():
        c = g.term_cond(bid)
        nc = norm_cmp(c) if c is not None else None
        if nc and nc[0] in ("==", "!=") and any(is_call(x, r"basic_string<.*>::find\b") and any(var_ref(y) == excl for y in walk(x)) for x in walk(c)) and \
                any(x["k"] == "DeclRefExpr" and x.get("name", "").endswith("npos") for x in walk(c)):
            notfound.append((bid, "T" if nc[0] == "==" else "F"))       # label of 'name does not contain the exclusion text'
    emp = [(b, t) for (b, t, c) in branches_on_call(f, r"basic_string_view<.*>::empty$|basic_string<.*>::empty$") if var_ref(call_obj(c)) == excl]
    locks = [d for d in f.var_decls().values() if "LockGuard" in (d.get("ty") or "")]
    ok = bool(valid) and bool(nonnull) and bool(locks) and not g.exists_path([g.entry_node], nonnull, avoid_edges=valid) and \
        (excl is None or (bool(notfound) and bool(emp) and not g.exists_path([g.entry_node], nonnull, avoid_edges=notfound + emp)))
    ctx.ob(rule, "LoggerManager::get_valid_logger:valid-and-not-excluded", ok,
           "a logger is returned only through the 'is_valid_logger()' outcome and, with an exclusion text, only through 'the text is empty' or "
           "'the name does not contain it' (%d / %d / %d tests), with the registry locked" % (len(valid), len(emp), len(notfound)), fn=f)
