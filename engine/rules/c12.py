"""C12 — sink line equals the pattern with attributes substituted: table / wiring / rejection clauses (DESIGN §4 C12)."""
import re
from qlib import (AnalysisBroken, strip, isnode, walk, is_call, norm_cmp, var_ref, is_null, const_val, short, call_obj,
                  expr_key, field_name, is_this_field)
from rules.common import (branches_on_var_null, core_and_neg, tnode, other, cpos, npos, branches_on_call, in_subtree, need_some, straight_after,
                          flatten)
from rules.c02 import cmp_sides

EXPLANATION = ("Pattern formatter tables and wiring. R1 (exhaustive over the Attribute enumerators): the i-th named argument handed to "
               "the pattern rewriter, the name registered by _set_arg<i> and the name that _attribute_from_string maps to enumerator i "
               "are the same string, and ATTR_NR_ITEMS equals the number of names (slot order is indexed by position, 'is used' by "
               "enumerator: they coincide only if this holds). R2: in format() every attribute except Message is set exactly under its "
               "own 'is used in the pattern' guard, Message unconditionally, each from the confirmed source (file name from the "
               "metadata's file_name(), thread id from the thread-id parameter, ...); the callers pass thread id / name / level texts in "
               "those positions. R3: the level name and short-code tables have one entry per LogLevel enumerator, entry i being the "
               "name of enumerator i; loglevel_from_string covers every enumerator; out-of-range lookups throw. R4: an unterminated "
               "'%(' and an unknown attribute end in a throw on every path, at construction; the rewritten pattern gets its final "
               "newline. R5: the multi-line splitter is chosen iff the option is on and there are no named args; otherwise at most one "
               "trailing newline is stripped; the splitter writes one statement per line. R4g: the attribute scan never skips a character "
               "it has not looked at. R6: MacroMetadata offsets (file name, line, short location). R7: two option sets are equal — and a "
               "formatter is shared between loggers — only if every data member is equal. R8 (= C16.R3): each sink receives the line "
               "of its own override pattern if it has one, else the logger's, chosen afresh per sink."
               " R1f/R1g: the rewriter's starting state and the one-index-per-name registration. R2i/R2j: the text of %(named_args); tags read only when present. R6w: compile-time witness for the two source-location offsets. R9e: the text is shortened to the message part before anything rewrites it. R10: the process id is set on every start path. R11/R12 (= C18.R3, C10.R2): replayed backtrace records; per-event clean-up."
               ' R9a is asked on both arms of the named-args test (a LOG_RUNTIME_METADATA statement with a named placeholder is not lost). R14t (= C03.R4t): the run-time level, text and named args travel with the event.')
TECHNIQUE = "static analysis: custom checker over clang AST/CFG facts (table and path rules) plus a compile-time witness (static_assert table over 'path:line' literals evaluated by the compiler) for MacroMetadata's constexpr offsets"
NOT_DECIDED = ("The rewritten fmt string for arbitrary literal text and specs, line splitting for every arrangement of newlines as "
               "values, MacroMetadata offset arithmetic for file name / line, attributes used twice (excluded by the property).")
EXHAUSTIVE = "the Attribute and LogLevel enumerators (tables re-derived from the enums on every run)"
ASSUMPTIONS = []
PF = "quill::PatternFormatter::"
BW = "quill::detail::BackendWorker::"

# attribute -> where its value must come from in format(): ("call", regex on callee) or ("param", position) or ("field", name)
SOURCE = {
    "Time": ("call", r"TimestampFormatter::format_timestamp$"),
    "FileName": ("call", r"MacroMetadata::file_name$"),
    "CallerFunction": ("call", r"MacroMetadata::caller_function$"),
    "LogLevel": ("param", 5),
    "LogLevelShortCode": ("param", 6),
    "LineNumber": ("call", r"MacroMetadata::line$"),
    "Logger": ("param", 4),
    "FullPath": ("call", r"MacroMetadata::full_path$"),
    "ThreadId": ("param", 1),
    "ThreadName": ("param", 2),
    "ProcessId": ("param", 3),
    "SourceLocation": ("call", r"MacroMetadata::source_location$"),
    "ShortSourceLocation": ("call", r"MacroMetadata::short_source_location$"),
    "Message": ("param", 9),
    "Tags": ("call", r"MacroMetadata::tags$"),
    "NamedArgs": ("field", "_formatted_named_args_buffer"),
}


def run(ctx):
    facts = ctx.facts("core.cpp", "A")
    en = facts.enum("quill::PatternFormatter::Attribute", "A")
    if not en:
        raise AnalysisBroken("PatternFormatter::Attribute not found")
    enums = [(n, v) for (n, v) in en["enumerators"]]
    if not enums or enums[-1][0] != "ATTR_NR_ITEMS":
        raise AnalysisBroken("ATTR_NR_ITEMS is not the last Attribute enumerator")
    attrs = enums[:-1]
    r1(ctx, facts, attrs, enums[-1][1])
    r2(ctx, facts, attrs)
    r2_named_args_and_tags(ctx, facts)
    r3(ctx, facts)
    r4(ctx, facts)
    r4_scan(ctx, facts)
    r9_runtime_metadata(ctx, facts)
    # which formatter's line a sink receives (shared with C16.R3: own override pattern if the sink has one, else the logger's)
    from rules import c16
    from rules.c09 import Renamed
    c16.r3(Renamed(ctx, "C16.R3", "C12.R8"), facts)
    r5(ctx, facts)
    r6(ctx, facts)
    r6w_offsets_witness(ctx)
    r10_process_id(ctx, facts)
    # a statement replayed from the backtrace ring is formatted from the thread id / thread name / event stored with it (= C18.R3);
    # the reused backend slot hands no named args of an earlier statement to the %(named_args) attribute (= C10.R2)
    from rules import c18, c10
    c18.r3(Renamed(ctx, "C18.R3", "C12.R11"), facts, "A")
    c10.r2(Renamed(ctx, "C10.R2", "C12.R12"), facts, "A")
    # the level printed by %(log_level) / %(log_level_short_code) of a run-time-level statement, its text and its named args travel with the
    # event through buffer growth and into the backtrace ring: every member is carried by the move operations (= C03.R4t)
    from rules import c03
    c03.transit_event_transfer(Renamed(ctx, "C03.R4t", "C12.R14t"), facts, "A", "C03.R4")
    # the pattern scanner never restarts from the beginning of the pattern (npos + 1): same rule as the template scanner, C19.R5d
    from rules import c19
    c19.search_never_starts_behind_npos(ctx, facts.need("quill::PatternFormatter::_generate_fmt_format_string", "A")[0], "C12.R13",
                                        "_generate_fmt_format_string", floor=1)


def targ_index(callee, fname):
    m = re.search(re.escape(fname) + r"<(?:\(quill::PatternFormatter::Attribute\))?(\d+)", callee)
    if m:
        return int(m.group(1))
    m = re.search(re.escape(fname) + r"<quill::PatternFormatter::(?:Attribute::)?(\w+)", callee)
    return m.group(1) if m else None


def r1(ctx, facts, attrs, nr):
    sp = facts.need(PF + "_set_pattern", "A")[0]
    gen = need_some(sp.calls(PF.replace("::", "::") + r"_generate_fmt_format_string<"), "_generate_fmt_format_string call")
    names_pos = []
    for a in gen[0]["args"][2:]:
        lit = [x for x in walk(a) if x["k"] == "StringLiteral" and x.get("len", 0) > 0]
        names_pos.append(lit[0]["str"] if lit else None)
    set_args = {}
    for c in sp.calls(r"PatternFormatter::_set_arg<"):
        i = targ_index(c["callee"], "_set_arg")
        lit = [x for x in walk(c) if x["k"] == "StringLiteral"]
        set_args[i] = lit[0]["str"] if lit else None
    af = facts.need(PF + "_attribute_from_string", "A")[0]
    amap = {}
    for n in af.walk():
        if n["k"] in ("CXXConstructExpr", "InitListExpr") and "pair<const std::" in n.get("ty", "") and "Attribute" in n.get("ty", ""):
            lit = [x for x in walk(n) if x["k"] == "StringLiteral"]
            ev = [x for x in walk(n) if x["k"] == "DeclRefExpr" and x.get("dk") == "EnumConstant"]
            if len(lit) == 1 and len(ev) == 1:
                amap[lit[0]["str"]] = (ev[0]["name"].split("::")[-1], ev[0].get("cval"))
    ctx.ob("C12.R1a", "Attribute:count", nr == len(attrs) == len(names_pos) == len(set_args) == len(amap),
           "ATTR_NR_ITEMS (%d) = enumerators (%d) = named arguments (%d) = registered slots (%d) = name-map rows (%d)" %
           (nr, len(attrs), len(names_pos), len(set_args), len(amap)), fn=sp)
    for (ename, val) in attrs:
        n_pos = names_pos[val] if val < len(names_pos) else None
        n_set = set_args.get(val)
        row = amap.get(n_pos)
        ok = n_pos is not None and n_pos == n_set and row is not None and row[0] == ename and row[1] == val
        ctx.ob("C12.R1b", "Attribute::%s" % ename, ok,
               "enumerator %s (=%d): %d-th named argument is '%s', slot %d is registered as '%s', the name maps back to %s" %
               (ename, val, val, n_pos, val, n_set, row), fn=sp)


def r2(ctx, facts, attrs):
    f = facts.need(PF + "format", "A")[0]
    g = f.g
    byval = {v: n for (n, v) in attrs}
    params = [p["did"] for p in f.rec["params"]]
    setters = {}
    for c in f.calls(r"PatternFormatter::_set_arg_val<"):
        i = targ_index(c["callee"], "_set_arg_val")
        setters.setdefault(byval.get(i, i), []).append(c)

    def guard_of(c):
        for a in f.ancestors(c):
            if a["k"] == "IfStmt":
                core, neg = core_and_neg(a["cond"])
                for x in walk(core):
                    if is_call(x, r"std::bitset<.*>::operator\[\]") and is_this_field(call_obj(x), "_is_set_in_pattern"):
                        v = const_val(x["args"][1]) if len(x.get("args", [])) > 1 else None
                        return (byval.get(v, v), neg, in_subtree(c, a.get("then")))
        return None
    for (ename, val) in attrs:
        cs = setters.get(ename, [])
        if ename == "Message":
            pos = npos(f, cs)
            fmtc = cpos(f, r"^fmtquill::(v\d+::)?vformat_to")
            ok = len(cs) >= 1 and all(guard_of(c) is None for c in cs) and bool(fmtc) and all(g.dominates(pos, p) for p in fmtc)
            ctx.ob("C12.R2a", "format:Message", ok, "the message is always substituted (set on every path before formatting)", fn=f)
        else:
            gs = [guard_of(c) for c in cs]
            ok = len(cs) >= 1 and all(x is not None and x[0] == ename and not x[1] and x[2] for x in gs)
            ctx.ob("C12.R2a", "format:%s" % ename, ok,
                   "%s is set (%d site(s)) only under its own 'used in the pattern' guard: %s" % (ename, len(cs), [x[0] if x else None for x in gs]), fn=f)
        if ename not in SOURCE:
            ctx.note("attribute %s has no confirmed source in the rule table: its wiring is checked (R1, R2a), its source is not" % ename)
            continue
        kind, what = SOURCE[ename]
        ok = bool(cs)
        for c in cs:
            arg = c["args"][0] if c.get("args") else None
            if kind == "call":
                good = any(is_call(x, what) for x in walk(arg)) or (ename == "Tags" and not [x for x in walk(arg) if x["k"] == "DeclRefExpr"])
            elif kind == "param":
                refs = [x.get("did") for x in walk(arg) if x["k"] == "DeclRefExpr" and x.get("dk") == "ParmVar"]
                good = refs == [params[what]] if what < len(params) else False
            else:
                good = any(is_this_field(x, what) for x in walk(arg))
            ok = ok and good
        ctx.ob("C12.R2b", "format:%s:source" % ename, ok,
               "%s takes its value from %s" % (ename, what if kind != "param" else "parameter #%d (%s)" % (what, f.rec["params"][what]["name"] if what < len(params) else "?")), fn=f)
    # R2h: reused buffers are cleared on every path before they are read in this call
    for buf in ("_formatted_named_args_buffer", "_formatted_log_message_buffer"):
        uses = [c for c in f.calls() if c["k"] == "CXXMemberCallExpr" and is_this_field(call_obj(c), buf)]
        clears = [c for c in uses if short(c["callee"]).endswith("::clear")]
        # ... or by a member function of the formatter called from here that empties the buffer on every path before it touches it
        # (the rebuild of the buffer extracted into a helper): the call then counts as the clear
        for h in facts.callgraph("A").get(id(f), ()):
            if h.cls != f.cls or h is f:
                continue
            hu = [c for c in h.calls() if c["k"] == "CXXMemberCallExpr" and is_this_field(call_obj(c), buf)]
            hc = npos(h, [c for c in hu if short(c["callee"]).endswith("::clear")])
            ho = npos(h, [c for c in hu if not short(c["callee"]).endswith("::clear")])
            if hc and not h.g.exists_path([h.g.entry_node], [h.g.exit_node], avoid_nodes=hc) and all(h.g.dominates(hc, p_) for p_ in ho):
                clears = clears + [c for c in f.calls() if c.get("callee") and short(c["callee"]) == h.short]
        reads = [c for c in uses if re.search(r"::(data|size|begin|end)$", short(c["callee"]))]
        writes_ = [c for c in f.calls(r"^std::back_inserter") if any(is_this_field(x, buf) for x in walk(c))]
        cp_ = npos(f, clears)
        rp_ = npos(f, reads + writes_)
        ok = bool(cp_) and bool(rp_) and all(g.dominates(cp_, p) for p in rp_)
        ctx.ob("C12.R2h", "format:%s:cleared-before-use" % buf, ok,
               "the reused buffer %s is cleared on every path before it is read or appended to for this statement (no text of the previous "
               "statement leaks into the line)" % buf, fn=f)
    # Time: the timestamp parameter is what gets formatted
    tc = f.calls(r"TimestampFormatter::format_timestamp$")
    ok = bool(tc) and all([x.get("did") for x in walk(c["args"][0]) if x["k"] == "DeclRefExpr" and x.get("dk") == "ParmVar"] == [params[0]] for c in tc)
    ctx.ob("C12.R2c", "format:Time:timestamp-parameter", ok, "the time attribute renders the statement's timestamp parameter", fn=f)
    # callers
    w = facts.need(BW + "_write_log_statement", "A")[0]
    wp = [p["did"] for p in w.rec["params"]]
    fc = need_some(w.calls(r"PatternFormatter::format$"), "_write_log_statement: format calls")
    for i, c in enumerate(fc):
        a = c["args"]

        def is_param(n, k):
            return [x.get("did") for x in walk(n) if x["k"] == "DeclRefExpr" and x.get("dk") == "ParmVar"] == [wp[k]]
        ok = field_name(a[0]) == "timestamp" and is_param(a[1], 1) and is_param(a[2], 2) and any(is_this_field(x, "_process_id") for x in walk(a[3])) and \
            any(x["k"] == "MemberExpr" and x.get("mname") == "logger_name" for x in walk(a[4])) and is_param(a[5], 3) and is_param(a[6], 4) and \
            any(x["k"] == "MemberExpr" and x.get("mname") == "macro_metadata" for x in walk(a[7])) and \
            any(x["k"] == "MemberExpr" and x.get("mname") == "named_args" for x in walk(a[8])) and is_param(a[9], 5)
        ctx.ob("C12.R2d", "_write_log_statement:format-call#%d" % i, ok,
               "format() receives timestamp, thread id, thread name, process id, logger name, level name, level short code, metadata, "
               "named args and message in that order from the corresponding sources", loc=c["loc"], fn=w)
    d = facts.need(BW + "_dispatch_transit_event_to_sinks", "A")[0]
    dp = [p["did"] for p in d.rec["params"]]
    inits = d.var_inits()
    calls = d.calls(r"::(_write_log_statement|_process_multi_line_message)$")
    ok = bool(calls)
    for c in calls:
        a = c["args"]
        def src(n):
            v = var_ref(n)
            return inits.get(v) if v in inits else n
        ok = ok and var_ref(a[1]) == dp[1] and var_ref(a[2]) == dp[2]
        d3, d4 = src(a[3]), src(a[4])
        ok = ok and any(x["k"] == "MemberExpr" and x.get("mname") == "log_level_descriptions" for x in walk(d3)) and \
            any(x["k"] == "MemberExpr" and x.get("mname") == "log_level_short_codes" for x in walk(d4)) and \
            all(any(is_call(x, r"TransitEvent::log_level$") for x in walk(y)) for y in (d3, d4))
    ctx.ob("C12.R2e", "_dispatch_transit_event_to_sinks:level-texts", ok,
           "level name and short code are looked up for the event's effective level in the respective tables and handed on with thread "
           "id and name unchanged", fn=d)
    p = facts.need(BW + "_process_transit_event", "A")[0]
    lams = [x for x in facts.fns if x.config == "A" and x.rec.get("parent") == p.name]
    in_lams = set()
    for l in lams:
        for c in l.calls(r"::_dispatch_transit_event_to_sinks$"):
            in_lams.add(c["id"])
    dc = [c for c in p.calls(r"::_dispatch_transit_event_to_sinks$") if not any(a["k"] == "LambdaExpr" for a in p.ancestors(c))]
    ok = bool(dc)
    for c in dc:
        ok = ok and is_call(strip(c["args"][1], casts=True), r"ThreadContext::thread_id$") and is_call(strip(c["args"][2], casts=True), r"ThreadContext::thread_name$")
    for l in lams:
        lp = [q["did"] for q in l.rec["params"]]
        for c in l.calls(r"::_dispatch_transit_event_to_sinks$"):
            ok = ok and len(lp) == 3 and var_ref(c["args"][0]) == lp[0] and var_ref(c["args"][1]) == lp[1] and var_ref(c["args"][2]) == lp[2]
    ctx.ob("C12.R2f", "_process_transit_event:thread-id-name", ok,
           "the dispatcher receives the owning thread's id and name in that order (directly and through the replay callbacks)", fn=p)
    bp = facts.need("quill::detail::BacktraceStorage::process", "A")[0]
    cb = [c for c in bp.calls() if c["k"] == "CXXOperatorCallExpr" and var_ref(c["args"][0]) == bp.rec["params"][0]["did"]]
    def mem(n):
        return [x.get("mname") for x in walk(n) if x["k"] == "MemberExpr" and x.get("dk") == "Field" and x.get("mname") != "_stored_events"]
    ok = bool(cb) and all(mem(c["args"][2]) == ["thread_id"] and mem(c["args"][3]) == ["thread_name"] and mem(c["args"][1]) == ["transit_event"] for c in cb)
    ctx.ob("C12.R2g", "BacktraceStorage::process:replay-arguments", ok,
           "a replayed statement is handed out with the thread id and thread name that were stored with it, in that order", fn=bp)


def r3(ctx, facts):
    en = facts.enum("quill::LogLevel", "A")
    bo = facts.cls("quill::BackendOptions", "A")
    if not en or not bo:
        raise AnalysisBroken("LogLevel / BackendOptions not found")
    levels = en["enumerators"]
    for fname, check_names in (("log_level_descriptions", True), ("log_level_short_codes", False)):
        fld = [x for x in bo["fields"] if x["name"] == fname]
        if not fld or not isnode(fld[0].get("init")):
            raise AnalysisBroken("BackendOptions::%s initialiser not found" % fname)
        strs = [x["str"] for x in walk(fld[0]["init"]) if x["k"] == "StringLiteral"]
        ok = len(strs) == len(levels)
        if ok and check_names:
            ok = all(strs[v].replace("_", "").lower() == n.lower() for (n, v) in levels)
        if ok and not check_names:
            ok = len(set(strs)) == len(strs) and all(s for s in strs)
        ctx.ob("C12.R3a", "BackendOptions::%s" % fname, ok,
               "%d entries for %d LogLevel enumerators%s: %s" % (len(strs), len(levels), ", entry i names enumerator i" if check_names else ", all distinct and non-empty", strs),
               loc=fld[0]["loc"])
    f = facts.need("quill::loglevel_from_string", "A")[0]
    g = f.g
    covered = {}
    for r in g.return_nodes():
        v = f.g.node_ast(r).get("val")
        name = None
        for x in walk(v):
            if x["k"] == "DeclRefExpr" and x.get("dk") == "EnumConstant" and x["name"].startswith("quill::LogLevel::"):
                name = x["name"].split("::")[-1]
        if not name:
            continue
        # strings compared on the way: nearest enclosing if
        node = f.g.node_ast(r)
        ifs = [a for a in f.ancestors(node) if a["k"] == "IfStmt"]
        lits = [x["str"] for x in walk(ifs[0]["cond"]) if x["k"] == "StringLiteral"] if ifs else []
        covered[name] = lits
    for (n, v) in levels:
        lits = covered.get(n, [])
        ctx.ob("C12.R3b", "loglevel_from_string:%s" % n, bool(lits) and all(s.replace("_", "") == n.lower() for s in lits),
               "LogLevel::%s is reachable from the string(s) %s" % (n, lits), fn=f)
    t = facts.need("quill::detail::log_level_to_string", "A")[0]
    tg = t.g
    rng = []
    for bid, b in tg.blocks.items():
        c = tg.term_cond(bid)
        cs = cmp_sides(c) if c is not None else None
        if cs and any(var_ref(x) == t.rec["params"][2]["did"] for x in walk(cs[1])):
            rng.append((bid, cs[0]))
    throws = tg.pos_of(lambda n: isnode(n) and n.get("k") == "CXXThrowExpr")
    rets = tg.return_nodes()
    ok = bool(rng) and rng[0][1] == "<=" and bool(throws) and not tg.exists_path([tnode(tg, rng[0][0])], rets, avoid_edges=[(rng[0][0], "F")])
    ctx.ob("C12.R3c", "log_level_to_string:bounds", ok,
           "a level at or beyond the table size is rejected with an error, never indexed", fn=t)


def r4(ctx, facts):
    fs = facts.need(PF + "_generate_fmt_format_string", "A")
    f = fs[0]
    g = f.g
    throws = g.pos_of(lambda n: isnode(n) and n.get("k") == "CXXThrowExpr")
    rets = g.return_nodes()
    found = {"paren": False, "name": False}
    for bid, b in g.blocks.items():
        c = g.term_cond(bid)
        if c is None:
            continue
        nc = norm_cmp(c)
        kind = None
        if nc and nc[0] == "==" and any(x["k"] == "DeclRefExpr" and x.get("name", "").endswith("npos") for x in walk(c)) and \
                any(x["k"] == "DeclRefExpr" and "closed_paren" in x.get("name", "") for x in walk(c)):
            kind = "paren"
        cs = cmp_sides(c)
        if cs and const_val(cs[2]) == 0 and cs[0] == "<" and var_ref(cs[1]) is not None and "int" in f.var_decls().get(var_ref(cs[1]), {}).get("ty", ""):
            kind = "name"
        if kind:
            after = straight_after(g, bid, "T")
            ok = any(p in throws for p in after) and not any(p in rets for p in g.reach([tnode(g, bid)], avoid_edges=[(bid, "F")]) if False)
            found[kind] = found[kind] or ok
    ctx.ob("C12.R4a", "_generate_fmt_format_string:unterminated-paren-throws", found["paren"],
           "'%(' without a closing ')' ends in a throw", fn=f)
    ctx.ob("C12.R4b", "_generate_fmt_format_string:unknown-attribute-throws", found["name"],
           "an attribute name that matches no named argument ends in a throw", fn=f)
    # final newline
    app = [c for c in f.calls(r"basic_string<.*>::(operator\+=|append|push_back)") if var_ref(call_obj(c) if c["k"] == "CXXMemberCallExpr" else c["args"][0]) == f.rec["params"][1]["did"]
           and any((x["k"] == "StringLiteral" and x.get("str") == "\n") or (x["k"] == "CharacterLiteral" and x.get("val") == 10) for x in walk(c))]
    ap = npos(f, app)
    ok = bool(ap) and all(not g.exists_path([g.entry_node], [r], avoid_nodes=ap) for r in rets)
    ctx.ob("C12.R4c", "_generate_fmt_format_string:final-newline", ok, "the rewritten pattern ends with a newline on every path", fn=f)
    af = facts.need(PF + "_attribute_from_string", "A")[0]
    ag = af.g
    throws = ag.pos_of(lambda n: isnode(n) and n.get("k") == "CXXThrowExpr")
    miss = []
    for bid, b in ag.blocks.items():
        c = ag.term_cond(bid)
        if c is not None and any(is_call(x, r"::c?end$") for x in walk(c)):
            core, neg = core_and_neg(c)
            eq = "==" in (core.get("callee", "") if is_call(core) else core.get("op", ""))
            miss.append((bid, "T" if eq != neg else "F"))
    ok = bool(miss) and bool(throws) and not ag.exists_path([tnode(ag, miss[0][0])], ag.return_nodes(), avoid_edges=[(miss[0][0], other(miss[0][1]))])
    ctx.ob("C12.R4d", "_attribute_from_string:miss-throws", ok, "an unknown attribute name is an error, never a default attribute", fn=af)
    ctor = [x for x in facts.fns if x.config == "A" and x.cls == "quill::PatternFormatter" and x.rec.get("ctor") and x.rec.get("inits")]
    ok = bool(ctor) and bool(ctor[0].calls(r"PatternFormatter::_set_pattern$"))
    sp = facts.need(PF + "_set_pattern", "A")[0]
    ok = ok and bool(sp.calls(r"PatternFormatter::_generate_fmt_format_string<"))
    ctx.ob("C12.R4e", "PatternFormatter::PatternFormatter:validates-at-creation", ok,
           "the pattern is parsed (and rejected) when the formatter is created", fn=ctor[0] if ctor else None)
    # bookkeeping of a found attribute: slot order and 'is used' bit
    setc = [c for c in f.calls(r"std::bitset<.*>::set$")]
    ok = bool(setc) and all(any(is_call(x, r"PatternFormatter::_attribute_from_string$") for x in walk(c)) or
                            (var_ref(c["args"][0]) in f.var_inits() and any(is_call(x, r"PatternFormatter::_attribute_from_string$") for x in walk(f.var_inits()[var_ref(c["args"][0])])))
                            for c in setc)
    ctx.ob("C12.R4f", "_generate_fmt_format_string:marks-attribute-used", ok,
           "every accepted %(attribute) marks that attribute as used (looked up by the parsed name)", fn=f)


def r4_scan(ctx, facts):
    """R4g: the attribute scan never skips a character it has not looked at. R7: options equality compares every member."""
    f = facts.need(PF + "_generate_fmt_format_string", "A")[0]
    g = f.g
    pat = f.rec["params"][1]["did"]
    inits = f.var_inits()
    searches = [c for c in f.calls(r"basic_string<.*>::(find_first_of|find)$") if var_ref(call_obj(c)) == pat and
                any(x["k"] == "CharacterLiteral" and x.get("val") == 37 for x in walk(c["args"][0]))]
    posv = None
    for vid, i in inits.items():
        if isnode(i) and any(c is strip(i, casts=True) or in_subtree(c, i) for c in searches):
            posv = vid
    if posv is None or len(searches) < 3:
        raise AnalysisBroken("_generate_fmt_format_string: '%' searches / position variable not found")
    repl = [c for c in f.calls(r"basic_string<.*>::replace$") if var_ref(call_obj(c)) == pat]
    rp = npos(f, repl)
    repl_vars = set(var_ref(c["args"][2]) for c in repl if len(c["args"]) > 2 and var_ref(c["args"][2]) is not None)
    repl_lits = set(len(x["str"]) for c in repl if len(c["args"]) > 2 for x in walk(c["args"][2]) if x["k"] == "StringLiteral")

    def len_term(e):
        e = strip(e, casts=True)
        if is_call(e, r"basic_string<.*>::(length|size)$") and var_ref(call_obj(e)) in repl_vars:
            return True
        v = var_ref(e)
        if v is not None and v != posv:
            asg = f.assignments_to_var(v)
            srcs = [a.get("rhs") for a in asg if a["k"] == "BinaryOperator"] + ([inits[v]] if isnode(inits.get(v)) else [])
            return bool(srcs) and all(len_term(x) or (const_val(x) is not None and const_val(x) in repl_lits) for x in srcs)
        return False

    def terms(e):
        e = strip(e, casts=True)
        if isnode(e) and e["k"] == "BinaryOperator" and e["op"] == "+":
            return terms(e["lhs"]) + terms(e["rhs"])
        return [e]
    bad, n_attr, n_other = [], 0, 0
    for c in searches:
        ps = g.positions(c)
        asg_here = [a for a in f.assignments_to_var(posv) if in_subtree(c, a.get("rhs") if a["k"] == "BinaryOperator" else a)]
        if not asg_here:
            continue  # the initial search
        after_replace = any(g.exists_path(rp, [p_]) and not g.exists_path([p_], rp, avoid_nodes=[q for a in f.assignments_to_var(posv) for q in g.positions(a)]) for p_ in ps) and \
            all(not g.exists_path([g.entry_node], [p_], avoid_nodes=rp) for p_ in ps)
        start = c["args"][1] if len(c["args"]) > 1 and not (isnode(c["args"][1]) and c["args"][1]["k"] == "CXXDefaultArgExpr") else None
        if after_replace:
            n_attr += 1
            if start is None or const_val(start) == 0:
                continue
            ts = terms(start)
            ok = sum(1 for t in ts if var_ref(t) == posv) == 1 and all(var_ref(t) == posv or len_term(t) for t in ts)
            if not ok:
                bad.append("after a replacement the search resumes at %s" % c["loc"])
        else:
            n_other += 1
            ts = terms(start) if start is not None else []
            ok = len(ts) == 2 and sum(1 for t in ts if var_ref(t) == posv) == 1 and sum(1 for t in ts if const_val(t) == 1) == 1
            if not ok:
                bad.append("after a '%%' that opens no attribute the search resumes at %s" % c["loc"])
    ctx.ob("C12.R4g", "_generate_fmt_format_string:scan-skips-nothing", not bad and n_attr >= 1 and n_other >= 1,
           "after an attribute was replaced the search for the next '%%' resumes at the start, at the replacement or right behind it — "
           "never further; after a '%%' that opens no attribute it resumes at the very next character (%s)" % ("; ".join(bad) or "ok"), fn=f)
    r7_options_equality(ctx, facts)


def r7_options_equality(ctx, facts):
    """R7: two option sets are 'the same formatter' only if every member is equal (formatters are shared between loggers by this test);
    shared with C13 (time zone / timestamp pattern of the shared formatter) and C16 (each sink gets the logger's own pattern)"""
    crec = facts.cls("quill::PatternFormatterOptions", "A")
    eq = [x for x in facts.fns if x.config == "A" and x.short == "quill::PatternFormatterOptions::operator=="]
    if not crec or not eq:
        raise AnalysisBroken("PatternFormatterOptions / its operator== not found")
    e = eq[0]
    other_p = e.rec["params"][0]["did"]
    compared = set()
    for n in e.walk():
        sides = None
        if n["k"] == "BinaryOperator" and n["op"] == "==":
            sides = (n["lhs"], n["rhs"])
        elif n["k"] == "CXXOperatorCallExpr" and re.search(r"operator==", n.get("callee") or "") and len(n["args"]) == 2:
            sides = (n["args"][0], n["args"][1])
        if sides:
            a, b = strip(sides[0], casts=True), strip(sides[1], casts=True)
            for x, y in ((a, b), (b, a)):
                if is_this_field(x) and isnode(y) and y["k"] == "MemberExpr" and y.get("mname") == x.get("mname") and var_ref(y.get("base")) == other_p:
                    compared.add(x["mname"])
    fields = [x["name"] for x in crec["fields"]]
    conj = not any(n["k"] == "BinaryOperator" and n["op"] == "||" for n in e.walk())
    ctx.ob("C12.R7a", "PatternFormatterOptions::operator==:every-member", sorted(compared) == sorted(fields) and conj,
           "two loggers share one PatternFormatter when their options compare equal: equality is the conjunction over every data "
           "member (members %s, compared %s)" % (sorted(fields), sorted(compared)), fn=e)
    ne = [x for x in facts.fns if x.config == "A" and x.short == "quill::PatternFormatterOptions::operator!="]
    if ne:
        n0 = ne[0]
        rets = [n0.g.node_ast(r) for r in n0.g.return_nodes()]
        ok = bool(rets) and all(isnode(strip(r.get("val"))) and strip(r["val"])["k"] == "UnaryOperator" and strip(r["val"])["op"] == "!" and
                                any(is_call(x, r"PatternFormatterOptions::operator==$") for x in walk(r["val"])) for r in rets)
        ctx.ob("C12.R7b", "PatternFormatterOptions::operator!=:negation-of-equality", ok, "!= is exactly the negation of ==", fn=n0)
    # the sharing lookup uses that equality
    df = facts.need("quill::detail::BackendWorker::_dispatch_transit_event_to_sinks", "A")[0]
    lam = [x for x in facts.fns if x.config == "A" and x.rec.get("parent") == df.name]
    uses = [c for fn_ in [df] + lam for c in fn_.calls(r"PatternFormatterOptions::operator(==|!=)$")]
    ctx.ob("C12.R7c", "_dispatch_transit_event_to_sinks:shares-by-options-equality", bool(uses),
           "a logger adopts another logger's formatter only after comparing the two option sets (%d comparison(s))" % len(uses), fn=df)


class _Only:
    """forwards the obligations of the named rules only (used when one rule of a group is shared with another property)"""
    def __init__(self, ctx, rules):
        self._ctx, self._rules = ctx, set(rules)

    def ob(self, rule, *a, **k):
        if rule in self._rules:
            return self._ctx.ob(rule, *a, **k)

    def __getattr__(self, n):
        return getattr(self._ctx, n)


def r9_runtime_metadata(ctx, facts, only=None):
    """runtime-supplied source metadata (LOG_RUNTIME_METADATA): applied exactly for that kind of record, after the text was formatted;
    the four parts are cut at the separators; the metadata object found or created is the one attached to the event"""
    from rules.common import reach_under_enum
    if only is not None:
        ctx = _Only(ctx, only)
    dec = facts.need(BW + "_populate_transit_event_from_frontend_queue", "A")[0]
    g = dec.g
    en = facts.enum("quill::MacroMetadata::Event", "A")
    if not en:
        raise AnalysisBroken("MacroMetadata::Event not found")
    names = [n for (n, _v) in en["enumerators"]]
    ap = npos(dec, dec.calls(r"BackendWorker::_apply_runtime_metadata$"))
    pop = npos(dec, dec.calls(r"BackendWorker::_populate_formatted_log_message$"))
    pb = npos(dec, dec.calls(r"TransitEventBuffer::push_back$"))
    if not ap:
        ctx.ob("C12.R9a", "decode:runtime-metadata-applied", False, "a LogWithRuntimeMetadata record never gets its file / line / function applied", fn=dec)
        return
    bad = []
    for e in names:
        r_ = reach_under_enum(g, r"MacroMetadata::event$", names, e)
        reach = any(p_ in r_ for p_ in ap)
        if reach != (e == "LogWithRuntimeMetadata"):
            bad.append("%s: applied=%s" % (e, reach))
    # for that kind: on the no-named-args arm every path from formatting to push_back applies it, and it comes after the formatting
    na = [(b, t) for (b, t, c) in branches_on_call(dec, r"MacroMetadata::has_named_args$")]
    r_ = reach_under_enum(g, r"MacroMetadata::event$", names, "LogWithRuntimeMetadata")
    from rules.common import inconsistent_edges
    inc = inconsistent_edges(g, r"MacroMetadata::event$", names, "LogWithRuntimeMetadata")
    # ... on both arms of the named-args test: a template with a named placeholder is formatted on the other arm, and a record that leaves
    # it with its kind unchanged is dispatched by nobody (_process_transit_event knows no LogWithRuntimeMetadata): the statement is lost
    start = [p_ for p_ in pop if p_ in r_]
    skipped = bool(start) and g.exists_path(start, pb, avoid_nodes=ap, avoid_edges=inc)
    after = all(g.dominates(pop, p_) for p_ in ap) if pop else False
    ctx.ob("C12.R9a", "decode:runtime-metadata-applied", not bad and not skipped and after,
           "exhaustive over MacroMetadata::Event: _apply_runtime_metadata is reached exactly for LogWithRuntimeMetadata (%s), on every "
           "path of such a record from the formatting of its text to push_back (%s), and only after the text was formatted (%s)" %
           ("; ".join(bad) or "ok", not skipped, after), fn=dec)
    f = facts.need(BW + "_apply_runtime_metadata", "A")[0]
    fg = f.g
    inits = f.var_inits()
    # the found / created metadata is attached on both outcomes of the lookup
    asg = [n for n in f.walk() if n["k"] == "BinaryOperator" and n["op"] == "=" and field_name(n["lhs"]) == "macro_metadata"]
    found = []
    for bid, b in fg.blocks.items():
        c = fg.term_cond(bid)
        if c is None:
            continue
        core, neg = core_and_neg(c)
        cs_ = strip(core, casts=True)
        if isnode(cs_) and is_call(cs_, r"operator(==|!=)") and any(is_call(x, r"::end$") and is_this_field(call_obj(x), "_runtime_metadata") for x in walk(cs_)):
            lab = "F" if "operator==" in cs_["callee"] else "T"
            found.append((bid, other(lab) if neg else lab))
    ap2 = npos(f, asg)
    hit = [n for n in asg if any(x["k"] == "MemberExpr" and x.get("mname") == "second" for x in walk(n["rhs"])) and
           any(x["k"] == "DeclRefExpr" and x.get("dk") in ("Var",) and "search" in x.get("name", "") for x in walk(n["rhs"]))]
    mk = [n for n in f.walk() if is_call(n, r"^std::make_unique<quill::(v\d+::)?MacroMetadata")]
    ok_b = len(asg) >= 2 and bool(found) and not fg.exists_path([fg.entry_node], [fg.exit_node], avoid_nodes=ap2) and bool(mk) and \
        all(not fg.exists_path([fg.entry_node], fg.positions(n), avoid_edges=found) for n in hit) and \
        all(not fg.exists_path([fg.entry_node], fg.positions(n), avoid_edges=[(b, other(l)) for (b, l) in found]) for n in mk)
    ctx.ob("C12.R9b", "_apply_runtime_metadata:metadata-attached", ok_b,
           "the event's metadata pointer is set on every path: to the cached entry on the 'found' outcome of the lookup (the end "
           "iterator is never dereferenced), to a freshly created MacroMetadata otherwise", fn=f)
    # created metadata: file:line, function, level Dynamic, event Log, template "{}"
    ok_c = False
    for m in mk:
        lv = [x["name"].split("::")[-1] for x in walk(m) if x["k"] == "DeclRefExpr" and x.get("dk") == "EnumConstant"]
        lit = [x.get("str") for x in walk(m) if x["k"] == "StringLiteral"]
        firsts = [x.get("mname") for a in m["args"][:2] for x in walk(a) if x["k"] == "MemberExpr" and x.get("mname") in ("first", "second")]
        ok_c = "Dynamic" in lv and "Log" in lv and "{}" in lit and firsts[:4].count("first") >= 2 and "second" in firsts
    ctx.ob("C12.R9c", "_apply_runtime_metadata:created-metadata", ok_c,
           "a created MacroMetadata carries the key's file:line as source location and the key's function name, level Dynamic (the level "
           "travels with the record), event Log and the pass-through template \"{}\"", fn=f)
    # the message keeps only its own part: resize to the length of the first component
    parts = {}
    for vid, i in inits.items():
        d = f.var_decls().get(vid, {})
        if d.get("name") in ("message", "file", "line", "function_name"):
            parts[d["name"]] = i
    rs = [c for c in f.calls(r"::try_resize$|::resize$") if any(x["k"] == "MemberExpr" and x.get("mname") == "formatted_msg" for x in walk(call_obj(c)))]
    msg_v = [vid for vid, d in f.var_decls().items() if d.get("name") == "message"]
    subs_msg = [c for c in walk(parts.get("message") or {}) if is_call(c, r"basic_string_view<.*>::substr$")]
    if len(parts) != 4 or not subs_msg:
        raise AnalysisBroken("_apply_runtime_metadata: the cut of the formatted text into message / file / line / function has a shape no "
                             "accepted idiom covers (four named views, the message a substr of the formatted text): whether another way of "
                             "cutting — and what it does when a separator is missing — is right is not decided")
    ok_d = len(parts) == 4 and bool(rs) and bool(msg_v) and all(any(is_call(x, r"::(size|length)$") and var_ref(call_obj(x)) == msg_v[0] for x in walk(c["args"][0])) for c in rs) and \
        const_val([c for c in walk(parts["message"]) if is_call(c, r"basic_string_view<.*>::substr$")][0]["args"][0]) == 0
    ctx.ob("C12.R9d", "_apply_runtime_metadata:message-part-kept", ok_d,
           "the text is cut into message / file / line / function at the separators, the message is the part from offset 0 and the "
           "event's formatted text is shortened to exactly its length", fn=f)
    # R9e: the length and the offsets were measured on the text as formatted: nothing rewrites that text (the sanitiser lengthens it by
    # three characters per non-printable byte) before it has been shortened to the message part
    g = f.g
    rsp = npos(f, rs)
    rewr = npos(f, [c for c in f.calls(r"::sanitize_non_printable_chars\b")] +
                [c for c in f.calls(r"::(append|push_back|insert|replace|clear|assign)$") if any(x["k"] == "MemberExpr" and x.get("mname") == "formatted_msg" for x in walk(call_obj(c)))])
    ok_e = bool(rsp) and not g.exists_path([g.entry_node], rewr, avoid_nodes=rsp) and not g.exists_path([g.entry_node], [g.exit_node], avoid_nodes=rsp)
    ctx.ob("C12.R9e", "_apply_runtime_metadata:shortened-before-rewritten", ok_e,
           "on every path the formatted text is shortened to the message part, and only then rewritten (sanitised): the lengths were "
           "taken from the text as it was formatted", fn=f)


def r5(ctx, facts):
    d = facts.need(BW + "_dispatch_transit_event_to_sinks", "A")[0]
    g = d.g
    ml = cpos(d, r"::_process_multi_line_message$")
    wl = cpos(d, r"::_write_log_statement$")
    opt = []
    na = []
    for bid, b in g.blocks.items():
        c = g.term_cond(bid)
        if c is None:
            continue
        core, neg = core_and_neg(c)
        if field_name(strip(core, casts=True)) == "add_metadata_to_multi_line_logs":
            opt.append((bid, "F" if neg else "T"))
    ok = bool(ml) and bool(wl) and bool(opt) and not g.exists_path([g.entry_node], ml, avoid_edges=opt) and \
        not g.exists_path([tnode(g, opt[0][0])], wl, avoid_edges=[(opt[0][0], other(opt[0][1]))]) is False
    # named args: ml reachable only if named_args null or empty
    empt = branches_on_call(d, r"std::vector<std::pair<.*>::empty$")
    ok2 = bool(empt) and not g.exists_path([tnode(g, empt[0][0])], ml, avoid_edges=[(empt[0][0], empt[0][1])])
    ctx.ob("C12.R5a", "_dispatch_transit_event_to_sinks:multi-line-choice", bool(ml) and bool(opt) and not g.exists_path([g.entry_node], ml, avoid_edges=opt) and ok2 and
           not g.exists_path([tnode(g, opt[0][0])], wl, avoid_edges=[(opt[0][0], opt[0][1])]) is False,
           "the per-line splitter runs only when add_metadata_to_multi_line_logs is on and the statement has no named args; otherwise the "
           "whole message is written as one statement", fn=d)
    # single-statement arm: size = ends-with-newline ? size-1 : size
    inits = d.var_inits()
    wcalls = d.calls(r"::_write_log_statement$")
    ok = False
    for c in wcalls:
        sv = [x for x in walk(c["args"][5])]
        vids = [x.get("did") for x in sv if x["k"] == "DeclRefExpr" and x.get("dk") == "Var"]
        for v in vids:
            i = strip(inits.get(v), casts=True) if v in inits else None
            if isnode(i) and i["k"] == "ConditionalOperator":
                tests_nl = any(x["k"] == "CharacterLiteral" and x.get("val") == 10 for x in walk(i["cond"]))
                th = strip(i["then"], casts=True)
                minus1 = isnode(th) and th["k"] == "BinaryOperator" and th["op"] == "-" and const_val(th["rhs"]) == 1 and any(is_call(x, r"::size$") for x in walk(th["lhs"]))
                el = strip(i["else"], casts=True)
                full = is_call(el, r"::size$")
                last = any(x["k"] == "BinaryOperator" and x["op"] == "-" and const_val(x["rhs"]) == 1 for x in walk(i["cond"]))
                # the last character is looked at only when there is one: the other conjunct is 'size() is not zero', evaluated first
                parts = flatten(i["cond"], "&&")
                nonempty = False
                if len(parts) == 2 and any(x["k"] == "CharacterLiteral" for x in walk(parts[1])) and not any(x["k"] == "CharacterLiteral" for x in walk(parts[0])):
                    p0 = parts[0]
                    nc0, cs0 = norm_cmp(p0), cmp_sides(p0)
                    core0, neg0 = core_and_neg(p0)
                    nonempty = (nc0 is not None and nc0[0] == "!=" and "0" in (nc0[1], nc0[2]) and any(is_call(x, r"::size$") for x in walk(p0))) or \
                        (cs0 is not None and cs0[0] == "<" and const_val(cs0[1]) == 0 and any(is_call(x, r"::size$") for x in walk(cs0[2]))) or \
                        (cs0 is not None and cs0[0] == "<=" and const_val(cs0[1]) == 1 and any(is_call(x, r"::size$") for x in walk(cs0[2]))) or \
                        (is_call(strip(core0, casts=True), r"::empty$") and neg0)
                ok = tests_nl and minus1 and full and last and nonempty
    ctx.ob("C12.R5b", "_dispatch_transit_event_to_sinks:one-trailing-newline", ok,
           "without the option exactly one trailing newline is dropped when the message ends with one, nothing otherwise", fn=d)
    m = facts.need(BW + "_process_multi_line_message", "A")[0]
    mg = m.g
    wc = m.calls(r"::_write_log_statement$")
    finds = m.calls(r"basic_string_view<.*>::find(_first_of)?$")
    ok = len(wc) >= 2 and bool(finds) and all(const_val(x["args"][0]) == 10 for x in finds)
    loops = [n for n in m.walk() if n["k"] in ("WhileStmt", "ForStmt")]
    adv = [n for n in m.walk() if n["k"] == "BinaryOperator" and n["op"] == "=" and var_ref(n["lhs"]) is not None and
           isnode(strip(n["rhs"], casts=True)) and strip(n["rhs"], casts=True)["k"] == "BinaryOperator" and strip(n["rhs"], casts=True)["op"] == "+" and const_val(strip(n["rhs"], casts=True)["rhs"]) == 1]
    ok = ok and bool(loops) and bool(adv)
    # R5d: the search for the next newline starts exactly at the beginning of the unprocessed rest
    starts = set()
    for c in wc:
        for x in walk(c["args"][5]):
            if x["k"] == "BinaryOperator" and x["op"] == "+" and any(is_call(y, r"::data$") for y in walk(x["lhs"])) and var_ref(x["rhs"]) is not None:
                starts.add(var_ref(x["rhs"]))
    ok_d = len(starts) == 1
    if ok_d:
        sv = list(starts)[0]
        init0 = const_val(m.var_decls().get(sv, {}).get("init")) == 0
        asg_pos = npos(m, m.assignments_to_var(sv))
        for fc in finds:
            pos_arg = fc["args"][1] if len(fc["args"]) > 1 else None
            defaulted = pos_arg is None or (isnode(strip(pos_arg)) and strip(pos_arg)["k"] == "CXXDefaultArgExpr") or (isnode(pos_arg) and pos_arg["k"] == "CXXDefaultArgExpr")
            if defaulted or (const_val(pos_arg) == 0 and var_ref(pos_arg) is None):
                # searching from 0 is right only while the line start is still 0
                if not (init0 and not any(mg.exists_path([a], mg.positions(fc)) for a in asg_pos)):
                    ok_d = False
            elif var_ref(pos_arg) != sv:
                ok_d = False
    ctx.ob("C12.R5d", "_process_multi_line_message:search-from-line-start", ok_d,
           "every search for the next newline starts at the first character of the not-yet-written rest (an empty line between two "
           "newlines is found, no character is skipped)", fn=m)
    ctx.ob("C12.R5c", "_process_multi_line_message:one-statement-per-line", ok,
           "the message is cut at each newline, every piece is written as its own statement, scanning resumes after the newline", fn=m)


def r6(ctx, facts):
    """MacroMetadata: the four source-location views are cut from 'path:line' at the same two offsets"""
    MM = "quill::MacroMetadata::"

    def ret(name):
        f = facts.need(MM + name, "A")[0]
        rets = [f.g.node_ast(r) for r in f.g.return_nodes()]
        if len(rets) != 1:
            raise AnalysisBroken("MacroMetadata::%s: single return expected" % name)
        return f, strip(rets[0]["val"], casts=True)

    def plus(e, a, b):
        e = strip(e, casts=True)
        if not (isnode(e) and e["k"] == "BinaryOperator" and e["op"] == "+"):
            return False
        terms = [strip(e["lhs"], casts=True), strip(e["rhs"], casts=True)]
        return any(is_this_field(t, a) for t in terms) and any(is_this_field(t, b) if isinstance(b, str) else b(t) for t in terms)
    f, e = ret("line")
    ok = isnode(e) and e["k"] == "BinaryOperator" and e["op"] == "+" and const_val(e["rhs"]) == 1 and plus(e["lhs"], "_source_location", "_colon_separator_pos")
    ctx.ob("C12.R6a", "MacroMetadata::line", ok, "the line is the text after the ':' of 'path:line' (source + colon + 1)", fn=f)
    f, e = ret("short_source_location")
    ctx.ob("C12.R6b", "MacroMetadata::short_source_location", plus(e, "_source_location", "_file_name_pos"),
           "the short location starts at the file-name offset", fn=f)
    f, e = ret("full_path")
    args = e.get("args") or e.get("c") or []
    ok = len(args) == 2 and is_this_field(strip(args[0], casts=True), "_source_location") and is_this_field(strip(args[1], casts=True), "_colon_separator_pos")
    ctx.ob("C12.R6c", "MacroMetadata::full_path", ok, "the full path is the text before the ':' (source, length = colon offset)", fn=f)
    f, e = ret("file_name")
    args = e.get("args") or e.get("c") or []
    ok = False
    if len(args) == 2:
        ln = strip(args[1], casts=True)
        ok = plus(args[0], "_source_location", "_file_name_pos") and isnode(ln) and ln["k"] == "BinaryOperator" and ln["op"] == "-" and \
            is_this_field(strip(ln["lhs"], casts=True), "_colon_separator_pos") and is_this_field(strip(ln["rhs"], casts=True), "_file_name_pos")
    ctx.ob("C12.R6d", "MacroMetadata::file_name", ok,
           "the file name runs from the file-name offset to the ':' (length = colon offset - file-name offset)", fn=f)
    # the macro builds 'path:line' with exactly one ':' between __FILE__ and the line
    path, table, gens = __import__("gen_macros").generate(())
    mf = ctx.facts(path, "A", ())
    w = mf.fn("qvm::m_LOG_INFO", "A")
    ok = False
    if w:
        for d in w[0].var_decls().values():
            init = d.get("init")
            if isnode(init):
                for x in walk(init):
                    if is_call(x, r"MacroMetadata::MacroMetadata$"):
                        lit = [y for y in walk(x["args"][0]) if y["k"] == "StringLiteral"]
                        if lit:
                            import re as _re
                            ok = bool(_re.search(r"[^:]:\d+$", lit[0]["str"]))
    ctx.ob("C12.R6e", "QUILL_DEFINE_MACRO_METADATA:source-location-literal", ok,
           "the macro's source-location literal is __FILE__ ':' line-number (what the offsets above are computed on)")


def r10_process_id(ctx, facts):
    """R10: the text substituted for %(process_id) is the process id, whichever way the backend is driven: _process_id is assigned from
    get_process_id() in every BackendWorker constructor — or, failing that, before polling starts on both start paths (the backend
    thread's run() and ManualBackendWorker::init(), which never goes through run())."""
    bw_cls = "quill::detail::BackendWorker"

    def writes(f):
        out = []
        for n in f.walk():
            tgt, rhs = None, None
            if n["k"] == "BinaryOperator" and n["op"] == "=":
                tgt, rhs = n["lhs"], n["rhs"]
            elif n["k"] == "CXXOperatorCallExpr" and (n.get("callee") or "").endswith("operator=") and len(n["args"]) == 2:
                tgt, rhs = n["args"][0], n["args"][1]
            if tgt is not None and is_this_field(tgt, "_process_id"):
                out.append((n, any(is_call(x, r"get_process_id$") for x in walk(rhs))))
        for i in f.rec.get("inits") or []:
            if i.get("member") == "_process_id" and i.get("expr") is not None and i.get("written"):
                out.append((i["expr"], any(is_call(x, r"get_process_id$") for x in walk(i["expr"]))))
        return out
    fns = [f for f in facts.fns if f.config == "A" and f.cls == bw_cls]
    ctors = [f for f in fns if f.rec.get("ctor") and not (len(f.rec.get("params") or []) == 1 and "BackendWorker" in f.rec["params"][0].get("ty", ""))]
    if not ctors:
        raise AnalysisBroken("BackendWorker constructor not found")
    all_w = [(f, w) for f in fns for w in writes(f)]
    if not all_w:
        raise AnalysisBroken("no assignment to BackendWorker::_process_id found")
    from_pid = all(ok for (f, (n, ok)) in all_w)
    in_ctor = all(writes(c) for c in ctors)
    where = sorted(set(f.short.split("::")[-1] for (f, w) in all_w))
    if not in_ctor:
        # both start paths must pass an assignment before they reach _poll: run() and ManualBackendWorker::init()
        cg = facts.callgraph("A")
        byid = {id(f): f for f in facts.fns}
        wset = {id(f) for (f, w) in all_w}

        def reaches(root):
            seen, todo = set(), [id(root)]
            while todo:
                x = todo.pop()
                if x in seen:
                    continue
                seen.add(x)
                if x in wset:
                    return True
                todo += [id(t) for t in cg.get(x, ()) if t.cls in (bw_cls, "quill::ManualBackendWorker") or t.rec.get("parent")]
            return False
        roots = facts.need(bw_cls + "::run", "A") + facts.need("quill::ManualBackendWorker::init", "A")
        in_ctor = all(reaches(r) for r in roots)
    ctx.ob("C12.R10", "BackendWorker:process-id-set-on-every-start-path", from_pid and in_ctor,
           "_process_id is assigned from get_process_id() in every constructor, or on both start paths (run() and "
           "ManualBackendWorker::init()); assigned in: %s, from get_process_id(): %s" % (where, from_pid), fn=ctors[0])


def r6w_offsets_witness(ctx):
    """R6w: compile-time witness for the two offsets every source-location attribute is cut at. MacroMetadata's constructor is
    constexpr: for every 'path:line' literal with a path over {a . / : -} up to length N (directories, dots, a colon inside the path,
    leading / trailing / doubled separators, the empty path) and three line numbers, the compiler evaluates the constructor and the
    table asserts _colon_separator_pos = index of the last ':' and _file_name_pos = index just behind the last '/' of the path."""
    import itertools, ctw
    N = 5 if ctx.tier == "quick" else 6
    rows, meta = [], []
    for L in range(0, N + 1):
        for t in itertools.product("a./:-", repeat=L):
            path = "".join(t)
            for line in ("7", "120", "65000"):
                s = path + ":" + line
                colon = s.rfind(":")
                fpos = s.rfind("/") + 1          # 0 when there is no separator; the line part has none
                rows.append('{"%s", %d, %d}' % (s, colon, fpos))
                meta.append(s)
    bad = ctw.static_table("mm-offsets-%d" % N,
                           '#include "quill/core/MacroMetadata.h"\nusing M = quill::MacroMetadata;\n'
                           'constexpr M mk(char const* s) { return M{s, "", "", nullptr, quill::LogLevel::Info, M::Event::Log}; }',
                           "char const* s; unsigned colon; unsigned file;", rows,
                           "mk(r.s)._colon_separator_pos == r.colon && mk(r.s)._file_name_pos == r.file")
    ctx.units.add(("mm-offsets-witness(len<=%d)" % N, "A"))
    ctx.floor("C12.R6w", "source-location literals in the witness table", len(rows), 5000)
    ctx.ob("C12.R6w", "MacroMetadata:offsets-of-path:line", not bad,
           "compile-time witness over %d 'path:line' literals (paths of length <= %d over 'a . / : -', three line numbers): the colon offset "
           "is the index of the last ':' and the file-name offset the index behind the last '/'%s"
           % (len(rows), N, ("; first mismatches: " + "; ".join("'%s'" % meta[i] for i in bad[:4])) if bad else ""), loc="core/MacroMetadata.h")


def r2_named_args_and_tags(ctx, facts):
    """R2i: the text of %(named_args) is 'key: value' for every pair of the statement's list, in list order, joined by ', ': the loop
    starts at 0 and runs while i < size(), appends [i].first, ': ', [i].second in that order on every iteration and ', ' exactly when the
    pair is not the last; it runs exactly when the list exists. R2j: %(tags) reads the tags only when the statement has some, and is
    empty otherwise. R1f: the rewriter starts with every attribute mapped to the spare last slot, the first attribute found gets slot 0
    and the names are registered from index 0 on, one index per name."""
    f = facts.need(PF + "format", "A")[0]
    g = f.g
    na = f.rec["params"][8]["did"]
    buf = "_formatted_named_args_buffer"
    apps = [c for c in f.calls(r"::append\b") if is_this_field(call_obj(c), buf)]
    fmt_fn, hcalls = f, []
    if not apps:
        # the text is built by a member function called from format() with the statement's list (the loop extracted into a helper):
        # the same obligations, stated for that function and the parameter that receives the list
        cands = [h for h in facts.callgraph("A").get(id(f), ()) if h.cls == f.cls and h is not f and
                 [c for c in h.calls(r"::append\b") if is_this_field(call_obj(c), buf)]]
        if len(cands) == 1:
            h = cands[0]
            hcalls = [c for c in f.calls() if c.get("callee") and short(c["callee"]) == h.short]
            ks = {k for c in hcalls for k, a_ in enumerate(c.get("args", [])) if var_ref(strip(a_, casts=True)) == na}
            if hcalls and len(ks) == 1 and all(any(var_ref(strip(a_, casts=True)) == na for a_ in c.get("args", [])) for c in hcalls):
                f, g = h, h.g
                na = h.rec["params"][list(ks)[0]]["did"]
                apps = [c for c in f.calls(r"::append\b") if is_this_field(call_obj(c), buf)]
    loops = [n for n in f.walk() if n["k"] in ("ForStmt", "WhileStmt", "CXXForRangeStmt") and any(in_subtree(c, n.get("body")) for c in apps)]
    if len(loops) != 1:
        raise AnalysisBroken("PatternFormatter::format: the loop that builds the named-args text was not recognised (%d candidates)" % len(loops))
    lp = loops[0]

    def what(c):
        a = c["args"][0]
        lit = [x.get("str") for x in walk(a) if x["k"] == "StringLiteral"]
        if lit:
            return "'%s'" % lit[0]
        mem = [x.get("mname") for x in walk(a) if x["k"] == "MemberExpr" and x.get("mname") in ("first", "second")]
        if not mem:      # for (auto const& [key, value] : *named_args)
            bi = [re.search(r"tuple_element<(\d+)", x.get("ty") or "") for x in walk(a) if x["k"] == "DeclRefExpr" and x.get("dk") == "Binding"]
            mem = [{"0": "first", "1": "second"}.get(m_.group(1)) for m_ in bi if m_]
        return mem[0] if len(mem) == 1 and any(var_ref(x) == na or x.get("name") in ("key", "value") for x in walk(a) if x["k"] == "DeclRefExpr") else (mem[0] if mem else "?")
    body_apps = [c for c in apps if in_subtree(c, lp.get("body"))]
    seq = [what(c) for c in body_apps]
    uncond = [c for c in body_apps if not any(a["k"] == "IfStmt" and in_subtree(a, lp.get("body")) for a in f.ancestors(c))]
    cond = [c for c in body_apps if c not in uncond]
    order_ok = [what(c) for c in uncond] == ["first", "': '", "second"] and [what(c) for c in cond] == ["', '"]
    # loop bounds (index form) or range-for over the list
    if lp["k"] == "CXXForRangeStmt":
        bounds_ok = any(var_ref(x) == na for x in walk(lp.get("range")))
        idx = None
    else:
        idx = None
        for d in walk(lp.get("init")) if lp.get("init") is not None else []:
            if d.get("k") == "Var" and const_val(d.get("init")) == 0:
                idx = d["did"]
        cs = cmp_sides(lp.get("cond")) if lp.get("cond") is not None else None
        bounds_ok = idx is not None and cs is not None and cs[0] == "<" and var_ref(strip(cs[1], casts=True)) == idx and \
            any(is_call(x, r"std::vector<.*>::size$") and var_ref(call_obj(x)) == na for x in walk(cs[2])) and \
            not any(x["k"] == "BinaryOperator" and x["op"] in ("+", "-") for x in walk(cs[2])) and \
            all(any(var_ref(y) == idx for y in walk(x["args"][1])) for c in uncond for x in walk(c["args"][0])
                if x["k"] == "CXXOperatorCallExpr" and short(x.get("callee") or "").endswith("operator[]"))
    # separator guard: 'not the last pair'
    sep_ok = False
    for c in cond:
        ifs = [a for a in f.ancestors(c) if a["k"] == "IfStmt" and in_subtree(a, lp.get("body"))]
        if len(ifs) == 1 and in_subtree(c, ifs[0].get("then")):
            cd = ifs[0]["cond"]
            nc = norm_cmp(cd)
            cs = cmp_sides(cd)
            has_size = any(is_call(x, r"std::vector<.*>::size$") and var_ref(call_obj(x)) == na for x in walk(cd))
            minus1 = any(x["k"] == "BinaryOperator" and x["op"] == "-" and const_val(x["rhs"]) == 1 and any(is_call(y, r"::size$") for y in walk(x["lhs"])) for x in walk(cd))
            plus1 = any(x["k"] == "BinaryOperator" and x["op"] == "+" and 1 in (const_val(x["rhs"]), const_val(x["lhs"])) and
                        any(var_ref(y) == idx for y in walk(x)) for x in walk(cd))
            # i != size - 1 | i < size - 1 | i + 1 != size | i + 1 < size
            sep_ok = has_size and ((nc is not None and nc[0] == "!=" and (minus1 != plus1)) or (cs is not None and cs[0] == "<" and (minus1 != plus1) and
                                   any(var_ref(y) == idx for y in walk(cs[1]))))
    if lp["k"] == "CXXForRangeStmt" and not sep_ok:
        raise AnalysisBroken("PatternFormatter::format: the ', ' between the pairs of %(named_args) is guarded by a test no accepted idiom covers "
                             "(range-for form): not decided")
    nulls = branches_on_var_null(f, na)
    heads = g.positions(lp.get("cond")) if lp.get("cond") is not None else (g.positions(lp.get("range")) if lp.get("range") is not None else [])
    sv = [c for c in fmt_fn.calls(r"PatternFormatter::_set_arg_val<") if any(is_this_field(x, buf) for x in walk(c))]
    svp = npos(fmt_fn, sv)
    tail = svp if fmt_fn is f else [g.exit_node]
    only_when_present = bool(nulls) and bool(heads) and not g.exists_path([g.entry_node], heads, avoid_edges=[(b, other(l)) for (b, l) in nulls]) and \
        all(not g.exists_path([y for (y, l2) in g.succ.get(tnode(g, b), ()) if l2 == other(l)], tail, avoid_nodes=heads) for (b, l) in nulls)
    if fmt_fn is f:
        after = bool(svp) and not g.exists_path(svp, npos(f, apps))
    else:
        hp = npos(fmt_fn, hcalls)
        after = bool(svp) and bool(hp) and not fmt_fn.g.exists_path(svp, hp) and all(fmt_fn.g.dominates(hp, p_) for p_ in svp)
    ctx.ob("C12.R2i", "format:named-args-text", order_ok and bounds_ok and sep_ok and only_when_present and after,
           "every pair of the list, from the first (index 0) to the last (i < size()), is appended as key, ': ', value in that order (%s, "
           "bounds %s), ', ' exactly when it is not the last pair (%s); the loop runs exactly when the statement has a list (%s) and the "
           "attribute is set from the finished buffer (%s)" % (seq, bounds_ok, sep_ok, only_when_present, after), fn=f)
    # tags
    f, g = fmt_fn, fmt_fn.g
    tagsets = [c for c in f.calls(r"PatternFormatter::_set_arg_val<") if targ_index(c["callee"], "_set_arg_val") is not None and
               any(is_call(x, r"MacroMetadata::tags$") for x in walk(c))]
    tedges = []
    for bid, b in g.blocks.items():
        c = g.term_cond(bid)
        if c is None:
            continue
        core, neg = core_and_neg(c)
        cs_ = strip(core, casts=True)
        if is_call(cs_, r"MacroMetadata::tags$"):
            tedges.append((bid, "F" if neg else "T"))      # label of 'has tags'
        else:
            from rules.common import eq_kind
            k = eq_kind(c)
            if k and any(is_call(strip(s_, casts=True), r"MacroMetadata::tags$") for s_ in k[1:]) and any(is_null(s_) for s_ in k[1:]):
                tedges.append((bid, "F" if k[0] == "==" else "T"))
    tp = npos(f, tagsets)
    ok_t = bool(tagsets) and bool(tedges) and not g.exists_path([g.entry_node], tp, avoid_edges=tedges)
    ctx.ob("C12.R2j", "format:tags-read-only-when-present", ok_t,
           "the tags pointer is turned into text only on the 'statement has tags' outcome (a statement without tags has a null pointer)", fn=f)
    # the rewriter's starting state
    for gfn in facts.need(PF + "_generate_fmt_format_string", "A")[:1]:
        fills = [c for c in gfn.calls(r"std::array<.*>::fill$")]
        en = facts.enum("quill::PatternFormatter::Attribute", "A")
        nr = dict(en["enumerators"]).get("ATTR_NR_ITEMS") if en else None
        fill_ok = len(fills) == 1 and nr is not None and const_val(fills[0]["args"][0]) == nr - 1
        scan = npos(gfn, gfn.calls(r"basic_string<.*>::find_first_of$"))
        fill_first = fill_ok and bool(scan) and all(gfn.g.dominates(npos(gfn, fills), p) for p in scan)
        idxv = [d for d in gfn.var_decls().values() if d.get("name") == "arg_idx" or ("uint8_t" in (d.get("ty") or "") and const_val(d.get("init")) is not None)]
        idx0 = len(idxv) == 1 and const_val(idxv[0].get("init")) == 0
        st = gfn.calls(r"PatternFormatter::_store_named_args<")
        st0 = bool(st) and all(re.search(r"_store_named_args<0(UL)?, 0(UL)?,", c["callee"]) for c in st)
        ctx.ob("C12.R1f", "_generate_fmt_format_string:starting-state", fill_first and idx0 and st0,
               "before the scan every attribute is mapped to the spare last slot (fill(ATTR_NR_ITEMS - 1): %s), the slot counter starts at 0 "
               "(%s) and the names are registered from position 0 / index 0 (%s) — an attribute that is not in the pattern but always set "
               "(the message) must not land in slot 0" % (fill_first, idx0, st0), fn=gfn)
    recs = [x for x in facts.fns if x.config == "A" and re.search(r"PatternFormatter::_store_named_args<\d+(UL)?, \d+(UL)?, ", x.name)]
    bad = []
    for x in recs:
        m = re.search(r"_store_named_args<(\d+)(?:UL)?, (\d+)(?:UL)?, ", x.name)
        i_, n_ = int(m.group(1)), int(m.group(2))
        for c in x.calls(r"PatternFormatter::_store_named_args<"):
            m2 = re.search(r"_store_named_args<(\d+)(?:UL)?, (\d+)(?:UL)?[,>]", c["callee"])
            if m2 and (int(m2.group(1)), int(m2.group(2))) != (i_ + 1, n_ + 1):
                bad.append("%s -> %s" % (m.group(0), m2.group(0)))
        asg = [n for n in x.walk() if n["k"] in ("CXXOperatorCallExpr", "BinaryOperator") and
               ((n["k"] == "CXXOperatorCallExpr" and short(n.get("callee") or "").endswith("operator=")) or n.get("op") == "=")]
        sub = [y for n in asg for y in walk(n["args"][0] if n["k"] == "CXXOperatorCallExpr" else n["lhs"])
               if y["k"] == "CXXOperatorCallExpr" and short(y.get("callee") or "").endswith("operator[]")]
        if not sub or any(const_val(y["args"][1]) != n_ for y in sub):
            bad.append("%s stores at another position than %d" % (m.group(0), n_))
        ids = [const_val(y) for n in asg for y in walk(n["args"][1] if n["k"] == "CXXOperatorCallExpr" else n["rhs"]) if y["k"] in ("IntegerLiteral", "SubstNonTypeTemplateParmExpr", "ImplicitCastExpr") and const_val(y) is not None]
        if i_ not in ids:
            bad.append("%s registers another index than %d" % (m.group(0), i_))
    ctx.floor("C12.R1g", "instantiations of _store_named_args", len(recs), 10)
    ctx.ob("C12.R1g", "_store_named_args:one-index-per-name", not bad,
           "instantiation <I, N> stores {name, I} at position N and continues with <I + 1, N + 1> (%s)" % ("; ".join(bad[:4]) or "ok"))
