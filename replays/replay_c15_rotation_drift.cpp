// C15 defect 9: daily rotation at 00:00 GMT drifted to the time of day of the first record after each rotation.
// Sink created day0 12:00; statements A day0 13:00, B day1 09:00, C day2 01:00, D day2 02:00.
// Expected files {A} {B} {C D}; pre-fix: {A} {B C D}.
#include "quill/sinks/RotatingFileSink.h"
#include <cstdio>
#include <filesystem>
#include <fstream>
#include <map>
int main(){
  namespace fs = std::filesystem;
  fs::path dir = fs::temp_directory_path() / "qv_c15_replay"; fs::remove_all(dir); fs::create_directories(dir);
  uint64_t const H = 3600ull * 1000000000ull, DAY = 24 * H;
  uint64_t const day0 = 19000ull * DAY;   // a midnight GMT
  quill::RotatingFileSinkConfig cfg;
  cfg.set_open_mode('w'); cfg.set_timezone(quill::Timezone::GmtTime); cfg.set_rotation_time_daily("00:00");
  cfg.set_filename_append_option(quill::FilenameAppendOption::None);
  {
    quill::RotatingFileSink sink{dir / "r.log", cfg, quill::FileEventNotifier{},
                                 std::chrono::system_clock::time_point{std::chrono::nanoseconds{day0 + 12 * H}}};
    struct { char const* txt; uint64_t ts; } st[] = {{"A\n", day0 + 13 * H}, {"B\n", day0 + DAY + 9 * H}, {"C\n", day0 + 2 * DAY + 1 * H}, {"D\n", day0 + 2 * DAY + 2 * H}};
    for (auto& s : st)
      sink.write_log(nullptr, s.ts, "", "", "", "", quill::LogLevel::Info, "", "", nullptr, "", s.txt);
    sink.flush_sink();
  }
  std::map<std::string, std::string> files;
  for (auto& e : fs::directory_iterator(dir)) { std::ifstream in(e.path()); std::string c((std::istreambuf_iterator<char>(in)), {}); for (auto& ch : c) if (ch == '\n') ch = ' '; files[e.path().filename().string()] = c; }
  bool c_with_b = false;
  for (auto& [n, c] : files) { std::printf("%-16s { %s}\n", n.c_str(), c.c_str()); if (c.find('B') != std::string::npos && c.find('C') != std::string::npos) c_with_b = true; }
  fs::remove_all(dir);
  std::printf("%s\n", c_with_b ? "C (after the day2 00:00 point) shares a file with B (before it)" : "separated at the configured points");
  return c_with_b;
}
