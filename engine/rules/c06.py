"""C06 — flush_log() returns only after earlier statements are written and flushed (DESIGN §4 C06)."""
from qlib import (AnalysisBroken, strip, isnode, walk, is_call, norm_cmp, var_ref, is_null, const_val, short, call_obj,
                  expr_key, field_name, is_this_field, atomic_op)
from rules.common import (core_and_neg, tnode, other, cpos, npos, branches_on_call, flatten, in_subtree, loops_enclosing,
                          need_some, returns_bool, straight_after, other_loop_over)

EXPLANATION = ("Flush hand-shake. R1: every log_statement call carrying a control event (Flush, InitBacktrace, FlushBacktrace, "
               "LoggerRemovalRequest; found by evaluating the MacroMetadata initialiser) sits in a retry loop that cannot be left "
               "on the 'false' outcome — the request is never discarded, also with dropping queues. R2: the word sent with the flush "
               "request is the address of a flag local to the call, and flush_log cannot return except through the 'true' outcome of a "
               "load of that same flag. R3: in the backend the flag is stored only after the sinks were flushed with a literal zero "
               "interval and after the flush event was popped; the pointer stored to is the one decoded from the record, and it is "
               "reset for event reuse. R4: a zero interval forces the flush on every path; flush_sink is invoked for every sink of "
               "every registered logger — also one that was removed and not yet erased (R4c; collector never ends early, loop has no early exit), "
               "and _cleanup_invalidated_loggers flushes before it erases (R4h). R5: FileSink::flush_sink -> "
               "StreamSink::flush_sink -> flush -> fflush(_file); every successful write path marks the stream dirty."
               " R2e/R3c: the load that ends the caller's wait is an acquire load and the backend's store a release store."
               " R6 (= C05.R9): the per-queue read loop has no other exit than 'empty', 'held back' and the per-pass limits (the cross-thread clause rests on every thread with an eligible statement having one buffered after a pass).")
NOT_DECIDED = ("The cross-thread clause (needs the C05 ordering theorem as behaviour), success of fflush itself (its result is "
               "ignored by design — noted, not a violation), that the backend keeps running.")
ASSUMPTIONS = ["per-thread FIFO and timestamp order (C01-C05)"]
BW = "quill::detail::BackendWorker::"
EVENT = "quill::MacroMetadata::"


def metadata_event(f, call):
    """event enumerator of the MacroMetadata whose address is passed as 2nd argument (None if unknown)"""
    if len(call.get("args", [])) < 2:
        return None
    a = strip(call["args"][1], casts=True)
    if isnode(a) and a["k"] == "UnaryOperator" and a["op"] == "&":
        v = var_ref(a["sub"])
        decl = f.var_decls().get(v)
        init = decl.get("init") if decl else None
        if isnode(init):
            for x in walk(init):
                if x["k"] == "DeclRefExpr" and x.get("dk") == "EnumConstant" and x["name"].startswith(EVENT) and "Event" in x.get("ty", ""):
                    return x["name"][len(EVENT):]
    return None


def run(ctx):
    configs = ["A"] if ctx.tier == "quick" else ["A", "B"]
    for cfg in configs:
        facts = ctx.facts("core.cpp", cfg)
        r1(ctx, facts, cfg, "C06.R1")
        r2(ctx, facts, cfg, "quill::LoggerImpl::flush_log", "C06.R2", 4)
        r3(ctx, facts, cfg)
        r4(ctx, facts, cfg)
        r5(ctx, facts, cfg)
        r5_siblings(ctx, facts, cfg)
        # the cross-thread clause rests on 'after a pass every thread with an eligible statement has one buffered': the read loop of a
        # queue ends only for the three reasons of C05.R9
        from rules import c05 as _c05
        _c05.r9_read_pass_exits(ctx, facts, cfg, rule="C06.R6")


def r1(ctx, facts, cfg, rule):
    seen = {}
    for f in facts.fns:
        if f.config != cfg or f.rec.get("main"):
            continue
        calls = f.calls(r"^quill::LoggerImpl<.*>::log_statement<")
        if not calls:
            continue
        g = None
        for c in calls:
            ev = metadata_event(f, c)
            if ev is None or ev in ("Log", "LogWithRuntimeMetadata"):
                continue
            g = f.g
            cp = g.positions(c)
            br = [(b, t, cc) for (b, t, cc) in branches_on_call(f, r"^quill::LoggerImpl<.*>::log_statement<") if cc is c]
            ok = bool(br)
            for (b, t, cc) in br:
                if g.exists_path([tnode(g, b)], [g.exit_node], avoid_nodes=cp, avoid_edges=[(b, t)]):
                    ok = False
            seen.setdefault(ev, 0)
            seen[ev] += 1
            ctx.ob(rule, "%s:%s-request-retried" % (f.short.replace("quill::", ""), ev), ok,
                   "the %s request is re-submitted until log_statement returns true; the function cannot be left on the 'false' "
                   "(dropped) outcome" % ev, loc=c["loc"], fn=f)
    for ev in ("Flush", "InitBacktrace", "FlushBacktrace", "LoggerRemovalRequest"):
        if ev not in seen:
            raise AnalysisBroken("%s: no log_statement call with control event %s found" % (rule, ev))
    ctx.floor(rule, "control-event log_statement call sites", sum(seen.values()), 16)


def r2(ctx, facts, cfg, fname, rule, floor):
    fns = facts.need(fname, cfg, floor=floor)
    for f in fns:
        g = f.g
        site = f.short.replace("quill::", "") + "<%s>" % f.name.split("Impl<")[1].split(">")[0]
        calls = need_some(f.calls(r"^quill::LoggerImpl<.*>::log_statement<"), site + " log_statement call")
        inits = f.var_inits()
        decls = f.var_decls()
        c = calls[0]
        if len(c["args"]) < 3:
            raise AnalysisBroken(site + ": flag word argument not found")
        w = strip(c["args"][2], casts=True)
        # reinterpret_cast<uintptr_t>(ptr) ; ptr = &local   (or directly &local)
        target = None
        pv = var_ref(w)
        src = w
        if pv is not None and pv in inits and not f.assignments_to_var(pv):
            src = strip(inits[pv], casts=True)
        if isnode(src) and src["k"] == "UnaryOperator" and src["op"] == "&":
            target = var_ref(src["sub"])
        ok_local = False
        if target is not None and target in decls:
            d = decls[target]
            ok_local = "atomic<bool>" in d.get("ty", "") and not d.get("static") and not d.get("tls")
        # ... and it starts cleared, and nothing on the caller's side sets it
        starts_false = False
        if target is not None and target in decls:
            i = decls[target].get("init")
            lit = [x for x in walk(i) if x["k"] == "CXXBoolLiteralExpr"] if isnode(i) else []
            starts_false = len(lit) == 1 and lit[0].get("val") in (0, False)
            own_sets = [n for n in f.walk() if (atomic_op(n) or {}).get("kind") in ("store", "rmw") and var_ref(atomic_op(n)["obj"]) == target]
            starts_false = starts_false and not own_sets
        ctx.ob(rule + "d", site + ":flag-starts-cleared", starts_false,
               "the flag is initialised to false and only read on the caller's side: 'set' can only mean that the backend processed "
               "this request", loc=c["loc"], fn=f)
        ctx.ob(rule + "a", site + ":flag-is-local", ok_local,
               "the word sent to the backend is the address of an automatic std::atomic<bool> of this call (not a member/static shared "
               "between concurrent callers)", loc=c["loc"], fn=f)
        # return only through the 'true' outcome of a load of that flag
        edges = []
        for bid, b in g.blocks.items():
            cond = g.term_cond(bid)
            if cond is None:
                continue
            core, neg = core_and_neg(cond)
            a = atomic_op(core)
            if a and a["kind"] == "load" and var_ref(a["obj"]) == target:
                edges.append((bid, "F" if neg else "T"))
        ok = bool(edges) and not g.exists_path([g.entry_node], [g.exit_node], avoid_edges=edges)
        ctx.ob(rule + "b", site + ":returns-only-when-flag-set", ok,
               "every path to the function's exit passes the 'set' outcome of a load of that flag (%d wait test(s))" % len(edges), fn=f)
        # the wait happens after the request was accepted
        cp = g.positions(c)
        ok = bool(edges) and all(not g.exists_path([g.entry_node], [tnode(g, b)], avoid_nodes=cp) for (b, t) in edges)
        ctx.ob(rule + "c", site + ":wait-after-submit", ok, "the flag is awaited only after the request has been submitted", fn=f)
        # the load that ends the wait synchronises with the backend's store: what the backend wrote (sinks, files) happens-before the return
        loads = [atomic_op(strip(core_and_neg(g.term_cond(b))[0], casts=True)) or atomic_op(core_and_neg(g.term_cond(b))[0]) for (b, t) in edges]
        strong = bool(loads) and all(a and a.get("order") in ("acquire", "seq_cst", "acq_rel") for a in loads)
        ctx.ob(rule + "e", site + ":wait-load-acquires", strong,
               "the load of the flag that ends the wait is an acquire (or stronger) load: %s" % [(a or {}).get("order") for a in loads], fn=f)


def r3(ctx, facts, cfg):
    f = facts.need(BW + "_process_lowest_timestamp_transit_event", cfg)[0]
    g = f.g
    decls = f.var_decls()
    stores = []
    for n in f.walk():
        a = atomic_op(n)
        if a and a["kind"] == "store" and var_ref(a["obj"]) is not None and "atomic<bool>" in decls.get(var_ref(a["obj"]), {}).get("ty", ""):
            stores.append((n, a))
    if not stores:
        raise AnalysisBroken("_process_lowest_timestamp_transit_event: store to the flush flag not found")
    disp = need_some(f.calls(r"::_process_transit_event$"), "_process_transit_event call")
    for (n, a) in stores:
        sp = g.positions(n)
        fv = var_ref(a["obj"])
        pops = npos(f, f.calls(r"TransitEventBuffer::pop_front$"))
        dpos = npos(f, disp)
        ok = bool(pops) and all(g.dominates(pops, p) for p in sp) and all(g.dominates(dpos, p) for p in sp) and const_val(a["value"]) == 1
        nn = [(b, t) for (b, t) in [(bid, "F" if core_and_neg(g.term_cond(bid))[1] else "T") for bid in g.blocks
                                    if g.term_cond(bid) is not None and var_ref(core_and_neg(g.term_cond(bid))[0]) == fv]]
        ok = ok and bool(nn) and not g.exists_path([g.entry_node], sp, avoid_edges=nn)
        ctx.ob("C06.R3a", "_process_lowest_timestamp_transit_event:notify-after-pop", ok,
               "the caller's flag is set to true only after the flush event was dispatched and popped, and only when this event carried a flag "
               "(non-null outcome of the pointer test)", loc=n["loc"], fn=f)
        # the flag variable is what _process_transit_event filled in (passed by reference), initialised to nullptr, tested non-null
        passed = any(var_ref(x) == fv for x in disp[0]["args"])
        init = decls.get(fv, {}).get("init")
        ok = passed and is_null(strip(init, casts=True) if not (isnode(init) and init["k"] == "InitListExpr") else (init.get("c") or [None])[0])
        ctx.ob("C06.R3b", "_process_lowest_timestamp_transit_event:flag-from-dispatch", ok,
               "the pointer stored to is the local handed by reference to _process_transit_event and starts as nullptr", fn=f)
        ctx.ob("C06.R3c", "_process_lowest_timestamp_transit_event:notify-store-releases", a.get("order") in ("release", "seq_cst", "acq_rel"),
               "the store that releases the waiting caller is a release (or stronger) store: %s" % a.get("order"), loc=n["loc"], fn=f)
    pf = facts.need(BW + "_process_transit_event", cfg)[0]
    pg = pf.g
    flagp = pf.rec["params"][2]["did"]
    asg = [n for n in pf.walk() if n["k"] == "BinaryOperator" and n["op"] == "=" and var_ref(n["lhs"]) == flagp]
    if not asg:
        raise AnalysisBroken("_process_transit_event: assignment of the flush flag out-parameter not found")
    flushes = pf.calls(r"::_flush_and_run_active_sinks$")
    zero_flush = [c for c in flushes if const_val(c["args"][0]) == 0 and zero_duration(c["args"][1])]
    fpos = npos(pf, zero_flush)
    for a in asg:
        ap = pg.positions(a)
        from_event = field_name(a["rhs"]) == "flush_flag"
        ok = from_event and bool(fpos) and all(pg.dominates(fpos, p) for p in ap)
        ctx.ob("C06.R3c", "_process_transit_event:flush-before-capture", ok,
               "the flush flag is captured from the event only after _flush_and_run_active_sinks(false, 0) ran (unconditional flush of "
               "all sinks, R4)", loc=a["loc"], fn=pf)
        resets = [n for n in pf.walk() if n["k"] == "BinaryOperator" and n["op"] == "=" and field_name(n["lhs"]) == "flush_flag" and is_null(n["rhs"])]
        rp = npos(pf, resets)
        ok = bool(rp) and not pg.exists_path(ap, [pg.exit_node], avoid_nodes=rp)
        ctx.ob("C06.R3d", "_process_transit_event:flag-reset", ok,
               "the reused transit event's flush_flag is cleared after capture (a later event cannot signal a stale flag)", fn=pf)
    # the Flush arm is selected by event() == Flush (a comparison, or the case of a switch over event())
    from rules.common import enum_edges, label_matches
    fe = enum_edges(pg, r"MacroMetadata::event$", "Flush")
    ok = False
    for (bid, lab) in fe:
        start = [y for (y, l2) in pg.succ.get(tnode(pg, bid), ()) if label_matches(l2, lab)]
        if bool(fpos) and all(p in start or p in pg.reach(start) for p in fpos) and not pg.exists_path([pg.entry_node], fpos, avoid_edges=[(bid, lab)]):
            ok = True
    ctx.ob("C06.R3e", "_process_transit_event:flush-arm", ok, "the flush is performed exactly for events of kind Flush", fn=pf)
    # decode side: flush_flag member comes from the record
    df = facts.need(BW + "_populate_transit_event_from_frontend_queue", cfg)[0]
    asg = [n for n in df.walk() if n["k"] == "BinaryOperator" and n["op"] == "=" and field_name(n["lhs"]) == "flush_flag"]
    ok = False
    for a in asg:
        v = var_ref(strip(a["rhs"], casts=True))
        if v is None:
            continue
        for c in df.calls(r"^(std::)?memcpy$"):
            d = strip(c["args"][0], casts=True)
            if isnode(d) and d["k"] == "UnaryOperator" and d["op"] == "&" and var_ref(d["sub"]) == v and var_ref(c["args"][1]) == df.rec["params"][0]["did"]:
                ok = True
    ctx.ob("C06.R3f", "_populate_transit_event_from_frontend_queue:flag-from-record", ok,
           "the event's flush_flag is the word decoded from the flush record", fn=df)


def zero_duration(n):
    n = strip(n, casts=True)
    for x in walk(n):
        v = const_val(x)
        if v is not None:
            return v == 0
    return False


def r4(ctx, facts, cfg):
    f = facts.need(BW + "_flush_and_run_active_sinks", cfg)[0]
    g = f.g
    # R4e: one sink's failing flush does not skip the flush of the sinks after it (the flag is raised right after this function:
    # "returns only after ... flushed" must hold for every sink that can be flushed)
    from rules.common import try_stack, has_catch_all
    for c in f.calls(r"::Sink::flush_sink$"):
        ts = [t for t in try_stack(f, c) if has_catch_all(t)]
        loops = [a for a in f.ancestors(c) if a["k"] == "CXXForRangeStmt"]
        ctx.ob("C06.R4e", "_flush_and_run_active_sinks:every-sink-attempted", bool(ts) and bool(loops) and in_subtree(ts[0], loops[0]),
               "a flush_sink that throws is caught inside the loop over the sinks, so the remaining sinks are still flushed before the "
               "caller is released", loc=c["loc"], fn=f)
    ip = f.rec["params"][1]["did"]
    decls = f.var_decls()
    flush_calls = need_some(f.calls(r"::Sink::flush_sink$"), "flush_sink call")
    # the boolean that guards flush_sink
    guards = []
    for c in flush_calls:
        for a in f.ancestors(c):
            if a["k"] == "IfStmt" and in_subtree(c, a.get("then")):
                v = var_ref(core_and_neg(a["cond"])[0])
                if v is not None:
                    guards.append(v)
    guards = set(guards)
    ok = False
    why = "guard variable not identified"
    if len(guards) == 1:
        gv = list(guards)[0]
        sets_true = [n for n in f.walk() if n["k"] == "BinaryOperator" and n["op"] == "=" and var_ref(n["lhs"]) == gv and const_val(n["rhs"]) == 1]
        tp = npos(f, sets_true)
        br = []
        for bid, b in g.blocks.items():
            cond = g.term_cond(bid)
            if cond is None:
                continue
            core, neg = core_and_neg(cond)
            zero_lab = None
            if is_call(core, r"duration<.*>::count$") and var_ref(call_obj(core)) == ip:
                zero_lab = "T" if neg else "F"
            else:
                nc = norm_cmp(cond)
                if nc and nc[0] in ("==", "!=") and any(is_call(x, r"duration<.*>::count$") and var_ref(call_obj(x)) == ip for x in walk(cond)) and \
                        any(const_val(x) == 0 for x in (core.get("lhs"), core.get("rhs")) if x is not None):
                    zero_lab = "T" if (nc[0] == "==") != neg else "F"
            if zero_lab:
                br.append((bid, zero_lab))
        lp = npos(f, flush_calls)
        ok = bool(br) and bool(tp)
        for (bid, zl) in br:
            # on the 'interval == 0' outcome every path to the flush loop passes  guard = true
            if g.exists_path([tnode(g, bid)], lp, avoid_nodes=tp, avoid_edges=[(bid, other(zl))]):
                ok = False
        # and the guard starts false / is only ever set to true
        others = [n for n in f.assignments_to_var(gv) if n not in sets_true]
        ok = ok and not others
        why = "zero-interval tests: %d, assignments of true: %d" % (len(br), len(sets_true))
    # ... and the flush call sits on the 'guard is true' outcome of its test, reached on every path of an iteration from there
    if len(guards) == 1:
        gt = []
        for bid, b in g.blocks.items():
            cond = g.term_cond(bid)
            if cond is None:
                continue
            core, neg = core_and_neg(cond)
            if var_ref(core) == gv:
                gt.append((bid, "F" if neg else "T"))
        lp = npos(f, flush_calls)
        ok = ok and bool(gt) and not g.exists_path([g.entry_node], lp, avoid_edges=gt) and \
            all(g.exists_path([y for (y, lab) in g.succ.get(tnode(g, b), ()) if lab == l], lp) for (b, l) in gt)
    ctx.ob("C06.R4a", "_flush_and_run_active_sinks:zero-interval-forces-flush", ok,
           "with a zero minimum interval the sinks are flushed on every path (%s)" % why, fn=f)
    for c in flush_calls:
        loops = loops_enclosing(f, c)
        ok = False
        if loops and loops[0]["k"] != "CXXForRangeStmt":
            raise AnalysisBroken("_flush_and_run_active_sinks: the loop around flush_sink is not a range-for: shape not covered")
        if loops:
            lp_ = loops[0]
            over_cache = lp_["k"] == "CXXForRangeStmt" and is_this_field(strip(lp_.get("range")), "_active_sinks_cache")
            early = [x for x in walk(lp_.get("body")) if x["k"] in ("BreakStmt", "ReturnStmt", "GotoStmt", "ContinueStmt")]
            lv = lp_.get("loopvar", {}).get("did")
            o = call_obj(c)
            same = o is not None and any(x["k"] == "DeclRefExpr" and x.get("did") == lv for x in walk(o))
            ok = over_cache and not early and same
        ctx.ob("C06.R4b", "_flush_and_run_active_sinks:every-active-sink", ok,
               "flush_sink is invoked for every element of the active-sink cache (no early loop exit)", loc=c["loc"], fn=f)
    # the cache is filled from every sink of every valid logger; the collector never ends the iteration early
    lams = [x for x in facts.fns if x.config == cfg and x.rec.get("parent") == f.name]
    col = [l for l in lams if l.calls(r"std::vector<quill::Sink \*.*>::push_back$")]
    via_helper_ok = True
    if not col:
        # the collection extracted into a member function that this one calls before it visits the sinks
        for h in facts.callgraph(cfg).get(id(f), ()):
            if h.cls != f.cls or h is f:
                continue
            hl = [x for x in facts.fns if x.config == cfg and x.rec.get("parent") == h.name and x.calls(r"std::vector<quill::Sink \*.*>::push_back$")]
            if hl:
                col = hl
                hp = npos(f, [c_ for c_ in f.calls() if c_.get("callee") and short(c_["callee"]) == h.short])
                via_helper_ok = bool(hp) and all(g.dominates(hp, p_) for p_ in npos(f, flush_calls))
                break
    if not col:
        raise AnalysisBroken("_flush_and_run_active_sinks: collector lambda not found")
    l = col[0]
    lg = l.g
    rets = lg.return_nodes()
    never_early = bool(rets) and all(const_val(lg.node_ast(r).get("val")) == 0 for r in rets)
    pb = l.calls(r"std::vector<quill::Sink \*.*>::push_back$")
    loops = [n for n in l.walk() if n["k"] == "CXXForRangeStmt" and field_name(strip(n.get("range"))) == "sinks"]
    if not loops:
        other_loop_over(l, "sinks", "_flush_and_run_active_sinks collector")
    in_loop = bool(loops) and all(in_subtree(p, loops[0]) for p in pb) and \
        not [x for x in walk(loops[0].get("body")) if x["k"] in ("BreakStmt", "ReturnStmt", "GotoStmt", "ContinueStmt") and
             not any(a["k"] == "LambdaExpr" for a in l.ancestors(x) if in_subtree(a, loops[0]))]
    valid_br = branches_on_call(l, r"::is_valid_logger$")
    pbp = npos(l, pb)
    # polarity: collected on 'logger is valid' and on 'not yet in the cache'; the membership test compares for equality
    absent = []
    for b2, blk in lg.blocks.items():
        c = lg.term_cond(b2)
        if c is None:
            continue
        core, neg = core_and_neg(c)
        cs_ = strip(core, casts=True)
        if isnode(cs_) and is_call(cs_, r"operator(==|!=)") and any(is_call(x, r"(::c?end$|^std::c?end)") for x in walk(cs_)):
            lab = "T" if "operator==" in cs_["callee"] else "F"   # label of 'not found'
            absent.append((b2, other(lab) if neg else lab))
    inner = [x for x in facts.fns if x.config == cfg and x.rec.get("parent") == l.name]
    eq_ok = bool(inner) and all(any(isnode(strip(x.g.node_ast(r).get("val"), casts=True)) and strip(x.g.node_ast(r).get("val"), casts=True).get("k") == "BinaryOperator" and
                                    strip(x.g.node_ast(r).get("val"), casts=True).get("op") == "==" for r in x.g.return_nodes()) for x in inner)
    # a logger that was removed stays registered until the backend erases it, and what the caller logged through it before the removal
    # is still to be flushed: the collection is not restricted to valid loggers (the tree's sixteenth defect: it was)
    any_logger = not valid_br or all(lg.exists_path([y for (y, l2) in lg.succ.get(tnode(lg, b), ()) if l2 == other(t)], pbp) for (b, t, c) in valid_br)
    pol = any_logger and bool(absent) and not lg.exists_path([lg.entry_node], pbp, avoid_edges=absent) and eq_ok
    ok = never_early and in_loop and pol
    ctx.ob("C06.R4c", "_flush_and_run_active_sinks:collects-all-sinks", ok and via_helper_ok,
           "the active-sink cache receives every sink of every registered logger — a removed one included, until it is erased: the "
           "collector walks all sinks of a logger and returns false (never ends for_each_logger early) — never early: %s, loop over "
           "logger->sinks: %s; a sink is added on the outcome 'not yet in the cache' whether or not the logger is still valid, membership "
           "decided by pointer equality: %s" % (never_early, in_loop, pol), fn=l)
    # R4h: ... and before the backend erases removed loggers it flushes, unconditionally, while they are still registered: their sinks may
    # live on (another logger or the user holds them) and would never be flushed again
    cl = facts.need(BW + "_cleanup_invalidated_loggers", cfg)[0]
    cg_ = cl.g
    er = cpos(cl, r"LoggerManager::cleanup_invalidated_loggers\b")
    fl0 = npos(cl, [c for c in cl.calls(r"::_flush_and_run_active_sinks$") if zero_duration(c["args"][1])])
    none_e = [(b, other(t)) for (b, t, c) in branches_on_call(cl, r"LoggerManager::has_invalidated_loggers$")]
    ok_h = bool(er) and bool(fl0) and not cg_.exists_path([cg_.entry_node], er, avoid_nodes=fl0, avoid_edges=none_e)
    ctx.ob("C06.R4h", "_cleanup_invalidated_loggers:flush-before-erase", ok_h,
           "every path to the erasure of removed loggers passes an unconditional (zero interval) flush of the registered loggers' sinks, "
           "unless no logger is marked as removed", fn=cl)
    r4f_cache_emptied(ctx, facts, cfg)
    # for_each_logger itself: stops only when the callback returns true
    fe = facts.need("quill::detail::LoggerManager::for_each_logger", cfg)
    for x in fe:
        loops = [n for n in x.walk() if n["k"] == "CXXForRangeStmt" and is_this_field(strip(n.get("range")), "_loggers")]
        if not loops:
            other_loop_over(x, "_loggers", "LoggerManager::for_each_logger")
        early = []
        ok = bool(loops)
        if loops:
            for e in walk(loops[0].get("body")):
                if e["k"] in ("BreakStmt", "ReturnStmt", "GotoStmt"):
                    ifs = [a for a in x.ancestors(e) if a["k"] == "IfStmt" and in_subtree(a, loops[0])]
                    if not ifs or not any(y["k"] == "CallExpr" or is_call(y) for y in walk(ifs[0]["cond"])):
                        ok = False
        if loops and ok:
            # polarity: the loop is left exactly on the 'callback returned true' outcome
            xg = x.g
            cbp = x.rec["params"][0]["did"]
            stop = []
            for b2, blk in xg.blocks.items():
                c = xg.term_cond(b2)
                if c is None:
                    continue
                core, neg = core_and_neg(c)
                cs_ = strip(core, casts=True)
                if isnode(cs_) and cs_["k"] == "CXXOperatorCallExpr" and var_ref(cs_["args"][0]) == cbp:
                    stop.append((b2, "F" if neg else "T"))
            heads = [tnode(xg, b2) for b2, blk in xg.blocks.items() if blk.get("term") == "CXXForRangeStmt"]
            has_exit = any(e["k"] in ("BreakStmt", "ReturnStmt", "GotoStmt") for e in walk(loops[0].get("body")))
            if has_exit:
                # 'stop' leaves without coming back to the loop head; 'go on' cannot leave except through the loop head
                ok = bool(stop) and bool(heads) and \
                    all(xg.exists_path([y for (y, lab) in xg.succ.get(tnode(xg, b2), ()) if lab == l], [xg.exit_node], avoid_nodes=heads) for (b2, l) in stop) and \
                    all(not xg.exists_path([y for (y, lab) in xg.succ.get(tnode(xg, b2), ()) if lab == other(l)], [xg.exit_node], avoid_nodes=heads) for (b2, l) in stop)
        ctx.ob("C06.R4d", "LoggerManager::for_each_logger:visits-all", ok,
               "for_each_logger visits every registered logger unless the callback asks to stop", fn=x)
        break


def r4f_cache_emptied(ctx, facts, cfg, rule="C06.R4f"):
    f = facts.need(BW + "_flush_and_run_active_sinks", cfg)[0]
    g = f.g
    flush_calls = need_some(f.calls(r"::Sink::flush_sink$"), "flush_sink call")
    # R4f: the cache is scratch for one call: it is emptied after the sinks were visited, on every path (it holds raw pointers; a sink
    # destroyed after its last logger was removed must not be flushed through a pointer left over from an earlier call)
    clr = npos(f, [c for c in f.calls(r"std::vector<quill::Sink \*.*>::clear$") if is_this_field(call_obj(c), "_active_sinks_cache")])
    lp = npos(f, flush_calls)
    # ... also on the paths that continue from a catch handler (the flow graph has no edge into a handler; its body is the start)
    hpos = [p_ for t in f.walk() if t["k"] == "CXXTryStmt" for h in t.get("handlers") or [] for x in walk(h.get("body")) for p_ in g.positions(x)]
    after_handler = not g.exists_path(hpos, [g.exit_node], avoid_nodes=clr) if hpos else True
    ok = bool(clr) and not g.exists_path([g.entry_node], [g.exit_node], avoid_nodes=clr) and not g.exists_path(clr, lp) and after_handler
    ctx.ob(rule, "_flush_and_run_active_sinks:cache-emptied", ok,
           "the active-sink cache is cleared after the loop on every path, also the one that continues from a handler of a throwing "
           "sink (%s), so each call flushes exactly the sinks of the loggers that are registered now and no pointer to a sink that is "
           "destroyed later is kept" % ("ok" if after_handler else "a handler reaches the end without the clear"), fn=f)


def r5(ctx, facts, cfg):
    fs = facts.need("quill::FileSink::flush_sink", cfg)[0]
    g = fs.g
    sp = npos(fs, [c for c in fs.calls(r"^quill::StreamSink::flush_sink$")])
    early = branches_on_early_return(fs)
    ok = bool(sp) and not g.exists_path([g.entry_node], [g.exit_node], avoid_nodes=sp, avoid_edges=early["clean_edges"])
    ctx.ob("C06.R5a", "FileSink::flush_sink:chains", ok,
           "FileSink::flush_sink forwards to StreamSink::flush_sink on every path except 'nothing written / no file'", fn=fs)
    ss = facts.need("quill::StreamSink::flush_sink", cfg)[0]
    g = ss.g
    sp = npos(ss, ss.calls(r"^quill::StreamSink::flush$"))
    early = branches_on_early_return(ss)
    ok = bool(sp) and not g.exists_path([g.entry_node], [g.exit_node], avoid_nodes=sp, avoid_edges=early["clean_edges"])
    ctx.ob("C06.R5a", "StreamSink::flush_sink:chains", ok,
           "StreamSink::flush_sink calls flush() on every path except 'nothing written / no file'", fn=ss)
    fl = facts.need("quill::StreamSink::flush", cfg)[0]
    g = fl.g
    sp = npos(fl, [c for c in fl.calls(r"^fflush$") if is_this_field(c["args"][0], "_file")])
    ok = bool(sp) and not g.exists_path([g.entry_node], [g.exit_node], avoid_nodes=sp)
    ctx.ob("C06.R5b", "StreamSink::flush:fflush", ok, "flush() calls fflush(_file) on every path", fn=fl)
    ctx.note("fflush's result is ignored by StreamSink::flush (observed, not armed: the property says 'flushed', the code cannot know more)")
    wl = facts.need("quill::StreamSink::write_log", cfg)[0]
    g = wl.g
    writes = npos(wl, wl.calls(r"::safe_fwrite$"))
    marks = npos(wl, [n for n in wl.walk() if n["k"] == "BinaryOperator" and n["op"] == "=" and is_this_field(n["lhs"], "_write_occurred") and const_val(n["rhs"]) == 1])
    ok = bool(writes) and bool(marks) and not g.exists_path(writes, [g.exit_node], avoid_nodes=marks)
    ctx.ob("C06.R5c", "StreamSink::write_log:marks-dirty", ok,
           "every path on which bytes were written marks the stream dirty, so the next flush_sink is not skipped", fn=wl)


def r5_siblings(ctx, facts, cfg):
    """R5d: sinks built on StreamSink that write to the stream themselves (ConsoleSink's colour codes, ...) leave it marked dirty: a call
    that put bytes into the FILE* also passed StreamSink::write_log (which marks) or sets the flag itself — otherwise flush_sink skips
    the fflush and flush_log() returns with the statement still in the stdio buffer"""
    n = 0
    for f in facts.fns:
        if f.config != cfg or f.short == "quill::StreamSink::write_log" or not f.short.startswith("quill::"):
            continue
        direct = [c for c in f.calls(r"(::safe_fwrite$|^(std::)?fwrite$|^(std::)?fputs$|^(std::)?fprintf$)") if any(is_this_field(x, "_file") for a in c["args"] for x in walk(a))]
        if not direct or f.short in ("quill::StreamSink::safe_fwrite",):
            continue
        g = f.g
        n += 1
        marks = npos(f, [c for c in f.calls(r"^quill::StreamSink::write_log$")]) + \
            npos(f, [x for x in f.walk() if x["k"] == "BinaryOperator" and x["op"] == "=" and is_this_field(x["lhs"], "_write_occurred") and const_val(x["rhs"]) == 1])
        bad = [c["loc"] for c in direct if any(g.exists_path([g.entry_node], [p_], avoid_nodes=marks) and g.exists_path([p_], [g.exit_node], avoid_nodes=marks) for p_ in g.positions(c))]
        ctx.ob("C06.R5d", "%s:direct-write-marks-dirty" % f.short.replace("quill::", "")[:90], not bad,
               "a write to the stream made outside StreamSink::write_log is accompanied, on every path through it, by StreamSink::write_log "
               "or by setting the dirty flag (unmarked writes at: %s)" % (bad or "none"), fn=f)
    ctx.floor("C06.R5d", "functions of StreamSink-derived sinks that write to the stream directly", n, 1)


def branches_on_early_return(f):
    """'clean' outcomes: edges of tests of !_write_occurred / !_file under which skipping the flush is correct"""
    g = f.g
    edges = []
    for bid, b in g.blocks.items():
        cond = g.term_cond(bid)
        if cond is None:
            continue
        core, neg = core_and_neg(cond)
        if is_this_field(strip(core, casts=True), "_write_occurred") or is_this_field(strip(core, casts=True), "_file"):
            # outcome 'field is false/null' may skip; so the infeasible-to-blame edge is that one: we avoid the *other* edge? no:
            # we want paths that skip the flush although the field is set -> forbid skipping through the 'set' outcome only
            set_lab = "F" if neg else "T"
            edges.append((bid, other(set_lab)))
    return {"clean_edges": edges}
