#include "quill/core/BoundedSPSCQueue.h"
#include "quill/backend/BacktraceStorage.h"
#include "quill/core/ThreadContextManager.h"
#include <cstdio>
using namespace quill::detail;
namespace quill { inline namespace v9 { namespace detail { std::string get_thread_name(){return "x";} uint32_t get_thread_id() noexcept {return 1;} } } }
int main(){
  BoundedSPSCQueue q(1024);
  auto w=[&](size_t n){ auto p=q.prepare_write(n); if(!p) return false; q.finish_and_commit_write(n); return true;};
  auto r=[&](size_t n){ auto p=q.prepare_read(); if(!p) return false; q.finish_read(n); (void)q.prepare_read(); q.commit_read(); return true;};
  bool a=w(1000), b=r(1000), c=w(40), d=r(40); bool e=q.empty(); void* p=q.prepare_write(1000);
  printf("C09: %d%d%d%d empty=%d prepare_write(1000)=%s\n",a,b,c,d,e,p?"granted":"REFUSED");
  BacktraceStorage bs; bs.set_capacity(4);
  auto st=[&](int i){ TransitEvent te; te.timestamp=i; bs.store(std::move(te),"t","n");};
  auto fl=[&](){ printf("C18 flush:"); bs.process([](TransitEvent const& te,std::string_view,std::string_view){ printf(" %llu",(unsigned long long)te.timestamp);}); printf("\n");};
  for(int i=1;i<=6;i++) st(i); fl(); for(int i=11;i<=15;i++) st(i); fl(); st(21); st(22); fl();
  auto& m = ThreadContextManager::instance();
  for(int i=0;i<256;i++) m.add_invalid_thread_context();
  printf("C20: after 256 exits has_invalid=%d\n",(int)m.has_invalid_thread_context());
}
