"""Thread-role inference (DESIGN §3.1): which thread role(s) can execute a function.

Roots are taken from the code's public entry points; roles propagate along resolved
AST call edges (lambdas included). 'P' = producer / frontend (any logging thread),
'C' = consumer / backend worker thread."""
import re
from qlib import short

FRONTEND_ROOT_RE = re.compile(
    r"^quill::LoggerImpl::(log_statement|init_backtrace|flush_backtrace|flush_log|_prepare_write_buffer|_encode_header)$"
    r"|^quill::FrontendImpl::(preallocate|shrink_thread_local_queue|get_thread_local_queue_capacity|remove_logger_blocking)$"
    r"|^quill::CsvWriter::"
    r"|^quill::detail::on_signal$"
    r"|^quill::detail::get_local_thread_context$")

BACKEND_ROOT_RE = re.compile(
    r"^quill::detail::BackendWorker::(_poll|_exit|_init)$"
    r"|^quill::ManualBackendWorker::")


def infer(facts, config="A"):
    """returns dict id(fn) -> set of roles"""
    roles = {}
    proots = [f for f in facts.fns if f.config == config and FRONTEND_ROOT_RE.search(f.short)]
    croots = [f for f in facts.fns if f.config == config and BACKEND_ROOT_RE.search(f.short)]

    def stop(f):
        # Backend::start & friends spawn the backend thread: the lambda runs on the backend, not on
        # the caller. Propagation from frontend roots never enters BackendWorker.
        return False

    for f in facts.reachable_fns(proots, config, stop=lambda f: f.short.startswith("quill::detail::BackendWorker::")):
        roles.setdefault(id(f), set()).add("P")
    for f in facts.reachable_fns(croots, config):
        roles.setdefault(id(f), set()).add("C")
    return roles, proots, croots
