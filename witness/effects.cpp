// Witness translation unit "effects" (C11): hot-path instantiations of the log call for every queue type over the
// argument types the property lists, plus two positive controls (a direct-format type and std::filesystem::path).
// It is compiled to LLVM IR at -O0 (nothing inlined) and only its call graph is inspected; nothing is executed.
#include "quill/DeferredFormatCodec.h"
#include "quill/DirectFormatCodec.h"
#include "quill/Frontend.h"
#include "quill/LogMacros.h"
#include "quill/Logger.h"
#include "quill/StringRef.h"
#include "quill/bundled/fmt/format.h"
#include "quill/std/Array.h"
#include "quill/std/Chrono.h"
#include "quill/std/Deque.h"
#include "quill/std/FilesystemPath.h"
#include "quill/std/ForwardList.h"
#include "quill/std/List.h"
#include "quill/std/Map.h"
#include "quill/std/Optional.h"
#include "quill/std/Pair.h"
#include "quill/std/Set.h"
#include "quill/std/Tuple.h"
#include "quill/std/UnorderedMap.h"
#include "quill/std/UnorderedSet.h"
#include "quill/std/Vector.h"

#include <array>
#include <deque>
#include <filesystem>
#include <forward_list>
#include <list>
#include <map>
#include <optional>
#include <set>
#include <string>
#include <string_view>
#include <tuple>
#include <unordered_map>
#include <unordered_set>
#include <vector>

namespace qv
{
struct FO_UnboundedBlocking : quill::FrontendOptions
{
  static constexpr quill::QueueType queue_type = quill::QueueType::UnboundedBlocking;
};
struct FO_UnboundedDropping : quill::FrontendOptions
{
  static constexpr quill::QueueType queue_type = quill::QueueType::UnboundedDropping;
};
struct FO_BoundedBlocking : quill::FrontendOptions
{
  static constexpr quill::QueueType queue_type = quill::QueueType::BoundedBlocking;
};
struct FO_BoundedDropping : quill::FrontendOptions
{
  static constexpr quill::QueueType queue_type = quill::QueueType::BoundedDropping;
};

enum class Colour : uint8_t
{
  Red,
  Green
};
inline int format_as(Colour c) { return static_cast<int>(c); }

// trivially copyable deferred-format user type
struct Deferred
{
  int a;
  double b;
  char c[8];
};

// deferred-format user type that goes through placement copy (not trivially copyable, but its copy does not allocate)
struct DeferredPlaced
{
  DeferredPlaced() = default;
  DeferredPlaced(DeferredPlaced const& o) : a(o.a) {}
  DeferredPlaced(DeferredPlaced&& o) noexcept : a(o.a) {}
  ~DeferredPlaced() {}
  int a{0};
};

// user type encoded member by member with the documented helper functions (compute_total_encoded_size / encode_members /
// decode_members): a cached-length member (char const*) followed by further members, so that the size cache index matters
struct Memberwise
{
  std::string name;
  char const* note{nullptr};
  std::string tail;
  int id{0};
};

// direct-format user type (documented opt-in: formatted at the call site) — positive control
struct Direct
{
  int a;
};
} // namespace qv

// the user formatters: where they run is what rule R3 is about
template <>
struct fmtquill::formatter<qv::Deferred>
{
  constexpr auto parse(format_parse_context& ctx) { return ctx.begin(); }
  auto format(qv::Deferred const& v, format_context& ctx) const { return fmtquill::format_to(ctx.out(), "D({},{})", v.a, v.b); }
};
template <>
struct fmtquill::formatter<qv::DeferredPlaced>
{
  constexpr auto parse(format_parse_context& ctx) { return ctx.begin(); }
  auto format(qv::DeferredPlaced const& v, format_context& ctx) const { return fmtquill::format_to(ctx.out(), "P({})", v.a); }
};
template <>
struct fmtquill::formatter<qv::Direct>
{
  constexpr auto parse(format_parse_context& ctx) { return ctx.begin(); }
  auto format(qv::Direct const& v, format_context& ctx) const { return fmtquill::format_to(ctx.out(), "X({})", v.a); }
};
template <>
struct fmtquill::formatter<qv::Memberwise>
{
  constexpr auto parse(format_parse_context& ctx) { return ctx.begin(); }
  auto format(qv::Memberwise const& v, format_context& ctx) const
  {
    return fmtquill::format_to(ctx.out(), "M({},{},{},{})", v.name, v.note ? v.note : "", v.tail, v.id);
  }
};
template <>
struct quill::Codec<qv::Memberwise>
{
  static size_t compute_encoded_size(quill::detail::SizeCacheVector& cache, qv::Memberwise const& v) noexcept
  {
    return quill::compute_total_encoded_size(cache, v.name, v.note, v.tail, v.id);
  }
  static void encode(std::byte*& buffer, quill::detail::SizeCacheVector const& cache, uint32_t& cache_index, qv::Memberwise const& v) noexcept
  {
    quill::encode_members(buffer, cache, cache_index, v.name, v.note, v.tail, v.id);
  }
  static qv::Memberwise decode_arg(std::byte*& buffer)
  {
    qv::Memberwise v;
    quill::decode_members(buffer, v, v.name, v.note, v.tail, v.id);
    return v;
  }
  static void decode_and_store_arg(std::byte*& buffer, quill::DynamicFormatArgStore* args_store)
  {
    args_store->push_back(decode_arg(buffer));
  }
};
template <>
struct quill::Codec<qv::Deferred> : quill::DeferredFormatCodec<qv::Deferred>
{
};
template <>
struct quill::Codec<qv::DeferredPlaced> : quill::DeferredFormatCodec<qv::DeferredPlaced>
{
};
template <>
struct quill::Codec<qv::Direct> : quill::DirectFormatCodec<qv::Direct>
{
};

namespace qv
{
// ---- hot roots (one function per argument family so a report names the family)
template <typename FO>
void hot_arith(quill::LoggerImpl<FO>* l, int i, unsigned u, long long ll, unsigned long long ull, short s, char c, bool b,
               float f, double d, long double ld, Colour e, void const* p)
{
  LOG_INFO(l, "{} {} {} {} {} {} {} {} {} {} {} {}", i, u, ll, ull, s, c, b, f, d, ld, e, p);
  LOG_DYNAMIC(l, quill::LogLevel::Warning, "{} {}", i, d);
  LOG_INFO(l, "no args");
}

template <typename FO>
void hot_strings(quill::LoggerImpl<FO>* l, char const* cs, char* ms, std::string const& s, std::string_view sv)
{
  char arr[16] = "abc";
  LOG_INFO(l, "{} {} {} {} {} {}", cs, ms, s, sv, arr, "literal");
  // twelve variable-length C strings: the inline capacity of the size cache
  LOG_INFO(l, "{} {} {} {} {} {} {} {} {} {} {} {}", cs, cs, cs, cs, cs, cs, cs, cs, cs, cs, cs, cs);
  LOG_INFO(l, "{}", quill::utility::StringRef{s});
  // a type whose decoded form (std::string_view) has another layout than what its own codec writes (pointer + size), inside the
  // composite codecs: each must decode the element with the codec of the *encoded* type
  LOG_INFO(l, "{} {}", std::make_tuple(quill::utility::StringRef{s}, 1), std::make_pair(quill::utility::StringRef{s}, 2));
}

template <typename FO>
void hot_containers(quill::LoggerImpl<FO>* l, std::vector<int> const& vi, std::vector<std::string> const& vs,
                    std::array<int, 3> const& ai, std::array<std::string, 2> const& as, std::deque<double> const& dq,
                    std::list<std::string> const& ls, std::forward_list<int> const& fl, std::set<std::string> const& ss,
                    std::unordered_set<int> const& us, std::vector<std::vector<std::string>> const& vvs,
                    std::vector<char const*> const& vcs, std::vector<std::string_view> const& vsv)
{
  LOG_INFO(l, "{} {} {} {} {} {}", vi, vs, ai, as, dq, ls);
  LOG_INFO(l, "{} {} {} {} {} {}", fl, ss, us, vvs, vcs, vsv);
}

// the other arm of every container codec (arithmetic elements are summed / copied in one piece, class-type elements one by one):
// hot_containers has one element kind per container, this root has the other
template <typename FO>
void hot_containers2(quill::LoggerImpl<FO>* l, std::deque<std::string> const& ds, std::list<int> const& li, std::forward_list<std::string> const& fs,
                     std::set<int> const& si, std::unordered_set<std::string> const& uss, std::map<int, int> const& mii,
                     std::unordered_map<int, int> const& umii, std::multimap<int, int> const& mmii, std::pair<int, double> const& pid,
                     std::optional<double> const& od, std::vector<double> const& vd, std::vector<Colour> const& vc)
{
  LOG_INFO(l, "{} {} {} {} {} {}", ds, li, fs, si, uss, mii);
  LOG_INFO(l, "{} {} {} {} {} {}", umii, mmii, pid, od, vd, vc);
}

// built-in arrays (Codec<T[N]>, T != char): arithmetic, enum and class-type elements
template <typename FO>
void hot_carrays(quill::LoggerImpl<FO>* l, int const (&ia)[3], Colour const (&ea)[2], std::string const (&sa)[2])
{
  LOG_INFO(l, "{} {} {}", ia, ea, sa);
}

template <typename FO>
void hot_maps(quill::LoggerImpl<FO>* l, std::map<std::string, int> const& msi, std::unordered_map<std::string, std::string> const& umss,
              std::map<int, std::vector<std::string>> const& miv, std::multimap<std::string, int> const& mm,
              std::unordered_multimap<int, std::string> const& umm)
{
  LOG_INFO(l, "{} {} {} {} {}", msi, umss, miv, mm, umm);
}

// ordered containers with a user comparator: the backend must rebuild them in the same order
template <typename FO>
void hot_ordered(quill::LoggerImpl<FO>* l, std::set<std::string, std::greater<>> const& sg, std::multiset<int, std::greater<int>> const& mg,
                 std::map<std::string, int, std::greater<>> const& mapg, std::multimap<int, std::string, std::greater<int>> const& mmg)
{
  LOG_INFO(l, "{} {} {} {}", sg, mg, mapg, mmg);
}

template <typename FO>
void hot_wrappers(quill::LoggerImpl<FO>* l, std::optional<std::string> const& os, std::optional<int> const& oi,
                  std::pair<std::string, int> const& psi, std::tuple<int, std::string, double, char const*> const& t,
                  std::pair<std::optional<std::string>, std::vector<int>> const& nested,
                  std::chrono::seconds secs, std::chrono::system_clock::time_point tp)
{
  LOG_INFO(l, "{} {} {} {} {}", os, oi, psi, t, nested);
  LOG_INFO(l, "{} {}", secs, tp);
}

template <typename FO>
void hot_deferred(quill::LoggerImpl<FO>* l, Deferred const& d, DeferredPlaced const& p, std::vector<Deferred> const& vd)
{
  LOG_INFO(l, "{} {}", d, p);
  LOG_INFO(l, "{}", vd);
}

template <typename FO>
void hot_memberwise(quill::LoggerImpl<FO>* l, Memberwise const& m, std::string const& s, std::vector<Memberwise> const& vm)
{
  LOG_INFO(l, "{} {}", m, s);
  LOG_INFO(l, "{}", vm);
}

// ---- positive controls: must be reported when their documented exclusion is ignored
template <typename FO>
void control_direct(quill::LoggerImpl<FO>* l, Direct const& x)
{
  LOG_INFO(l, "{}", x);
}

template <typename FO>
void control_path(quill::LoggerImpl<FO>* l, std::filesystem::path const& p)
{
  LOG_INFO(l, "{}", p);
}

// ---- cold by documentation: first call / preallocate
template <typename FO>
void cold_preallocate()
{
  quill::FrontendImpl<FO>::preallocate();
}

#define QV_INSTANTIATE(FO)                                                                                                                    \
  template void hot_arith<FO>(quill::LoggerImpl<FO>*, int, unsigned, long long, unsigned long long, short, char, bool, float, double,         \
                              long double, Colour, void const*);                                                                              \
  template void hot_strings<FO>(quill::LoggerImpl<FO>*, char const*, char*, std::string const&, std::string_view);                            \
  template void hot_containers<FO>(quill::LoggerImpl<FO>*, std::vector<int> const&, std::vector<std::string> const&,                          \
                                   std::array<int, 3> const&, std::array<std::string, 2> const&, std::deque<double> const&,                   \
                                   std::list<std::string> const&, std::forward_list<int> const&, std::set<std::string> const&,                \
                                   std::unordered_set<int> const&, std::vector<std::vector<std::string>> const&,                              \
                                   std::vector<char const*> const&, std::vector<std::string_view> const&);                                    \
  template void hot_maps<FO>(quill::LoggerImpl<FO>*, std::map<std::string, int> const&, std::unordered_map<std::string, std::string> const&,  \
                             std::map<int, std::vector<std::string>> const&, std::multimap<std::string, int> const&,                          \
                             std::unordered_multimap<int, std::string> const&);                                                               \
  template void hot_ordered<FO>(quill::LoggerImpl<FO>*, std::set<std::string, std::greater<>> const&, std::multiset<int, std::greater<int>> const&,      \
                                std::map<std::string, int, std::greater<>> const&, std::multimap<int, std::string, std::greater<int>> const&);          \
  template void hot_wrappers<FO>(quill::LoggerImpl<FO>*, std::optional<std::string> const&, std::optional<int> const&,                        \
                                 std::pair<std::string, int> const&, std::tuple<int, std::string, double, char const*> const&,                \
                                 std::pair<std::optional<std::string>, std::vector<int>> const&, std::chrono::seconds,                        \
                                 std::chrono::system_clock::time_point);                                                                      \
  template void hot_deferred<FO>(quill::LoggerImpl<FO>*, Deferred const&, DeferredPlaced const&, std::vector<Deferred> const&);               \
  template void hot_memberwise<FO>(quill::LoggerImpl<FO>*, Memberwise const&, std::string const&, std::vector<Memberwise> const&);            \
  template void hot_carrays<FO>(quill::LoggerImpl<FO>*, int const (&)[3], Colour const (&)[2], std::string const (&)[2]);                     \
  template void hot_containers2<FO>(quill::LoggerImpl<FO>*, std::deque<std::string> const&, std::list<int> const&,                            \
                                    std::forward_list<std::string> const&, std::set<int> const&, std::unordered_set<std::string> const&,      \
                                    std::map<int, int> const&, std::unordered_map<int, int> const&, std::multimap<int, int> const&,           \
                                    std::pair<int, double> const&, std::optional<double> const&, std::vector<double> const&,                  \
                                    std::vector<Colour> const&);                                                                             \
  template void control_direct<FO>(quill::LoggerImpl<FO>*, Direct const&);                                                                    \
  template void control_path<FO>(quill::LoggerImpl<FO>*, std::filesystem::path const&);                                                       \
  template void cold_preallocate<FO>();

QV_INSTANTIATE(FO_UnboundedBlocking)
QV_INSTANTIATE(FO_UnboundedDropping)
QV_INSTANTIATE(FO_BoundedBlocking)
QV_INSTANTIATE(FO_BoundedDropping)
} // namespace qv
