"""C10 — a failing statement or a throwing sink disturbs nothing else (DESIGN §4 C10)."""
import re
from qlib import (AnalysisBroken, strip, isnode, walk, is_call, norm_cmp, var_ref, is_null, const_val, short, call_obj,
                  expr_key, field_name, is_this_field)
from rules.common import (core_and_neg, tnode, other, cpos, npos, branches_on_call, in_subtree, try_stack, handler_info,
                          has_catch_all, need_some, contained)

EXPLANATION = ("Exception containment in the backend. R1: between prepare_read and finish_read (the decode function and everything it "
               "calls) every call that can run user formatter code — fmt formatting fed from the decoded argument store — is enclosed, "
               "inside that window, by a try whose handlers include a catch-all that does not rethrow; otherwise an exception of any "
               "type leaves the window with the read position unadvanced and the same record is decoded again on every poll (this rule "
               "found the pinned tree's defect: std::exception only). R2: the per-event try has a std::exception handler and a "
               "catch-all, neither rethrows/returns, and the pop lies after it. R3: every call of a Sink virtual that may throw "
               "(write_log, flush_sink; run_periodic_tasks and Filter::filter must be declared noexcept) and every throw statement in "
               "the dispatch path is contained by a catch-all on every call chain from the poll loop. R4: _poll() is called inside "
               "try + catch-all inside the worker loop and in poll_one; every handler of the backend reports through the error "
               "notifier except the one named swallow. R5: 'backtrace without init' is a throw inside the per-event try."
               " R8: an undefined error_notifier (documented: disables notifications) is replaced by a callable in _init or every call is guarded (found the tree's fourteenth defect). R9 (= C19.R2): the named-args list is sized by the names. R10: QuillError owns its text. R11: every handler of the formatting try clears the message, appends the error text and reports it, in this order."
               " R14: every call that hands _file to the C library lies behind the 'file is open' outcome of a test of _file, in the function or at each of its call sites. R15 (= C18.R2k): each statement replayed from the backtrace ring is dispatched under its own catch-all. R16 (= C12.R9): the cut of a run-time-metadata text has the accepted shape (another shape is not decided). R17 (= C14.R1h): a failed write is decided from what that very fwrite returned.")
NOT_DECIDED = ("The text of the error message; 'at most that one statement is missing from that sink and the sinks after it' as a "
               "count; exceptions thrown by user copy constructors during decoding.")
ASSUMPTIONS = ["exceptions enabled (QUILL_NO_EXCEPTIONS not defined)", "the user's error_notifier itself does not throw"]
BW = "quill::detail::BackendWorker::"
SWALLOW_OK = {"quill::detail::BackendWorker::_populate_formatted_named_args":
              "the same formatting error was already reported by _populate_formatted_log_message for this statement"}


def run(ctx):
    configs = ["A"] if ctx.tier == "quick" else ["A", "B"]
    for cfg in configs:
        facts = ctx.facts("core.cpp", cfg)
        r1(ctx, facts, cfg)
        r2(ctx, facts, cfg)
        r3(ctx, facts, cfg)
        r4(ctx, facts, cfg)
        r8_notifier_callable(ctx, facts, cfg)
        r10_error_owns_its_text(ctx, facts, cfg)
        r11_error_text_in_place(ctx, facts, cfg)
        r13_gives_up_the_file_only_when_it_is_gone(ctx, facts, cfg)
        r14_no_stdio_call_on_a_closed_file(ctx, facts, cfg)
        # a sink that throws while the backtrace is replayed loses that statement only: each replayed statement is dispatched under its
        # own catch-all, so the replay goes on and the ring is cleared (= C18.R2k)
        from rules import c18
        from rules.c12 import _Only
        from rules.c09 import Renamed as _Ren15
        c18.r2(_Only(_Ren15(ctx, "C18.R2k", "C10.R15"), ("C18.R2k",)), facts, cfg)
        if cfg == "A":
            # the decoder runs outside every per-statement handler: a LOG_RUNTIME_METADATA statement that could not be formatted goes
            # through _apply_runtime_metadata with the error text in place of its message; that function cuts the text at separators
            # it finds or not, without throwing (= C12.R9: the accepted shape of the cut; another shape is not decided)
            from rules import c12
            c12.r9_runtime_metadata(_Ren15(ctx, "C12.R9", "C10.R16"), facts)
            # a write that failed is reported once: whether it failed is decided from what this very fwrite returned, for the bytes of
            # this statement (= C14.R1h; a test of the stream's sticky error flag makes every later write 'fail' as well)
            from rules import c14
            c14.stream_write(_Ren15(ctx, "C14.R1h", "C10.R17"), facts)
    # state that is reused from one statement to the next must not carry a failed (or any earlier) statement into the next one:
    # the shared argument store (= C04.R6) and the JSON sink's message buffer (= C19.R3)
    from rules import c04, c19
    from rules.c09 import Renamed
    c04.string_flag(Renamed(ctx, "C04.R6", "C10.R6"), ctx.facts("effects.cpp", "A", ()), ctx.facts("core.cpp", "A"))
    c19.r3(Renamed(ctx, "C19.R3", "C10.R7"), ctx.facts("core.cpp", "A"))
    # the error path of a statement with named args (fewer arguments than names) writes within the list it sized (= C19.R2)
    c19.r2(Renamed(ctx, "C19.R2", "C10.R9"), ctx.facts("core.cpp", "A"))
    # the backend thread leaves the template scanner for every template, also a malformed one (= C19.R5d)
    c19.r5d_scanner_terminates(Renamed(ctx, "C19.R5d", "C10.R12"), ctx.facts("core.cpp", "A"))


def window_fns(facts, cfg):
    root = facts.need(BW + "_populate_transit_event_from_frontend_queue", cfg)[0]
    fs = facts.reachable_fns([root], cfg, stop=lambda f: not (f.short.startswith("quill::detail::BackendWorker::")))
    return root, [f for f in fs if f.short.startswith("quill::detail::BackendWorker::")]


def refs_arg_store(n):
    for x in walk(n):
        if x["k"] == "MemberExpr" and x.get("mname") == "_format_args_store":
            return True
        if x["k"] == "DeclRefExpr" and x.get("name") == "format_args_store":
            return True
    return False


def contained_in_window(facts, cfg, root, f, node, seen=None):
    """like common.contained but the chain may not leave the read window (root)"""
    if seen is None:
        seen = set()
    for t in try_stack(f, node):
        if has_catch_all(t):
            return True, []
    if f is root:
        return False, [f.short]
    if id(f) in seen:
        return True, []
    seen.add(id(f))
    callers = [(g, s) for (g, s) in facts.callsites(cfg).get(id(f), []) if g.short.startswith("quill::detail::BackendWorker::")]
    if not callers:
        return False, [f.short]
    for (g, s) in callers:
        ok, chain = contained_in_window(facts, cfg, root, g, s, seen)
        if not ok:
            return False, chain + [f.short]
    return True, []


def r1(ctx, facts, cfg):
    root, win = window_fns(facts, cfg)
    sites = 0
    for f in win:
        for c in f.calls(r"^fmtquill::(v\d+::)?(vformat_to|vformat|format|format_to|vformat_to_n|format_to_n|formatted_size)\b"):
            if not refs_arg_store(c):
                continue
            sites += 1
            ok, chain = contained_in_window(facts, cfg, root, f, c)
            ctx.ob("C10.R1", "%s:user-formatter-contained" % f.short.replace("quill::detail::", ""), ok,
                   "formatting of decoded user arguments (%s) is enclosed, inside the prepare_read..finish_read window, by a catch-all that "
                   "does not rethrow%s" % (short(c["callee"]).split("::")[-1], "" if ok else " — escapes through " + " <- ".join(reversed(chain))),
                   loc=c["loc"], fn=f)
    ctx.floor("C10.R1", "formatting calls fed from the decoded argument store", sites, 2)
    # the handlers that contain them produce the error text / report, and do not leave the window abnormally
    f = facts.need(BW + "_populate_formatted_log_message", cfg)[0]
    tries = [n for n in f.walk() if n["k"] == "CXXTryStmt"]
    ok = bool(tries)
    for t in tries:
        for (caught, rt, ret, body) in handler_info(t):
            reports = any(is_call(x) and any(y["k"] == "MemberExpr" and y.get("mname") == "error_notifier" for y in walk(x)) for x in walk(body))
            writes_text = any(is_call(x, r"::append\b") for x in walk(body))
            ctx.ob("C10.R1b", "_populate_formatted_log_message:handler(%s)" % caught, reports and not rt,
                   "the handler reports the failure (and may replace the message by an explanatory error text) and reports through the error notifier "
                   "(reports: %s, writes text: %s, rethrows: %s)" % (reports, writes_text, rt), loc=body["loc"], fn=f)


def r2(ctx, facts, cfg):
    f = facts.need(BW + "_process_lowest_timestamp_transit_event", cfg)[0]
    disp = need_some(f.calls(r"::_process_transit_event$"), "_process_transit_event call")
    ts = try_stack(f, disp[0])
    hi = [h for t in ts for h in handler_info(t)]
    caught = [c for (c, rt, ret, b) in hi]
    ok = bool(ts) and "..." in caught and all(not rt and not ret for (c, rt, ret, b) in hi)
    ctx.ob("C10.R2", "_process_lowest_timestamp_transit_event:per-event-try", ok,
           "the dispatch of one event is enclosed by handlers %s, none of which rethrows or returns: the event is popped regardless" % caught, fn=f)
    pops = f.calls(r"TransitEventBuffer::pop_front$")
    ok = bool(pops) and all(not any(t in try_stack(f, p) for t in ts) for p in pops)
    ctx.ob("C10.R2", "_process_lowest_timestamp_transit_event:pop-outside-try", ok,
           "pop_front lies outside (after) the per-event try", fn=f)
    # R2c: the clean-up of the reused event runs on the error path too: it lies outside the try and every path to pop_front passes it
    # (or finds no named-args vector to clean)
    g = f.g
    clr = [c for c in f.calls(r"std::vector<.*>::clear$") if any(x["k"] == "MemberExpr" and x.get("mname") == "named_args" for x in walk(call_obj(c)))]
    cp_ = npos(f, clr)
    nul = []
    for bid, b in g.blocks.items():
        c = g.term_cond(bid)
        if c is None:
            continue
        core, neg = core_and_neg(c)
        if any(x["k"] == "MemberExpr" and x.get("mname") == "named_args" for x in walk(core)) and not any(is_call(x, r"::clear$") for x in walk(core)):
            nul.append((bid, "T" if neg else "F"))  # label of 'no named-args vector'
    ok = bool(clr) and all(not any(t in try_stack(f, c) for t in ts) for c in clr) and \
        not g.exists_path([g.entry_node], npos(f, pops), avoid_nodes=cp_, avoid_edges=[(b, l) for (b, l) in nul])
    ctx.ob("C10.R2c", "_process_lowest_timestamp_transit_event:cleanup-on-every-path", ok,
           "the named arguments of the reused transit event are cleared after the per-event try, on the error path as well: a statement "
           "whose dispatch threw does not leave its named arguments to the next statement that reuses the slot", fn=f)


def r3(ctx, facts, cfg):
    # declarations: which Sink/Filter virtuals may throw
    sink = facts.cls("quill::Sink", cfg)
    filt = facts.cls("quill::Filter", cfg)
    if not sink or not filt:
        raise AnalysisBroken("Sink / Filter class records not found")
    decl = {short(m["name"]).split("::")[-1]: m for m in sink["methods"] + filt["methods"] if m.get("virt")}
    for need in ("write_log", "flush_sink", "run_periodic_tasks", "filter"):
        if need not in decl:
            raise AnalysisBroken("virtual %s not found on Sink/Filter" % need)
    backend = [f for f in facts.fns if f.config == cfg and not f.rec.get("main") and
               (f.short.startswith(BW) or f.short.startswith("quill::detail::BacktraceStorage::") or f.short.startswith("quill::Sink::apply_all_filters"))]
    n = 0
    memo = {}
    for f in backend:
        for c in f.calls(r"^quill::(Sink|Filter)::(write_log|flush_sink|run_periodic_tasks|filter)$"):
            if c.get("qualified"):
                continue
            name = short(c["callee"]).split("::")[-1]
            n += 1
            if decl[name].get("nothrow"):
                ctx.ob("C10.R3a", "%s:%s-noexcept" % (f.short.replace("quill::detail::", ""), name), True,
                       "%s is declared noexcept: user overrides cannot propagate an exception" % name, loc=c["loc"], fn=f)
                continue
            ok, chain = contained(facts, cfg, f, c, memo)
            ctx.ob("C10.R3b", "%s:%s-contained" % (f.short.replace("quill::detail::", ""), name), ok,
                   "the call of user sink code %s() is enclosed by a non-rethrowing catch-all on every call chain from the poll loop%s"
                   % (name, "" if ok else " — escapes through " + " <- ".join(reversed(chain))), loc=c["loc"], fn=f)
    ctx.floor("C10.R3", "calls of Sink/Filter virtuals from backend code", n, 4)
    # per-sink containment of flush: the try is inside the loop over sinks (one sink's failure does not skip the others)
    f = facts.need(BW + "_flush_and_run_active_sinks", cfg)[0]
    for c in f.calls(r"^quill::Sink::flush_sink$"):
        ts = [t for t in try_stack(f, c) if has_catch_all(t)]
        loops = [a for a in f.ancestors(c) if a["k"] == "CXXForRangeStmt"]
        ok = bool(ts) and bool(loops) and in_subtree(ts[0], loops[0])
        ctx.ob("C10.R3c", "_flush_and_run_active_sinks:per-sink-try", ok,
               "flush_sink is contained per sink (try inside the loop): a throwing sink does not prevent flushing the others and does not "
               "let the flush request escape unanswered", loc=c["loc"], fn=f)
    # R5: throw statements in the dispatch path are contained
    pt = facts.need(BW + "_process_transit_event", cfg)[0]
    throws = [x for x in pt.walk() if x["k"] == "CXXThrowExpr"]
    ctx.floor("C10.R5", "throw statements in _process_transit_event (backtrace without init)", len(throws), 1)
    for t in throws:
        ok, chain = contained(facts, cfg, pt, t, memo)
        ctx.ob("C10.R5", "_process_transit_event:throw-contained", ok,
               "the 'backtrace used without init' error is raised inside the per-event containment and reported, not propagated", loc=t["loc"], fn=pt)


def r4(ctx, facts, cfg):
    # _poll() call sites
    poll = facts.need(BW + "_poll", cfg)[0]
    sites = facts.callsites(cfg).get(id(poll), [])
    ctx.floor("C10.R4", "call sites of _poll", len(sites), 2)
    for (g, c) in sites:
        ts = [t for t in try_stack(g, c) if has_catch_all(t)]
        ok = bool(ts)
        in_loop = True
        if "lambda" in g.name:
            loops = [a for a in g.ancestors(c) if a["k"] in ("WhileStmt", "DoStmt", "ForStmt")]
            in_loop = bool(loops) and bool(ts) and in_subtree(ts[0], loops[0])
        ctx.ob("C10.R4a", "%s:_poll-contained" % g.short.replace("quill::detail::", "").replace("quill::", ""), ok and in_loop,
               "_poll() runs inside try + non-rethrowing catch-all%s: an exception ends one poll, not the backend"
               % (" inside the worker loop" if "lambda" in g.name else ""), loc=c["loc"], fn=g)
    ex = facts.need(BW + "_exit", cfg)[0]
    for (g, c) in facts.callsites(cfg).get(id(ex), []):
        if g.rec.get("dtor"):
            ctx.note("~%s calls _exit() outside a try (destructor; observed, not armed)" % g.cls)
            continue
        ts = [t for t in try_stack(g, c) if has_catch_all(t)]
        ctx.ob("C10.R4a", "%s:_exit-contained" % g.short.replace("quill::detail::", ""), bool(ts),
               "the exit drain runs inside try + catch-all", loc=c["loc"], fn=g)
    # every handler in the backend reports
    n = 0
    for f in facts.fns:
        if f.config != cfg or f.rec.get("main"):
            continue
        if not (f.short.startswith(BW) or f.short.startswith("quill::ManualBackendWorker::")):
            continue
        for t in [x for x in f.walk() if x["k"] == "CXXTryStmt"]:
            hs = handler_info(t)
            caught = [c for (c, rt, ret, b) in hs]
            for (c, rt, ret, body) in hs:
                n += 1
                reports = any(y["k"] == "MemberExpr" and y.get("mname") == "error_notifier" for y in walk(body))
                base = f.short.split("::lambda")[0]
                if not reports and base in SWALLOW_OK:
                    ctx.ob("C10.R4b", "%s:handler(%s)" % (f.short.replace("quill::detail::", ""), c), True,
                           "named swallow: " + SWALLOW_OK[base], loc=body["loc"], fn=f)
                    continue
                ctx.ob("C10.R4b", "%s:handler(%s)" % (f.short.replace("quill::detail::", ""), c), reports and not rt,
                       "the handler reports through _options.error_notifier and does not rethrow", loc=body["loc"], fn=f)
            ctx.ob("C10.R4c", "%s:catch-all-present@%s" % (f.short.replace("quill::detail::", ""), t["loc"].split(":")[1]), "..." in caught,
                   "a try in the backend that catches std::exception also has a catch-all (any exception type): %s" % caught, loc=t["loc"], fn=f)
    ctx.floor("C10.R4b", "exception handlers in the backend", n, 10)


def r8_notifier_callable(ctx, facts, cfg):
    """R8: reporting never becomes the failure. BackendOptions documents an undefined error_notifier (`= {}`) as the way to disable
    notifications, and every error path of the backend calls it — from catch handlers and from a noexcept function: calling an empty
    std::function there throws bad_function_call out of the handler and ends the backend. Accepted: _init replaces an empty notifier by
    a callable before anything else can fail (and nothing un-sets it later, C05.R1d); or every call is made only on the 'notifier is
    set' outcome of a test. The tree itself shows the belief: one call site tests the notifier first (Engler's contradiction rule —
    either that test is unnecessary or the unguarded calls are wrong)."""
    init = facts.need(BW + "_init", cfg)[0]
    g = init.g

    def is_notifier(e):
        e = strip(e, casts=True)
        return isnode(e) and e["k"] == "MemberExpr" and e.get("mname") == "error_notifier"

    def set_edges(f):
        """[(bid, label of 'notifier is set')] for tests of the function object"""
        out = []
        for bid, b in f.g.blocks.items():
            c = f.g.term_cond(bid)
            if c is None:
                continue
            core, neg = core_and_neg(c)
            core = strip(core, casts=True)
            if is_call(core, r"std::function<.*>::operator bool$") and is_notifier(call_obj(core)):
                out.append((bid, "F" if neg else "T"))
            else:
                k = None
                try:
                    from rules.common import eq_kind
                    k = eq_kind(c)
                except Exception:
                    k = None
                if k and any(is_notifier(s_) for s_ in k[1:]) and any(is_null(s_) for s_ in k[1:]):
                    out.append((bid, "F" if k[0] == "==" else "T"))
        return out
    # (a) normalisation in _init
    asg = [n for n in init.walk() if n["k"] == "CXXOperatorCallExpr" and short(n.get("callee") or "").endswith("operator=") and len(n["args"]) == 2 and
           is_notifier(n["args"][0]) and any(x["k"] in ("LambdaExpr",) or (x["k"] == "DeclRefExpr" and x.get("dk") == "Function") for x in walk(n["args"][1]))]
    se = set_edges(init)
    ap = npos(init, asg)
    whole = [n for n in init.walk() if n["k"] == "CXXOperatorCallExpr" and short(n.get("callee") or "").endswith("operator=") and len(n["args"]) == 2 and
             is_this_field(n["args"][0], "_options")]
    wp = npos(init, whole)
    thr = npos(init, [x for x in init.walk() if x["k"] == "CXXThrowExpr"])
    normalised = bool(asg) and bool(se) and bool(wp) and \
        all(not g.exists_path([y for (y, l2) in g.succ.get(tnode(g, b), ()) if l2 == other(lab)], [g.exit_node] + thr, avoid_nodes=ap) for (b, lab) in se) and \
        not g.exists_path(wp, thr + [g.exit_node], avoid_nodes=[tnode(g, b) for (b, lab) in se]) and not g.exists_path(ap, wp)
    # (b) otherwise: every call guarded
    unguarded = []
    n_calls = 0
    for f in facts.fns:
        if f.config != cfg or f.rec.get("main") or not (f.short.startswith(BW) or f.short.startswith("quill::ManualBackendWorker::")):
            continue
        params = {p["did"] for p in f.rec.get("params") or [] if "std::function<void (const std::string &)>" in (p.get("ty") or "") or "function<void (const std::basic_string" in (p.get("ty") or "")}
        for c in f.walk():
            if c["k"] == "CXXOperatorCallExpr" and re.search(r"std::function<void \(const std::(__cxx11::)?basic_string.*\)>::operator\(\)$|std::function<void \(const std::string &\)>::operator\(\)$", c.get("callee") or "") and c.get("args"):
                tgt = strip(c["args"][0], casts=True)
                if not (is_notifier(tgt) or var_ref(tgt) in params):
                    continue
                n_calls += 1
                se_f = set_edges(f)
                cp = f.g.positions(c)
                guarded = bool(se_f) and bool(cp) and not f.g.exists_path([f.g.entry_node], cp, avoid_edges=se_f)
                if not guarded:
                    unguarded.append("%s@%s" % (f.short.replace("quill::detail::", "").split("::lambda")[0], c["loc"].split(":", 1)[1]))
    ctx.floor("C10.R8", "calls of the error notifier in the backend", n_calls, 15)
    ctx.ob("C10.R8", "BackendWorker:error-notifier-callable-where-called", normalised or not unguarded,
           "an undefined error_notifier (documented: disables notifications) is replaced by a callable at the top of _init, before "
           "anything can fail (%s) — or every one of the %d calls is made only after testing it (unguarded: %s)"
           % (normalised, n_calls, ", ".join(unguarded[:8]) + (" ..." if len(unguarded) > 8 else "")), fn=init)


def r10_error_owns_its_text(ctx, facts, cfg):
    """R10: the text handed to the error notifier is e.what() of an exception that was caught after the thrower's frame is gone: the
    library's exception type owns its text (no pointer / view member; what() returns the owned string's characters), whatever the caller
    built it from."""
    crec = facts.cls("quill::QuillError", cfg)
    if not crec:
        raise AnalysisBroken("quill::QuillError not found")
    nonown = [(x["name"], x.get("cty") or x.get("ty")) for x in crec["fields"] if re.search(r"basic_string_view|\*|&|reference_wrapper|span<", x.get("cty") or x.get("ty") or "")]
    owned = [x["name"] for x in crec["fields"] if re.search(r"basic_string<char", x.get("cty") or "")]
    w = facts.need("quill::QuillError::what", cfg)[0]
    rets = [w.g.node_ast(r) for r in w.g.return_nodes()]
    from_owned = bool(rets) and all(is_call(strip(r.get("val"), casts=True), r"basic_string<.*>::(data|c_str)$") and
                                    is_this_field(call_obj(strip(r.get("val"), casts=True))) and field_name(call_obj(strip(r.get("val"), casts=True))) in owned for r in rets)
    ctors = [f for f in facts.fns if f.config == cfg and f.cls == "quill::QuillError" and f.rec.get("ctor") and f.rec.get("params") and
             "QuillError" not in (f.rec["params"][0].get("ty") or "")]
    init_ok = bool(ctors) and all(any(i.get("member") in owned and i.get("written") and any(var_ref(x) == f.rec["params"][0]["did"] for x in walk(i.get("expr")))
                                      for i in f.rec.get("inits") or []) for f in ctors)
    ctx.ob("C10.R10", "QuillError:owns-its-text", not nonown and bool(owned) and from_owned and init_ok,
           "no member merely refers to memory owned elsewhere (%s), every constructor copies / moves its argument into the owned string "
           "(%s, %d constructor(s)) and what() returns that string's characters (%s)" % (nonown, init_ok, len(ctors), from_owned), loc=crec.get("loc", ""))


def r14_no_stdio_call_on_a_closed_file(ctx, facts, cfg):
    """R14: after a failed re-open the sink has no open file (`_file == nullptr`) and must keep reporting, not crash: every call that hands
    `_file` to a C library function (fwrite through safe_fwrite, fflush, fclose, fileno, setvbuf ...) lies behind the 'file is open'
    outcome of a test of `_file` on every path from the function's entry — or the function is reached only from call sites that do
    (one level). Sibling agreement: write_log, flush_sink and close_file test it; a member that does not is the odd one out."""
    SINKS = r"^quill::(StreamSink|FileSink|RotatingSink<.*>|detail::JsonSink<.*>)$"
    fns = [f for f in facts.fns if f.config == cfg and f.cls and re.match(SINKS, f.cls) and not f.rec.get("ctor")]

    def uses_of(f):
        out = []
        for c in f.calls():
            if c["k"] not in ("CallExpr", "CXXMemberCallExpr"):
                continue
            if any(is_this_field(a, "_file") for a in (c.get("args") or [])) or \
                    any(is_this_field(x, "_file") for a in (c.get("args") or []) for x in walk(a) if isnode(a) and a["k"] in ("CallExpr",)):
                out.append(c)
        return out

    def open_edges(f):
        g = f.g
        out = []
        for bid in g.blocks:
            c = g.term_cond(bid)
            if c is None:
                continue
            core, neg = core_and_neg(c)
            if is_this_field(strip(core, casts=True), "_file"):
                out.append((bid, "F" if neg else "T"))
                continue
            nc = norm_cmp(c)
            from qlib import peel_not
            cc = peel_not(c)
            if nc and nc[0] in ("==", "!=") and isnode(cc) and cc["k"] == "BinaryOperator" and \
                    any(is_this_field(strip(x, casts=True), "_file") for x in (cc["lhs"], cc["rhs"])) and any(is_null(x) for x in (cc["lhs"], cc["rhs"])):
                out.append((bid, "T" if nc[0] == "!=" else "F"))
        return out

    n = 0
    for f in fns:
        us = uses_of(f)
        if not us:
            continue
        g = f.g
        oe = open_edges(f)
        for c in us:
            n += 1
            ps = g.positions(c)
            guarded = bool(oe) and not g.exists_path([g.entry_node], ps, avoid_edges=oe)
            how = "tested in the function"
            if not guarded:
                # one level up: every call site of this function, in the sink classes, lies behind the 'open' outcome
                sites, ok_sites = 0, True
                for f2 in fns:
                    cs2 = [c2 for c2 in f2.calls() if short(c2.get("callee") or "") == short(f.name) or
                           (c2.get("callee") or "").split("<")[0].endswith("::" + f.base) and c2["k"] == "CXXMemberCallExpr" and f.base not in ("write_log",)]
                    if not cs2 or f2 is f:
                        continue
                    oe2 = open_edges(f2)
                    for c2 in cs2:
                        sites += 1
                        if not oe2 or f2.g.exists_path([f2.g.entry_node], f2.g.positions(c2), avoid_edges=oe2):
                            ok_sites = False
                guarded = sites > 0 and ok_sites
                how = "tested at each of its %d call site(s)" % sites
            ctx.ob("C10.R14", "%s:%s" % (short(f.name).replace("quill::", ""), (c.get("callee") or "?").split("(")[0][:40]), guarded,
                   "`_file` is handed to %s only behind the 'file is open' outcome of a test of `_file` (%s): a sink whose file could not be "
                   "re-opened reports and skips, it does not dereference a null FILE*" % ((c.get("callee") or "?")[:50], how), loc=c.get("loc"), fn=f)
    ctx.floor("C10.R14", "calls that hand _file to the C library", n, 5)


def r13_gives_up_the_file_only_when_it_is_gone(ctx, facts, cfg):
    """R13: FileSink::flush_sink closes its open stream (to re-create a file the user deleted) only on a definite 'does not exist'
    answer. The throwing overload of fs::exists gives that (any other stat failure leaves by exception, is reported, and the open
    stream stays); the error_code overload answers false for *every* failure, so its error has to be looked at before the close —
    otherwise a transient stat error (ELOOP, EACCES on a parent, EIO) closes a healthy stream, the re-open fails, and the statements
    that follow are lost although only the flush was at fault."""
    f = facts.need("quill::FileSink::flush_sink", cfg)[0]
    g = f.g
    closes = [c for c in f.calls(r"quill::FileSink::close_file$|::fclose$")]
    if not closes:
        ctx.ob("C10.R13", "FileSink::flush_sink:file-given-up-only-when-gone", True, "flush_sink never closes the open stream", fn=f)
        return
    ex = [c for c in f.calls(r"^std::filesystem::(__cxx11::)?(exists|status|symlink_status|is_regular_file)$")]
    if not ex:
        raise AnalysisBroken("FileSink::flush_sink closes the stream but no fs::exists / fs::status call decides it")
    cp = [p_ for c in closes for p_ in g.positions(c)]
    if g.exists_path([g.entry_node], cp, avoid_nodes=[p_ for e in ex for p_ in g.positions(e)]):
        raise AnalysisBroken("FileSink::flush_sink: a close of the stream is not preceded by the existence test")
    ok, why = True, []
    for e in ex:
        ec = [var_ref(strip(a, casts=True)) for a in e.get("args", [])[1:] if "error_code" in ((a.get("ty") or "") if isnode(a) else "")]
        ec = [v for v in ec if v is not None]
        if len(e.get("args", [])) < 2:
            continue        # throwing overload
        if not ec:
            raise AnalysisBroken("FileSink::flush_sink: second argument of %s is not an error_code variable" % short(e.get("callee", "")))
        inside = {id(x) for x in walk(e)}       # handing the variable to the call is not looking at it
        looks = [tnode(g, b) for b in g.blocks if g.term_cond(b) is not None and
                 any(var_ref(x) in ec and id(x) not in inside for x in walk(g.term_cond(b)) if isnode(x) and x.get("k") == "DeclRefExpr")]
        if g.exists_path(g.positions(e), cp, avoid_nodes=looks):
            ok = False
            why.append("%s answers false for every failure and the stream is closed without looking at the error" % e.get("loc"))
    ctx.ob("C10.R13", "FileSink::flush_sink:file-given-up-only-when-gone", ok,
           "the open stream is closed in flush_sink only after a definite 'the file does not exist': the throwing overload of fs::exists, or "
           "the error_code overload with the error examined before the close (%s)" % ("; ".join(why) or "%d existence test(s), %d close(s)" % (len(ex), len(closes))), fn=f)


def r11_error_text_in_place(ctx, facts, cfg):
    """R11: 'written with an explanatory error text in place of its message': every handler of the formatting try in
    _populate_formatted_log_message empties the (possibly half-written) message before it appends the error text, and appends and
    reports the same text on every path."""
    f = facts.need(BW + "_populate_formatted_log_message", cfg)[0]
    g = f.g
    tries = [x for x in f.walk() if x["k"] == "CXXTryStmt" and any(is_call(y, r"^fmtquill::(v\d+::)?vformat_to") for y in walk(x.get("tryblock")))]
    if len(tries) != 1:
        raise AnalysisBroken("_populate_formatted_log_message: formatting try not found")
    hs = tries[0].get("handlers") or []
    n = 0
    for h in hs:
        n += 1
        body = h.get("body")

        def inb(c):
            return in_subtree(c, body)

        def on_msg(c):
            return any(x["k"] == "MemberExpr" and x.get("mname") == "formatted_msg" for x in walk(call_obj(c)))
        clr = [c for c in f.calls(r"::clear$") if inb(c) and on_msg(c)]
        app = [c for c in f.calls(r"::append\b") if inb(c) and on_msg(c)]
        rep = [c for c in f.walk() if c["k"] == "CXXOperatorCallExpr" and inb(c) and c.get("args") and
               any(x["k"] == "MemberExpr" and x.get("mname") == "error_notifier" for x in walk(c["args"][0]))]
        errv = {var_ref(strip(c["args"][0], casts=True)) for c in app} | {var_ref(strip(c["args"][1], casts=True)) for c in rep if len(c["args"]) > 1}
        cp, ap, rp = npos(f, clr), npos(f, app), npos(f, rep)
        entry = g.positions(body) or cp
        ok = len(clr) == 1 and len(app) == 1 and len(rep) == 1 and len(errv) == 1 and None not in errv and \
            not g.exists_path(ap, cp) and not g.exists_path(cp, [g.exit_node], avoid_nodes=ap) and not g.exists_path(cp, [g.exit_node], avoid_nodes=rp)
        ctx.ob("C10.R11", "_populate_formatted_log_message:handler(%s):error-text-replaces-message" % h.get("caught"), ok,
               "the handler clears the message before it appends the error text, and appends and reports that same text on every path "
               "(clear %d, append %d, report %d)" % (len(clr), len(app), len(rep)), fn=f, loc=(body or {}).get("loc", ""))
    ctx.floor("C10.R11", "handlers of the formatting try", n, 2)
