#include "quill/Backend.h"
#include "quill/Frontend.h"
#include "quill/LogMacros.h"
#include "quill/Logger.h"
#include "quill/sinks/Sink.h"
#include <cstdio>
#include <string>
#include <vector>
struct Cap : quill::Sink {
  std::vector<std::string> lines;
  void write_log(quill::MacroMetadata const*, uint64_t, std::string_view, std::string_view, std::string const&, std::string_view, quill::LogLevel,
                 std::string_view, std::string_view, std::vector<std::pair<std::string, std::string>> const* named, std::string_view msg, std::string_view) override {
    std::string l = "msg=[" + std::string(msg) + "]";
    if (named) for (auto& kv : *named) l += " (" + kv.first + "=" + kv.second + ")";
    lines.push_back(l);
  }
  void flush_sink() override {}
};
int main(){
  quill::Backend::start();
  auto sink = quill::Frontend::create_or_get_sink<Cap>("cap");
  auto* l = quill::Frontend::create_or_get_logger("root", sink);
  LOG_INFO(l, "{x}}}", 5);
  LOG_INFO(l, "{{\"id\": {id}}}", 5);
  LOG_INFO(l, "{x}}} and {y}", 5, 6);
  LOG_INFO(l, "{{\"a\": {a}, \"b\": {b}}}", 5, 6);
  l->flush_log();
  for (auto& s : static_cast<Cap*>(sink.get())->lines) std::printf("%s\n", s.c_str());
  quill::Backend::stop();
}
