// C10 / C08: BackendOptions::error_notifier = {} is the documented way to disable notifications
// ("To disable notifications, simply leave the function undefined"). Every backend error path calls it unconditionally.
//   mode "format": a statement whose run-time format string does not match its arguments
//   mode "drop"  : a bounded dropping queue that drops (the drop report is made from a noexcept function)
// expected: the backend keeps running, the other statements are delivered, flush_log() returns, exit 0
#include "quill/Backend.h"
#include "quill/Frontend.h"
#include "quill/LogMacros.h"
#include "quill/Logger.h"
#include "quill/sinks/Sink.h"
#include <cstdio>
#include <cstring>
#include <string>
#include <vector>
struct Cap : quill::Sink {
  std::vector<std::string> lines;
  void write_log(quill::MacroMetadata const*, uint64_t, std::string_view, std::string_view, std::string const&, std::string_view, quill::LogLevel,
                 std::string_view, std::string_view, std::vector<std::pair<std::string, std::string>> const*, std::string_view msg, std::string_view) override { lines.emplace_back(msg); }
  void flush_sink() override {}
};
struct Throwing : quill::Sink {
  int n = 0;
  void write_log(quill::MacroMetadata const*, uint64_t, std::string_view, std::string_view, std::string const&, std::string_view, quill::LogLevel,
                 std::string_view, std::string_view, std::vector<std::pair<std::string, std::string>> const*, std::string_view, std::string_view) override { if (++n == 2) throw std::runtime_error("sink failed"); }
  void flush_sink() override {}
};
struct DropOpts : quill::FrontendOptions {
  static constexpr quill::QueueType queue_type = quill::QueueType::BoundedDropping;
  static constexpr size_t initial_queue_capacity = 4096;
};
int main(int argc, char** argv) {
  std::string mode = argc > 1 ? argv[1] : "sink";
  quill::BackendOptions bo;
  bo.error_notifier = {};   // documented: disables notifications
  quill::Backend::start(bo);
  if (mode == "sink") {
    auto cap = quill::Frontend::create_or_get_sink<Cap>("cap");
    auto thr = quill::Frontend::create_or_get_sink<Throwing>("thr");
    auto* l = quill::Frontend::create_or_get_logger("root", {thr, cap});
    for (int i = 0; i < 5; ++i) LOG_INFO(l, "statement {}", i);
    l->flush_log();
    auto& got = static_cast<Cap*>(cap.get())->lines;
    std::printf("delivered to the healthy sink: %zu of 5\n", got.size());
    quill::Backend::stop();
    return got.size() >= 4 ? 0 : 1;
  }
  using F = quill::FrontendImpl<DropOpts>;
  auto cap = F::create_or_get_sink<Cap>("cap");
  auto* l = F::create_or_get_logger("drop", cap);
  std::string big(600, 'x');

  for (int i = 0; i < 2000; ++i) { LOG_INFO(l, "{} {}", i, big); }
  l->flush_log();
  std::printf("attempted 2000, delivered %zu\n", static_cast<Cap*>(cap.get())->lines.size());
  quill::Backend::stop();
  return 0;
}
