// C02: "when a thread's queue switches ... to a smaller one (shrink request), the consumer still receives every committed record exactly
// once and in order". finish_write() x N (not yet committed), shrink(), finish_write(), commit_write(): the commit reaches only the
// new node; what was finished in the old node is never published and is freed with it. (_handle_full_queue commits the old node first.)
#include "quill/core/UnboundedSPSCQueue.h"
#include <cstdio>
#include <cstring>
#include <vector>
using quill::detail::UnboundedSPSCQueue;
static void put(UnboundedSPSCQueue& q, uint32_t v) { auto* p = q.prepare_write(sizeof v); std::memcpy(p, &v, sizeof v); q.finish_write(sizeof v); }
int main(int argc, char** argv) {
  bool grow = argc > 1 && std::string_view(argv[1]) == "grow";
  UnboundedSPSCQueue q{4096, 1u << 20};
  for (uint32_t v = 1; v <= 3; ++v) put(q, v);          // finished, not committed
  if (grow) { auto* p = q.prepare_write(8192); std::memset(p, 0, 4); uint32_t v = 4; std::memcpy(p, &v, 4); q.finish_write(8192); }   // switches to a larger node
  else { q.shrink(1024); put(q, 4); }                   // switches to a smaller node
  q.commit_write();                                     // commits everything finished so far
  std::vector<uint32_t> got;
  for (;;) { auto r = q.prepare_read(); if (!r.read_pos) break; uint32_t v; std::memcpy(&v, r.read_pos, 4); got.push_back(v);
             size_t n = (grow && v == 4) ? 8192 : 4; q.finish_read(n); q.commit_read(); }
  std::printf("[%s] consumer received:", grow ? "grow" : "shrink"); for (auto v : got) std::printf(" %u", v); std::printf("\n");
  bool ok = got == std::vector<uint32_t>{1, 2, 3, 4};
  std::printf("%s\n", ok ? "OK: 1 2 3 4" : "COMMITTED RECORDS LOST");
  return ok ? 0 : 1;
}
