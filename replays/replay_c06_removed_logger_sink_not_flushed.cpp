// C06: "when flush_log() returns, every statement the calling thread logged before the call has been written to all of its sinks and those
// sinks have been flushed". The calling thread logs through logger x, removes x, then calls flush_log() on logger y.
//   mode "now"  : flush_log() right after remove_logger(x) — x is invalid but still registered when the flush request is processed
//   mode "idle" : 200 ms in between — the backend has gone idle and erased x; its sink lives on (the user holds it)
// (sink_min_flush_interval is long, so nothing is flushed by the periodic path)
#include "quill/Backend.h"
#include "quill/Frontend.h"
#include "quill/LogMacros.h"
#include "quill/Logger.h"
#include "quill/sinks/FileSink.h"
#include <chrono>
#include <cstdio>
#include <fstream>
#include <string>
#include <thread>
static bool file_has(std::string const& p, std::string const& n) { std::ifstream in(p); std::string l; while (std::getline(in, l)) if (l.find(n) != std::string::npos) return true; return false; }
int main(int argc, char** argv) {
  std::string mode = argc > 1 ? argv[1] : "now";
  quill::BackendOptions bo; bo.sink_min_flush_interval = std::chrono::hours{1000};
  quill::Backend::start(bo);
  quill::FileSinkConfig cfg; cfg.set_open_mode('w');
  auto sx = quill::Frontend::create_or_get_sink<quill::FileSink>("replay_c06_x.log", cfg);
  auto sy = quill::Frontend::create_or_get_sink<quill::FileSink>("replay_c06_y.log", cfg);
  auto* lx = quill::Frontend::create_or_get_logger("x", sx, quill::PatternFormatterOptions{"%(message)"});
  auto* ly = quill::Frontend::create_or_get_logger("y", sy, quill::PatternFormatterOptions{"%(message)"});
  LOG_INFO(lx, "warm"); LOG_INFO(ly, "warm"); ly->flush_log();
  LOG_INFO(lx, "via-x-before-removal");
  quill::Frontend::remove_logger(lx);
  if (mode == "idle") std::this_thread::sleep_for(std::chrono::milliseconds{200});
  ly->flush_log();
  bool ok = file_has("replay_c06_x.log", "via-x-before-removal");
  std::printf("[%s] statement logged through x before flush_log(): %s\n", mode.c_str(), ok ? "present in x's file" : "MISSING from x's file");
  quill::Backend::stop();
  return ok ? 0 : 1;
}
