"""qlib — loading of qfacts output and generic analyses over it.

Everything here works on the *resolved program* emitted by the clang plugin
(engine/qfacts.cc): AST nodes are dicts with a kind 'k', a per-function id and
resolved entity names; each function carries clang's CFG of that instantiation
whose elements refer to AST nodes by id (every sub-expression is an element, in
evaluation order).

No quill code is executed, concretely or symbolically.
"""
import hashlib
import json
import os
import re
import subprocess
import sys
import time
from collections import defaultdict, deque

VERIF = os.path.dirname(os.path.dirname(os.path.abspath(__file__)))
REPO = os.environ.get("QV_REPO", "/repo")
SRC = os.environ.get("QV_SRC", os.path.join(REPO, "include"))
QUILL = os.path.join(SRC, "quill")
CACHE = os.environ.get("QV_CACHE") or (os.path.join(os.environ["QV_OUT"], ".cache") if os.environ.get("QV_OUT") else os.path.join(VERIF, ".cache"))
PLUGIN = os.path.join(VERIF, "engine", "qfacts.so")

CONFIGS = {
    # what the pinned suite builds (RelWithDebInfo => NDEBUG)
    "A": ["-std=gnu++17", "-DNDEBUG"],
    # assert / debug-only code visible
    "B": ["-std=gnu++17", "-UNDEBUG"],
    # x86 cache-flush variant of the bounded queue
    "C": ["-std=gnu++17", "-DNDEBUG", "-DQUILL_X86ARCH", "-mclflushopt"],
}


class AnalysisBroken(Exception):
    """An anchor vanished / a construct has a shape no accepted idiom covers."""


# --------------------------------------------------------------------------- hashing / cache
def _tree_hash(extra_files=()):
    h = hashlib.sha256()
    files = []
    for root, _dirs, fs in os.walk(QUILL):
        for f in fs:
            files.append(os.path.join(root, f))
    files.sort()
    for f in files:
        h.update(f.encode())
        with open(f, "rb") as fh:
            h.update(fh.read())
    for f in extra_files:
        h.update(f.encode())
        with open(f, "rb") as fh:
            h.update(fh.read())
    return h


_tree_hash_cache = {}


def tree_hash():
    if "h" not in _tree_hash_cache:
        _tree_hash_cache["h"] = _tree_hash().hexdigest()
    return _tree_hash_cache["h"]


def ensure_plugin():
    src = os.path.join(VERIF, "engine", "qfacts.cc")
    if not os.path.exists(PLUGIN) or os.path.getmtime(PLUGIN) < os.path.getmtime(src):
        r = subprocess.run(["make", "-C", os.path.join(VERIF, "engine")], capture_output=True, text=True)
        if r.returncode != 0:
            raise AnalysisBroken("cannot build qfacts plugin: " + r.stderr[-2000:])


def extract(witness, config="A", extra_flags=()):
    """Run the plugin over one witness TU (parsing the *current* /repo tree) and
    return the path of the facts file. Cached only while nothing changed."""
    ensure_plugin()
    wpath = witness if os.path.isabs(witness) else os.path.join(VERIF, "witness", witness)
    h = hashlib.sha256()
    h.update(tree_hash().encode())
    for f in (wpath, PLUGIN):
        with open(f, "rb") as fh:
            h.update(fh.read())
    flags = CONFIGS[config] + list(extra_flags)
    h.update(" ".join(flags).encode())
    h.update(SRC.encode())
    key = h.hexdigest()[:24]
    os.makedirs(CACHE, exist_ok=True)
    out = os.path.join(CACHE, "facts-%s-%s-%s.jsonl" % (os.path.basename(wpath).replace(".cpp", ""), config, key))
    if os.path.exists(out) and os.path.getsize(out) > 0:
        with open(out, "rb") as fh:
            fh.seek(max(0, os.path.getsize(out) - 20))
            if b'"rec":"end"' in fh.read():
                return out
    tmp = out + ".tmp%d" % os.getpid()
    cmd = ["clang++"] + flags + ["-I" + SRC, "-I" + os.path.join(VERIF, "witness"), "-fsyntax-only", "-w",
                                 "-fplugin=" + PLUGIN, "-Xclang", "-plugin", "-Xclang", "qfacts",
                                 "-Xclang", "-plugin-arg-qfacts", "-Xclang", "out=" + tmp,
                                 "-Xclang", "-plugin-arg-qfacts", "-Xclang", "root=" + QUILL, wpath]
    r = subprocess.run(cmd, capture_output=True, text=True)
    if r.returncode != 0 or not os.path.exists(tmp):
        if os.path.exists(tmp):
            os.unlink(tmp)
        raise AnalysisBroken("witness %s (config %s) does not parse against the current tree:\n%s"
                             % (os.path.basename(wpath), config, r.stderr[-3000:]))
    os.replace(tmp, out)
    # keep the cache small: drop older fact files of the same witness/config
    prefix = "facts-%s-%s-" % (os.path.basename(wpath).replace(".cpp", ""), config)
    for f in os.listdir(CACHE):
        if f.startswith(prefix) and os.path.join(CACHE, f) != out and ".tmp" not in f:
            try:
                if time.time() - os.path.getmtime(os.path.join(CACHE, f)) > 1800:
                    os.unlink(os.path.join(CACHE, f))
            except OSError:
                pass
    return out


# --------------------------------------------------------------------------- AST helpers
WRAPPERS = {"ImplicitCastExpr", "ParenExpr", "ExprWithCleanups", "MaterializeTemporaryExpr",
            "CXXBindTemporaryExpr", "ConstantExpr", "SubstNonTypeTemplateParmExpr", "CXXDefaultArgExpr",
            "CXXDefaultInitExpr", "FullExpr"}
EXPLICIT_CASTS = {"CXXStaticCastExpr", "CXXReinterpretCastExpr", "CStyleCastExpr", "CXXFunctionalCastExpr",
                  "CXXConstCastExpr"}


def isnode(x):
    return isinstance(x, dict) and "k" in x


def children(n):
    for key, v in n.items():
        if key in ("k", "id", "loc"):
            continue
        if isnode(v):
            yield v
        elif isinstance(v, list):
            for e in v:
                if isnode(e):
                    yield e


def walk(n):
    """pre-order over all descendants (including n); lambdas bodies included."""
    if not isnode(n):
        return
    stack = [n]
    while stack:
        x = stack.pop()
        yield x
        ch = list(children(x))
        ch.reverse()
        stack.extend(ch)


def strip(n, casts=False):
    """peel wrappers that do not change the value (optionally explicit casts too)."""
    while isnode(n):
        k = n["k"]
        if k in WRAPPERS or (casts and k in EXPLICIT_CASTS):
            nxt = n.get("sub")
            if nxt is None:
                c = n.get("c") or []
                nxt = c[0] if c else None
            if nxt is None:
                return n
            n = nxt
            continue
        # __builtin_expect(x, c) == x   (QUILL_LIKELY / QUILL_UNLIKELY)
        if k == "CallExpr" and n.get("callee") == "__builtin_expect" and n.get("args"):
            n = n["args"][0]
            continue
        if casts and k == "CXXConstructExpr" and (n.get("elidable") or n.get("copy")) and n.get("args"):
            n = n["args"][0]
            continue
        return n
    return n


def short(name):
    """drop template arguments: a::b<c<d>>::e<f> -> a::b::e"""
    out, depth = [], 0
    for ch in name:
        if ch == "<":
            depth += 1
        elif ch == ">":
            depth -= 1
        elif depth == 0:
            out.append(ch)
    return "".join(out)


def base_name(name):
    return short(name).split("::")[-1]


def is_call(n, pat=None):
    if not isnode(n) or n["k"] not in ("CallExpr", "CXXMemberCallExpr", "CXXOperatorCallExpr", "CXXConstructExpr",
                                       "UserDefinedLiteral", "CXXTemporaryObjectExpr"):
        return False
    if pat is None:
        return True
    c = n.get("callee")
    if c is None:
        return False
    if isinstance(pat, str):
        return re.search(pat, c) is not None
    return pat(c)


def callee_short(n):
    c = n.get("callee")
    return short(c) if c else None


def call_obj(n):
    """object expression of a member call (stripped), else None"""
    if n["k"] == "CXXMemberCallExpr":
        f = strip(n.get("fn"))
        if isnode(f) and f["k"] == "MemberExpr":
            return strip(f.get("base"))
    if n["k"] == "CXXOperatorCallExpr" and n.get("args"):
        return strip(n["args"][0])
    return None


def field_name(n):
    """if n (stripped) is a member access of a data member return its simple name"""
    n = strip(n)
    if isnode(n) and n["k"] == "MemberExpr" and n.get("dk") == "Field":
        return n["mname"]
    return None


def var_ref(n):
    n = strip(n)
    while isnode(n) and n["k"] == "CXXConstructExpr" and (n.get("copy") or n.get("elidable")) and len(n.get("args") or []) == 1:
        n = strip(n["args"][0])
    if isnode(n) and n["k"] == "DeclRefExpr" and n.get("dk") in ("Var", "ParmVar", "Binding", "Decomposition"):
        return n["did"]
    return None


def var_name(n):
    n = strip(n)
    if isnode(n) and n["k"] == "DeclRefExpr":
        return n["name"]
    return None


def is_this_field(n, name=None):
    n = strip(n)
    if isnode(n) and n["k"] == "MemberExpr" and n.get("dk") == "Field":
        b = strip(n.get("base"))
        if isnode(b) and b["k"] == "CXXThisExpr":
            return name is None or n["mname"] == name
    return False


def const_val(n):
    n0 = n
    n = strip(n, casts=True)
    for x in (n0, n):
        if isnode(x):
            if "cval" in x:
                return x["cval"]
            if x["k"] in ("IntegerLiteral", "CXXBoolLiteralExpr", "CharacterLiteral") and "val" in x:
                return x["val"]
    return None


def is_null(n):
    n = strip(n, casts=True)
    if not isnode(n):
        return False
    if n["k"] in ("CXXNullPtrLiteralExpr", "GNUNullExpr"):
        return True
    return n["k"] == "IntegerLiteral" and n.get("val") == 0


MEMORY_ORDER = {0: "relaxed", 1: "consume", 2: "acquire", 3: "release", 4: "acq_rel", 5: "seq_cst"}
ATOMIC_RE = re.compile(r"^std::(?:__atomic_base|atomic|__atomic_float|atomic_flag)<?.*?>?::"
                       r"(load|store|exchange|fetch_add|fetch_sub|fetch_or|fetch_and|compare_exchange_weak|"
                       r"compare_exchange_strong|test_and_set|clear|operator=|operator\+\+|operator--|operator\+=|operator-=|"
                       r"operator [^:]+)$")


def atomic_op(n):
    """Normalise an operation on a std::atomic: returns dict(op, obj, order, orders, value) or None.
    Implicit conversions (operator T) count as seq_cst loads, operator= as seq_cst stores."""
    if not isnode(n) or n["k"] not in ("CXXMemberCallExpr", "CXXOperatorCallExpr"):
        return None
    c = n.get("callee")
    if not c or not c.startswith("std::"):
        return None
    cls = n.get("cls", "")
    if not re.match(r"^std::(__atomic_base|atomic|atomic_flag|__atomic_float)\b", cls):
        return None
    m = re.search(r"::([^:]+)$", short(c))
    opname = m.group(1) if m else c
    args = n.get("args") or []
    obj = call_obj(n)
    if n["k"] == "CXXOperatorCallExpr":
        args = args[1:]
    kind = None
    if opname == "load" or opname.startswith("operator ") and not opname.startswith("operator="):
        kind = "load"
    elif opname in ("store", "operator="):
        kind = "store"
    elif opname in ("exchange", "fetch_add", "fetch_sub", "fetch_or", "fetch_and", "test_and_set",
                    "compare_exchange_weak", "compare_exchange_strong", "operator++", "operator--",
                    "operator+=", "operator-="):
        kind = "rmw"
    elif opname == "clear":
        kind = "store"
    else:
        return None
    orders = []
    value = None
    for a in args:
        ty = ""
        s = strip(a)
        if isnode(s):
            ty = s.get("ty", "")
        v = const_val(a)
        if "memory_order" in ty and v is not None:
            orders.append(MEMORY_ORDER.get(v, str(v)))
        elif value is None:
            value = a
    if not orders:
        orders = ["seq_cst"]
    return {"op": opname, "kind": kind, "obj": obj, "order": orders[0], "orders": orders, "value": value, "node": n}


ORDER_RANK_STORE = {"relaxed": 0, "release": 1, "acq_rel": 1, "seq_cst": 2}
ORDER_RANK_LOAD = {"relaxed": 0, "consume": 0, "acquire": 1, "acq_rel": 1, "seq_cst": 2}


def is_release(order):
    return order in ("release", "acq_rel", "seq_cst")


def is_acquire(order):
    return order in ("acquire", "acq_rel", "seq_cst")


# --------------------------------------------------------------------------- normalised expression text
def expr_key(n, local_names=False):
    """Structural key of an expression, stable under renaming of locals (locals are
    keyed by declaration id unless local_names) and under value-preserving wrappers."""
    n = strip(n)
    if not isnode(n):
        return "?"
    k = n["k"]
    if k == "DeclRefExpr":
        if n.get("dk") in ("Var", "ParmVar") and not local_names:
            return "v%s" % n["did"]
        return n["name"]
    if k == "MemberExpr":
        return expr_key(n.get("base")) + "." + n["mname"]
    if k == "CXXThisExpr":
        return "this"
    if k in ("IntegerLiteral", "CXXBoolLiteralExpr", "CharacterLiteral"):
        return str(n.get("val"))
    if k == "BinaryOperator" or k == "CompoundAssignOperator":
        return "(%s %s %s)" % (expr_key(n["lhs"]), n["op"], expr_key(n["rhs"]))
    if k == "UnaryOperator":
        return "(%s%s)" % (n["op"], expr_key(n["sub"]))
    if k in EXPLICIT_CASTS:
        return "cast<%s>(%s)" % (n.get("ty"), expr_key(n.get("sub")))
    if k in ("CallExpr", "CXXMemberCallExpr", "CXXOperatorCallExpr", "CXXConstructExpr", "CXXTemporaryObjectExpr"):
        a = atomic_op(n)
        if a:
            return "atomic(%s,%s,%s)" % (expr_key(a["obj"]), a["op"], a["order"])
        parts = [expr_key(x) for x in (n.get("args") or [])]
        o = call_obj(n) if k == "CXXMemberCallExpr" else None
        return "%s(%s%s)" % (callee_short(n) or "indirect", (expr_key(o) + ";") if o is not None else "", ",".join(parts))
    if k == "UnaryExprOrTypeTraitExpr":
        return "%s=%s" % (n.get("trait"), n.get("cval"))
    if k in ("CXXNullPtrLiteralExpr", "GNUNullExpr"):
        return "nullptr"
    if k == "ArraySubscriptExpr":
        return "%s[%s]" % (expr_key(n["base"]), expr_key(n["idx"]))
    if k == "ConditionalOperator":
        return "(%s?%s:%s)" % (expr_key(n["cond"]), expr_key(n["then"]), expr_key(n["else"]))
    if k == "StringLiteral":
        return json.dumps(n.get("str", ""))
    return k + "(" + ",".join(expr_key(c) for c in children(n)) + ")"


CMP_FLIP = {"<": ">", ">": "<", "<=": ">=", ">=": "<=", "==": "==", "!=": "!="}
CMP_NEG = {"<": ">=", ">": "<=", "<=": ">", ">=": "<", "==": "!=", "!=": "=="}


def peel_not(n):
    """the comparison (or other expression) under any number of logical negations and parentheses: !(a == b) -> a == b.
    Use together with norm_cmp, which accounts for the polarity."""
    n = strip(n)
    while isnode(n) and ((n["k"] == "UnaryOperator" and n.get("op") == "!") or n["k"] == "ParenExpr"):
        n = strip(n.get("sub") if n["k"] == "UnaryOperator" else (n.get("sub") or (n.get("c") or [None])[0]))
    return n


def norm_cmp(n):
    """Normalise a comparison to (op, lhs_key, rhs_key) with op in {<,<=,==,!=} and, for
    symmetric ops, ordered operands; `!(a >= b)` == `a < b` == `b > a`. Returns None when
    n is not a comparison."""
    neg = False
    n = strip(n)
    while isnode(n) and n["k"] == "UnaryOperator" and n["op"] == "!":
        neg = not neg
        n = strip(n["sub"])
    if not isnode(n) or n["k"] != "BinaryOperator" or n["op"] not in CMP_FLIP:
        return None
    op = n["op"]
    if neg:
        op = CMP_NEG[op]
    l, r = expr_key(n["lhs"]), expr_key(n["rhs"])
    if op in (">", ">="):
        op = CMP_FLIP[op]
        l, r = r, l
    if op in ("==", "!=") and l > r:
        l, r = r, l
    return (op, l, r)


# --------------------------------------------------------------------------- functions
class Fn:
    def __init__(self, rec, config, unit):
        self.rec = rec
        self.config = config
        self.unit = unit
        self.name = rec["fn"]
        self.sig = rec.get("sig", "")
        self.loc = rec.get("loc", "")
        self.cls = rec.get("cls")
        self.body = rec.get("body")
        self._nodes = None
        self._parent = None
        self._g = None

    @property
    def short(self):
        return short(self.name)

    @property
    def base(self):
        return base_name(self.name)

    def __repr__(self):
        return "<Fn %s @%s>" % (self.name, self.loc)

    # ---- AST indexes
    def _index(self):
        self._nodes = {}
        self._parent = {}
        roots = [self.body] + list(self.rec.get("synth") or [])
        for i in self.rec.get("inits") or []:
            roots.append(i.get("expr"))
        for r in roots:
            if not isnode(r):
                continue
            stack = [(r, None)]
            while stack:
                x, p = stack.pop()
                if x["id"] not in self._nodes:
                    self._nodes[x["id"]] = x
                    self._parent[x["id"]] = p
                for c in children(x):
                    stack.append((c, x))

    @property
    def nodes(self):
        if self._nodes is None:
            self._index()
        return self._nodes

    def parent(self, n):
        if self._parent is None:
            self._index()
        return self._parent.get(n["id"])

    def ancestors(self, n):
        p = self.parent(n)
        while p is not None:
            yield p
            p = self.parent(p)

    def walk(self):
        if isnode(self.body):
            yield from walk(self.body)
        for i in self.rec.get("inits") or []:
            if isnode(i.get("expr")):
                yield from walk(i["expr"])

    def find(self, pred):
        return [n for n in self.walk() if pred(n)]

    def calls(self, pat=None):
        return [n for n in self.walk() if is_call(n, pat)]

    def line(self, n):
        loc = n.get("loc", "") if isnode(n) else ""
        return loc

    # ---- local value flow: definitions of a local variable
    def var_inits(self):
        """did -> init expression for locals declared with an initialiser"""
        out = {}
        for n in self.walk():
            if n["k"] == "DeclStmt":
                for d in n.get("decls") or []:
                    if d.get("init") is not None:
                        out[d["did"]] = d["init"]
            if n["k"] == "CXXForRangeStmt":
                lv = n.get("loopvar")
                if lv:
                    out[lv["did"]] = lv.get("init")
        return out

    def var_decls(self):
        out = {}
        for n in self.walk():
            if n["k"] == "DeclStmt":
                for d in n.get("decls") or []:
                    out[d["did"]] = d
        for p in self.rec.get("params") or []:
            out[p["did"]] = p
        return out

    def assignments_to_var(self, did):
        res = []
        for n in self.walk():
            if n["k"] in ("BinaryOperator", "CompoundAssignOperator") and n["op"].endswith("=") and n["op"] not in CMP_FLIP:
                if var_ref(n["lhs"]) == did:
                    res.append(n)
            # class-type assignment: x = y  is  x.operator=(y)
            if n["k"] == "CXXOperatorCallExpr" and (n.get("callee") or "").endswith("::operator=") and len(n.get("args", [])) == 2:
                if var_ref(n["args"][0]) == did:
                    res.append({"k": "BinaryOperator", "op": "=", "lhs": n["args"][0], "rhs": n["args"][1], "id": n["id"], "loc": n["loc"]})
        return res

    # ---- CFG as an element-level graph
    @property
    def g(self):
        if self._g is None:
            self._g = Graph(self)
        return self._g


class Graph:
    """Element-level view of clang's CFG. Node = (block, index); index == len(el) is the
    block's terminator point. Edges out of a terminator point are labelled 'T'/'F' for
    two-way branches (clang orders successors true,false), ('case', labelnode) for
    switches, None otherwise. Pruned (unreachable) successors are dropped."""

    def __init__(self, fn):
        self.fn = fn
        cfg = fn.rec.get("cfg")
        if not cfg:
            raise AnalysisBroken("no CFG for %s" % fn.name)
        self.blocks = {b["id"]: b for b in cfg["blocks"]}
        self.entry = cfg["entry"]
        self.exit = cfg["exit"]
        self.succ = defaultdict(list)  # node -> [(node, label)]
        self.pred = defaultdict(list)
        self.where = defaultdict(list)  # ast id -> [node]
        for bid, b in self.blocks.items():
            el = b["el"]
            for i, e in enumerate(el):
                nid = e if isinstance(e, int) else e.get("id")
                if nid is not None and isinstance(e, int):
                    self.where[nid].append((bid, i))
                self._edge((bid, i), (bid, i + 1), None)
            succs = b.get("succ") or []
            if b.get("noreturn"):
                # a call to a noreturn function (abort, __assert_fail, std::exit): the process ends here; clang links such a
                # block to the function's exit, which is not a normal return
                succs = []
            two_way = b.get("term") in ("IfStmt", "WhileStmt", "DoStmt", "ForStmt", "CXXForRangeStmt",
                                        "ConditionalOperator", "BinaryOperator", "BinaryConditionalOperator") and len(succs) == 2
            for j, s in enumerate(succs):
                if s is None:
                    continue
                if two_way:
                    lab = "T" if j == 0 else "F"
                elif b.get("term") == "SwitchStmt":
                    lab = ("case", self.blocks[s].get("labelid"))
                else:
                    lab = None
                self._edge((bid, len(el)), (s, 0), lab)
        self.entry_node = (self.entry, 0)
        self.exit_node = (self.exit, 0)
        self._short_circuit()

    def _short_circuit(self):
        """clang evaluates `A && B` in two blocks and joins them in a third that holds the `&&` expression and branches on it (with
        setAllAlwaysAdd the join is explicit). The short-circuit edge out of A's block ('A is false') enters that join, from where both
        outcomes of the whole condition are statically reachable although only one is possible. Follow the determined value through
        the join(s): the short-circuit edge is re-targeted to the successor the join takes for that value."""
        nodes = self.fn.nodes
        def same(cid, opid):
            n = nodes.get(cid) if cid is not None else None
            n = strip(n) if n is not None else None
            while isnode(n) and n["k"] == "ParenExpr":
                n = strip(n.get("sub") or (n.get("c") or [None])[0])
            return isnode(n) and n.get("id") == opid
        for bid, b in self.blocks.items():
            if b.get("term") != "BinaryOperator" or b.get("termid") is None:
                continue
            op = nodes.get(b["termid"])
            if not isnode(op) or op.get("op") not in ("&&", "||"):
                continue
            v = "F" if op["op"] == "&&" else "T"
            src = (bid, len(b["el"]))
            new_succ = []
            for (tgt, lab) in self.succ.get(src, []):
                if lab != v or tgt[1] != 0:
                    new_succ.append((tgt, lab))
                    continue
                cur_op, cur = b["termid"], tgt
                for _ in range(8):
                    jb = self.blocks.get(cur[0])
                    if jb is None or cur[1] != 0 or [e for e in jb["el"] if isinstance(e, int)] != [cur_op] or len(jb["el"]) != 1:
                        break
                    js = jb.get("succ") or []
                    if len(js) != 2 or js[0] is None or js[1] is None or not same(jb.get("cond"), cur_op):
                        break
                    nxt = (js[0] if v == "T" else js[1], 0)
                    if jb.get("term") == "BinaryOperator":
                        outer = nodes.get(jb.get("termid"))
                        if not isnode(outer) or outer.get("op") not in ("&&", "||"):
                            break
                        # the determined operand is the left operand of an outer logical operator
                        if (outer["op"] == "&&" and v == "F") or (outer["op"] == "||" and v == "T"):
                            cur_op, cur = jb["termid"], nxt   # the outer value is determined as well: keep following
                            continue
                        cur = nxt   # goes on to evaluate the outer right operand: nothing more is determined
                        break
                    cur = nxt
                    break
                new_succ.append((cur, lab))
            self.succ[src] = new_succ
        self.pred = defaultdict(list)
        for a, outs in self.succ.items():
            for (t_, lab) in outs:
                self.pred[t_].append((a, lab))

    def _edge(self, a, b, lab):
        self.succ[a].append((b, lab))
        self.pred[b].append((a, lab))

    def node_ast(self, node):
        b, i = node
        el = self.blocks[b]["el"]
        if i < len(el):
            e = el[i]
            if isinstance(e, int):
                return self.fn.nodes.get(e)
            return e
        return None

    def positions(self, astnode):
        """graph nodes at which astnode is evaluated"""
        return list(self.where.get(astnode["id"], []))

    def term_cond(self, bid):
        b = self.blocks[bid]
        c = b.get("cond")
        n = self.fn.nodes.get(c) if c is not None else None
        # clang reports the whole `A || B` as the condition of the block that evaluates the last operand:
        # the value that decides this block's branch is the right-most leaf
        while True:
            s = strip(n) if n is not None else None
            if isnode(s) and s["k"] == "BinaryOperator" and s["op"] in ("&&", "||"):
                n = s["rhs"]
                continue
            return n

    def reach(self, srcs, avoid_nodes=(), avoid_edges=(), include_src=False):
        """set of nodes reachable from srcs (after leaving them) without entering avoid_nodes
        or using avoid_edges [(from_block, label)]."""
        avoid_nodes = set(avoid_nodes)
        avoid_edges = set(avoid_edges)
        # ("not-case", label id): every outcome of the switch at the end of that block except the named case
        for (b_, lab_) in list(avoid_edges):
            if isinstance(lab_, tuple) and lab_ and lab_[0] == "not-case" and b_ in self.blocks:
                for (_y, l2) in self.succ.get((b_, len(self.blocks[b_]["el"])), ()):
                    if l2 != ("case", lab_[1]):
                        avoid_edges.add((b_, l2))
        seen = set()
        dq = deque()
        for s in srcs:
            if include_src:
                if s not in avoid_nodes:
                    seen.add(s)
            dq.append(s)
        started = set(srcs)
        while dq:
            x = dq.popleft()
            for (y, lab) in self.succ.get(x, ()):
                if (x[0], lab) in avoid_edges and x[1] == len(self.blocks[x[0]]["el"]):
                    continue
                if y in avoid_nodes or y in seen:
                    continue
                seen.add(y)
                dq.append(y)
        return seen

    def exists_path(self, srcs, dsts, avoid_nodes=(), avoid_edges=()):
        r = self.reach(srcs, avoid_nodes, avoid_edges)
        return any(d in r for d in dsts)

    def reachable_from_entry(self):
        if not hasattr(self, "_rfe"):
            self._rfe = self.reach([self.entry_node], include_src=True)
        return self._rfe

    def pos_of(self, pred):
        """all graph nodes (reachable from entry) whose AST node satisfies pred"""
        out = []
        live = self.reachable_from_entry()
        for bid, b in self.blocks.items():
            for i, e in enumerate(b["el"]):
                if (bid, i) not in live:
                    continue
                n = self.fn.nodes.get(e) if isinstance(e, int) else e
                if n is not None and pred(n):
                    out.append((bid, i))
        return out

    def return_nodes(self, pred=None):
        return self.pos_of(lambda n: isnode(n) and n.get("k") == "ReturnStmt" and (pred is None or pred(n)))

    def dominates(self, a_nodes, b_node):
        """every path entry -> b_node passes one of a_nodes"""
        if b_node in a_nodes:
            return True
        return not self.exists_path([self.entry_node], [b_node], avoid_nodes=a_nodes) and b_node != self.entry_node

    def must_pass(self, srcs, dsts, via_nodes=(), via_edges_only=None):
        """no path srcs -> dsts that avoids via_nodes"""
        return not self.exists_path(srcs, dsts, avoid_nodes=via_nodes)

    def branch_edges_on(self, pred):
        """[(block, cond_ast)] for two-way terminators whose condition satisfies pred"""
        out = []
        for bid, b in self.blocks.items():
            c = self.term_cond(bid)
            if c is not None and pred(c):
                out.append((bid, c))
        return out

    def count_on_paths(self, srcs, dsts, counted, cap=3):
        """min and max number of `counted` nodes on paths from srcs to each dst (max capped).
        Simple worklist over (node -> (min,max)); loops push max to cap."""
        counted = set(counted)
        INF = 10 ** 6
        mn = defaultdict(lambda: INF)
        mx = defaultdict(lambda: -1)
        dq = deque()
        for s in srcs:
            c = 1 if s in counted else 0
            mn[s] = min(mn[s], c)
            mx[s] = max(mx[s], c)
            dq.append(s)
        it = 0
        while dq:
            it += 1
            if it > 200000:
                raise AnalysisBroken("count_on_paths did not converge in %s" % self.fn.name)
            x = dq.popleft()
            for (y, _lab) in self.succ.get(x, ()):
                c = 1 if y in counted else 0
                nmn = min(mn[y], mn[x] + c)
                nmx = max(mx[y], min(cap, mx[x] + c))
                if nmn != mn[y] or nmx != mx[y]:
                    mn[y], mx[y] = nmn, nmx
                    dq.append(y)
        return {d: (mn[d] if mn[d] < INF else None, mx[d] if mx[d] >= 0 else None) for d in dsts}


# --------------------------------------------------------------------------- fact database
class Facts:
    def __init__(self):
        self.fns = []
        self.by_name = defaultdict(list)
        self.by_short = defaultdict(list)
        self.classes = {}
        self.enums = {}
        self.vars = {}
        self.units = []

    def load(self, path, config="A", unit=None):
        unit = unit or os.path.basename(path)
        self.units.append((unit, config))
        seen = set((f.name, f.sig, f.config) for f in self.fns)
        with open(path) as fh:
            for line in fh:
                rec = json.loads(line)
                t = rec["rec"]
                if t == "fn":
                    key = (rec["fn"], rec.get("sig", ""), config)
                    if key in seen:
                        continue
                    seen.add(key)
                    f = Fn(rec, config, unit)
                    self.fns.append(f)
                    self.by_name[f.name].append(f)
                    self.by_short[f.short].append(f)
                elif t == "class":
                    self.classes.setdefault((rec["name"], config), rec)
                elif t == "enum":
                    self.enums.setdefault((rec["name"], config), rec)
                elif t == "var":
                    self.vars.setdefault((rec["name"], config), rec)
        return self

    def fn(self, short_name, config=None, where=None):
        """all instantiations whose template-stripped qualified name equals short_name"""
        out = [f for f in self.by_short.get(short_name, []) if (config is None or f.config == config)]
        if where:
            out = [f for f in out if where(f)]
        return out

    def fn_re(self, pattern, config=None):
        rx = re.compile(pattern)
        return [f for f in self.fns if rx.search(f.name) and (config is None or f.config == config)]

    def need(self, short_name, config=None, floor=1, where=None):
        fs = self.fn(short_name, config, where)
        if len(fs) < floor:
            raise AnalysisBroken("anchor %s: %d instantiation(s) found, at least %d expected (config %s)"
                                 % (short_name, len(fs), floor, config))
        return fs

    def cls(self, name, config="A"):
        for (n, c), rec in self.classes.items():
            if c == config and (n == name or short(n) == name):
                return rec
        return None

    def cls_all(self, short_name, config="A"):
        return [rec for (n, c), rec in self.classes.items() if c == config and short(n) == short_name]

    def enum(self, name, config="A"):
        for (n, c), rec in self.enums.items():
            if c == config and n == name:
                return rec
        return None

    def var(self, name, config="A"):
        for (n, c), rec in self.vars.items():
            if c == config and (n == name or short(n) == name):
                return rec
        return None

    # ---- call graph over analysed functions (AST call edges, resolved callees)
    def callgraph(self, config="A"):
        key = "_cg_" + config
        if hasattr(self, key):
            return getattr(self, key)
        cg = defaultdict(set)
        byname = defaultdict(list)
        for f in self.fns:
            if f.config == config:
                byname[(f.name, f.sig)].append(f)
        for f in self.fns:
            if f.config != config:
                continue
            for n in f.walk():
                if is_call(n) and n.get("callee"):
                    for t in byname.get((n["callee"], n.get("sig", "")), ()):
                        cg[id(f)].add(t)
                elif n["k"] == "DeclRefExpr" and n.get("dk") in ("Function", "CXXMethod"):
                    for t in byname.get((n["name"], n.get("sig", "")), ()):
                        cg[id(f)].add(t)
                elif n["k"] == "LambdaExpr":
                    lam = f.name + "::" + n["lambda"]
                    for t in self.by_name.get(lam, ()):
                        if t.config == config:
                            cg[id(f)].add(t)
        setattr(self, key, cg)
        return cg

    def callsites(self, config="A"):
        """reverse index: id(callee Fn) -> [(caller Fn, call / lambda-expression node)] (witness functions excluded)"""
        key = "_cs_" + config
        if hasattr(self, key):
            return getattr(self, key)
        byname = defaultdict(list)
        for f in self.fns:
            if f.config == config:
                byname[(f.name, f.sig)].append(f)
        rev = defaultdict(list)
        for f in self.fns:
            if f.config != config or f.rec.get("main"):
                continue
            for n in f.walk():
                if is_call(n) and n.get("callee"):
                    for t in byname.get((n["callee"], n.get("sig", "")), ()):
                        rev[id(t)].append((f, n))
                elif n["k"] == "LambdaExpr":
                    for t in self.by_name.get(f.name + "::" + n["lambda"], ()):
                        if t.config == config:
                            rev[id(t)].append((f, n))
        setattr(self, key, rev)
        return rev

    def reachable_fns(self, roots, config="A", stop=None):
        cg = self.callgraph(config)
        seen = {}
        dq = deque()
        for r in roots:
            seen[id(r)] = r
            dq.append(r)
        while dq:
            f = dq.popleft()
            if stop and stop(f):
                continue
            for t in cg.get(id(f), ()):
                if id(t) not in seen:
                    seen[id(t)] = t
                    dq.append(t)
        return list(seen.values())
