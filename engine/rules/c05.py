"""C05 — global timestamp order under the grace period: structural conditions (DESIGN §4 C05)."""
import re
from qlib import (AnalysisBroken, strip, isnode, walk, is_call, norm_cmp, var_ref, is_null, const_val, short, call_obj,
                  expr_key, field_name, is_this_field, peel_not, children)
from rules.common import (core_and_neg, tnode, other, cpos, npos, branches_on_call, flatten, in_subtree, loops_enclosing,
                          need_some, returns_bool, straight_after, other_loop_over)
from rules.c02 import cmp_sides

EXPLANATION = ("Ordering mechanism of the backend. R1: one clock read (ts_now) per pass over all queues, taken before the loop over "
               "thread contexts, never redefined in it, and handed unchanged to every per-queue read and from there to the "
               "decoder. R2: a record newer than ts_now is held back: on that outcome the decoder returns false before anything of "
               "the record is consumed (no call through the record's decoder pointer, no push_back), the test compares the "
               "timestamp after the TSC->epoch conversion. R3: the selection loop touches timestamps through one comparison "
               "'candidate < best', updates best and the chosen context together, ranges over the whole cache without early exit. "
               "R4: every batch loop that dispatches without re-reading the queues evaluates 'no thread has an empty buffer but a "
               "non-empty queue' before each dispatch; that predicate covers both queue kinds. R5: the log call reads the clock "
               "before the reservation (and the blocking loop) and the header carries exactly that value."
               ' R4d: the pending-events scan runs over a freshly reloaded thread-context cache. R5f: the TSC converter is published with release and read with acquire.'
               " R3d: while no context is chosen the first buffered candidate is taken whatever its timestamp. R7a-e: the two-slot hand-over inside the TSC converter (RdtscClock): resync fills the slot the next conversion reads ((version + K) & mask, published by adding K, mask = slots - 1), completely and before the release update, only from a sample taken within the accepted lag; the lock-free reader retries until the version it derived the slot from is unchanged (acquire loads); the backend's conversion resynchronises exactly when the interval is exceeded. R8 (= C20.R4): the read position is handed back on the pass that switches nodes."
               ' R9: the per-queue read loop ends only because the queue is empty, the head statement is held back, or the per-pass limits were reached.')
NOT_DECIDED = ("The ordering theorem itself over all schedules (needs a model of time), accuracy of the TSC<->epoch conversion, "
               "backtrace replays (documented exception).")
ASSUMPTIONS = ["per-thread FIFO (C01-C03)"]
BW = "quill::detail::BackendWorker::"


def ts_member(n):
    n = strip(n, casts=True)
    return isnode(n) and n["k"] == "MemberExpr" and n.get("mname") == "timestamp"


def run(ctx):
    configs = ["A"] if ctx.tier == "quick" else ["A", "B"]
    for cfg in configs:
        facts = ctx.facts("core.cpp", cfg)
        r1(ctx, facts, cfg)
        r2(ctx, facts, cfg)
        r3(ctx, facts, cfg)
        r4(ctx, facts, cfg)
        r5(ctx, facts, cfg)
        r5_clock_table(ctx, facts, cfg)
        options_read_only(ctx, facts, cfg)
        r7_tsc_slots(ctx, facts, cfg)
        r9_read_pass_exits(ctx, facts, cfg)
        # after a pass every thread with an eligible statement has one buffered: the helper that reads an unbounded queue hands back the
        # read position also on the pass in which the consumer switches nodes (= C20.R4)
        from rules import c20 as _c20
        from rules.c09 import Renamed as _Ren8
        _c20.r4(_Ren8(ctx, "C20.R4", "C05.R8"), facts, cfg)
        # the set of threads whose oldest statements are compared is every thread that logs (registration / cache reload, = C20.R5)
        from rules import c20
        from rules.c09 import Renamed
        c20.r5(Renamed(ctx, "C20.R5", "C05.R6"), facts, cfg)
        from rules import c02
        bn = {m.base: m for m in facts.fns if m.config == cfg and m.cls == c02.CLS and not m.rec.get("ctor") and not m.rec.get("dtor")}
        if "empty" not in bn:
            raise AnalysisBroken("UnboundedSPSCQueue::empty not found")
        c02.check_empty_semantics(ctx, bn, rule="C05.R4c")


def r1(ctx, facts, cfg):
    f = facts.need(BW + "_populate_transit_events_from_frontend_queues", cfg)[0]
    g = f.g
    reads = need_some(f.calls(r"::_read_and_decode_frontend_queue"), "per-queue read calls")
    clock = f.calls(r"::get_timestamp(_ns)?<")
    inits = f.var_inits()
    tsv = set(var_ref(c["args"][2]) for c in reads)
    ok = len(tsv) == 1 and None not in tsv
    why = "all per-queue reads receive the same variable: %s" % ok
    if ok:
        v = list(tsv)[0]
        decl = [n for n in f.walk() if n["k"] == "DeclStmt" and any(d["did"] == v for d in n.get("decls", []))]
        dpos = npos(f, decl)
        loops = [n for n in f.walk() if n["k"] in ("CXXForRangeStmt", "ForStmt", "WhileStmt", "DoStmt")]
        in_loop = any(in_subtree(d, lp) for d in decl for lp in loops)
        reassigned = bool(f.assignments_to_var(v))
        clock_in_init = v in inits and all(in_subtree(c, inits[v]) for c in clock) and len(clock) >= 1
        ok = bool(dpos) and not in_loop and not reassigned and clock_in_init and \
            all(g.dominates(dpos, p) for p in npos(f, reads))
        why = "defined before the loop: %s, never re-assigned: %s, only clock read of the pass: %s" % (not in_loop, not reassigned, clock_in_init)
    ctx.ob("C05.R1a", "_populate_transit_events_from_frontend_queues:one-clock-read", ok,
           "ts_now is taken once per pass before any queue is read (%s)" % why, fn=f)
    ctx.floor("C05.R1a", "per-queue read calls", len(reads), 2)
    # R1c (units): timestamps are nanoseconds; the tick count of a duration in another unit may be tested for zero but must not be
    # mixed into timestamp arithmetic (chrono arithmetic on the duration itself converts correctly)
    bad = []
    nonns = 0
    for c in f.calls(r"std::chrono::duration<.*>::count$"):
        o = call_obj(c)
        ty = (o.get("ty", "") if isnode(o) else "")
        is_ns = "nanoseconds" in ty or "ratio<1, 1000000000>" in ty or "ratio<1L, 1000000000L>" in ty
        if is_ns or not ty:
            continue
        nonns += 1
        if not only_boolean_use(f, c):
            bad.append("%s.count() at %s" % (ty, c["loc"]))
    ctx.ob("C05.R1c", "_populate_transit_events_from_frontend_queues:grace-period-unit", not bad,
           "the grace period enters the cut-off through chrono arithmetic (unit-converting); the raw tick count of a non-nanosecond duration is "
           "only tested for zero, never subtracted from a nanosecond timestamp (%d such count() call(s)%s)" % (nonns, ("; mixed: " + ", ".join(bad)) if bad else ""), fn=f)
    for rf in facts.need(BW + "_read_and_decode_frontend_queue", cfg, floor=2):
        calls = need_some(rf.calls(r"::_populate_transit_event_from_frontend_queue$"), "decode call")
        p = rf.rec["params"][2]["did"]
        ok = all(var_ref(c["args"][2]) == p for c in calls) and not rf.assignments_to_var(p)
        ctx.ob("C05.R1b", "_read_and_decode_frontend_queue<%s>:passes-ts_now" % ("Unbounded" if "Unbounded" in rf.name else "Bounded"), ok,
               "the pass's ts_now reaches the decoder unchanged", fn=rf)


def r2(ctx, facts, cfg):
    f = facts.need(BW + "_populate_transit_event_from_frontend_queue", cfg)[0]
    g = f.g
    tsp = f.rec["params"][2]["did"]
    tests = []
    for bid, b in g.blocks.items():
        c = g.term_cond(bid)
        cs = cmp_sides(c) if c is not None else None
        if cs and ((var_ref(cs[1]) == tsp and ts_member(cs[2])) or (var_ref(cs[2]) == tsp and ts_member(cs[1]))):
            tests.append((bid, cs))
    if not tests:
        raise AnalysisBroken("_populate_transit_event_from_frontend_queue: comparison of the record timestamp with ts_now not found")
    pb = npos(f, f.calls(r"TransitEventBuffer::push_back$"))
    ind = g.pos_of(lambda n: isnode(n) and n.get("k") == "CallExpr" and n.get("indirect"))
    if not ind:
        raise AnalysisBroken("call through the record's decoder pointer not found")
    for (bid, (op, small, big)) in tests:
        dir_ok = var_ref(small) == tsp  # relation true <=> ts_now < record.timestamp
        t = tnode(g, bid)
        held = g.reach([t], avoid_edges=[(bid, "F")])
        rets = [p for p in g.return_nodes() if p in held]
        consumed = [p for p in pb + ind if p in held]
        ok = dir_ok and bool(rets) and all(const_val(g.node_ast(p).get("val")) == 0 for p in rets) and not consumed
        ctx.ob("C05.R2a", "_populate_transit_event_from_frontend_queue:hold-back", ok,
               "a record whose timestamp is newer than ts_now is left in its queue: that outcome returns false and reaches neither the "
               "decoder call nor push_back (direction ok: %s, consumed on that path: %d)" % (dir_ok, len(consumed)),
               loc=g.term_cond(bid)["loc"], fn=f)
        # conversion before the test: no write to event.timestamp after the test
        writes = []
        for n in f.walk():
            if n["k"] == "BinaryOperator" and n["op"] == "=" and ts_member(n["lhs"]):
                writes.append(n)
            if is_call(n, r"^(std::)?memcpy$") and any(ts_member(x) for x in walk(n["args"][0])):
                writes.append(n)
        wpos = npos(f, writes)
        ok = len(writes) >= 2 and not g.exists_path([t], wpos)
        ctx.ob("C05.R2b", "_populate_transit_event_from_frontend_queue:compare-after-conversion", ok,
               "the timestamp compared with ts_now is final: it is decoded and (for TSC loggers) converted to epoch time before the test "
               "(%d write(s), none after the test)" % len(writes), fn=f)
    # R2d: the hold-back applies to every kind of record: the only ways past the test are 'user clock' and 'grace period disabled'
    ex = []
    for bid, b in g.blocks.items():
        c = g.term_cond(bid)
        nc = norm_cmp(c) if c is not None else None
        if not nc or nc[0] not in ("==", "!="):
            continue
        user = any(x["k"] == "MemberExpr" and x.get("mname") == "clock_source" for x in walk(c)) and \
            any(x["k"] == "DeclRefExpr" and x.get("name", "").endswith("ClockSourceType::User") for x in walk(c))
        off = any(x["k"] == "DeclRefExpr" and x.get("did") == tsp for x in walk(c)) and any(is_call(x, r"numeric_limits<.*>::max$") for x in walk(c))
        if user or off:
            ex.append((bid, "T" if nc[0] == "==" else "F"))  # label of 'exempt'
    tn = [tnode(g, b) for (b, _cs) in tests]
    bypass = g.exists_path([g.entry_node], ind + pb, avoid_nodes=tn, avoid_edges=ex)
    ctx.ob("C05.R2d", "_populate_transit_event_from_frontend_queue:hold-back-for-every-record", len(ex) >= 2 and not bypass,
           "every record passes the hold-back test before it is decoded and buffered, whatever its kind (statement, flush request, "
           "backtrace control, removal request): the only exemptions are a user-supplied clock and a disabled grace period "
           "(%d exemption test(s) found, another way round the test: %s)" % (len(ex), bypass), fn=f)
    # the decoder call and push_back are not reachable on the 'newer' outcome -> done; also the test precedes the decoder call on all paths where it applies
    first = tests[0][0]
    ok = not g.exists_path(ind, [tnode(g, first)])
    ctx.ob("C05.R2c", "_populate_transit_event_from_frontend_queue:test-before-decode", ok,
           "the hold-back test is never evaluated after the arguments were decoded", fn=f)


def r3(ctx, facts, cfg):
    f = facts.need(BW + "_process_lowest_timestamp_transit_event", cfg)[0]
    g = f.g
    loops = [n for n in f.walk() if n["k"] == "CXXForRangeStmt"]
    sel = None
    for lp in loops:
        rng = strip(lp.get("range"))
        if is_this_field(rng, "_active_thread_contexts_cache"):
            sel = lp
    if sel is None:
        raise AnalysisBroken("selection loop (range-for) over _active_thread_contexts_cache not found")
    lv = sel["loopvar"]["did"]
    body = sel.get("body")
    early = [x for x in walk(body) if x["k"] in ("BreakStmt", "ReturnStmt", "GotoStmt")]
    ctx.ob("C05.R3a", "_process_lowest_timestamp_transit_event:whole-cache", not early,
           "the selection loop ranges over every active thread context (no early exit: %d)" % len(early), loc=sel["loc"], fn=f)
    # comparison(s) involving a timestamp inside the loop
    cmps = []
    for bid, b in g.blocks.items():
        c = g.term_cond(bid)
        if c is None or not in_subtree(c, body):
            continue
        cs = cmp_sides(c)
        if cs and (ts_member(cs[1]) or ts_member(cs[2])):
            cmps.append((bid, cs, c))
    ok = len(cmps) == 1
    why = "%d timestamp comparison(s) in the loop" % len(cmps)
    if ok:
        bid, (op, small, big), c = cmps[0]
        best = var_ref(big)
        cand_ok = ts_member(small) and best is not None
        t = tnode(g, bid)
        taken = g.reach([t], avoid_edges=[(bid, "F")])
        # assignments on the taken outcome
        asg_best = [n for n in f.walk() if n["k"] == "BinaryOperator" and n["op"] == "=" and var_ref(n["lhs"]) == best and in_subtree(n, body)]
        asg_ctx = [n for n in f.walk() if n["k"] == "BinaryOperator" and n["op"] == "=" and var_ref(n["rhs"]) == lv and var_ref(n["lhs"]) is not None and in_subtree(n, body)]
        upd_best = bool(asg_best) and all(ts_member(n["rhs"]) and expr_key(n["rhs"]) == expr_key(small) for n in asg_best)
        cand_var = None
        sm = strip(small, casts=True)
        if isnode(sm) and sm["k"] == "MemberExpr":
            cand_var = var_ref(sm.get("base"))
        # both updates happen exactly on the taken outcome
        ab, ac = npos(f, asg_best), npos(f, asg_ctx)
        # 'nothing chosen yet' — a null test of the variable that receives the chosen context — is the other way into the update: the
        # first non-empty buffer is taken whatever its timestamp
        chosen_vars = set(var_ref(n["lhs"]) for n in asg_ctx)
        none_yet = []
        for b2 in g.blocks:
            c2 = g.term_cond(b2)
            if c2 is None or not in_subtree(c2, body):
                continue
            lab = nonnull_label(c2, chosen_vars)
            if lab is not None:
                none_yet.append((b2, other(lab)))                     # label of 'nothing chosen yet'
        taken = set(taken)
        for (b2, l2) in none_yet:
            taken |= set(g.reach([tnode(g, b2)], avoid_edges=[(b2, other(l2))]))
        together = bool(ab) and bool(ac) and all(p in taken for p in ab + ac) and \
            not g.exists_path([g.entry_node], ab + ac, avoid_edges=[(bid, "T")] + none_yet)
        # R3d: a candidate is passed over only in favour of a context already chosen: from 'this buffer has a front event' every path
        # that reaches the next iteration without the update has seen 'a context is chosen' (else a statement whose timestamp equals the
        # initial value of best is never selected, never written, and the exit drain never ends)
        cand_tests = []
        if cand_var is None:
            sm_ = strip(small, casts=True)
            cand_var_ = var_ref(sm_.get("base")) if isnode(sm_) and sm_["k"] == "MemberExpr" else None
        else:
            cand_var_ = cand_var
        for b2 in g.blocks:
            c2 = g.term_cond(b2)
            if c2 is None or not in_subtree(c2, body) or cand_var_ is None:
                continue
            lab = nonnull_label(c2, {cand_var_})
            if lab is not None:
                cand_tests.append((b2, lab))
        loop_back = [tnode(g, b2) for b2 in g.blocks if g.blocks[b2].get("term") == "CXXForRangeStmt"]
        skipped_unchosen = False
        for (b2, l2) in cand_tests:
            st = [y for (y, l3) in g.succ.get(tnode(g, b2), ()) if l3 == l2]
            if g.exists_path(st, loop_back + [g.exit_node], avoid_nodes=ab + ac, avoid_edges=[(b3, l3) for (b3, l3) in none_yet] +
                             ([] if none_yet else [])) and not none_yet:
                skipped_unchosen = True
            elif none_yet and g.exists_path(st, loop_back, avoid_nodes=ab + ac, avoid_edges=[(b3, other(l3)) for (b3, l3) in none_yet]):
                # with 'nothing chosen yet' taken, the update must follow
                skipped_unchosen = True
        ctx.ob("C05.R3d", "_process_lowest_timestamp_transit_event:first-candidate-always-taken", bool(cand_tests) and not skipped_unchosen,
               "a thread whose buffer has a front event is passed over only in favour of a context that is already chosen: while nothing "
               "is chosen the candidate is taken whatever its timestamp ('nothing chosen yet' tests: %d)" % len(none_yet), fn=f)
        # candidate is front() of the loop variable's buffer
        inits = f.var_inits()
        front_ok = cand_var in inits and any(is_call(x, r"TransitEventBuffer::front$") and
                                             any(y["k"] == "DeclRefExpr" and y.get("did") == lv for y in walk(x)) for x in walk(inits[cand_var]))
        ok = cand_ok and upd_best and together and front_ok
        why = "candidate.timestamp %s best: %s, best updated to the candidate's timestamp: %s, best and chosen context updated together on that outcome only: %s, candidate is front() of the visited context: %s" % (
            op, cand_ok, upd_best, together, front_ok)
        # the chosen context variable is the one whose buffer is dispatched/popped later
        chosen = set(var_ref(n["lhs"]) for n in asg_ctx)
        pops = f.calls(r"TransitEventBuffer::pop_front$")
        uses_chosen = bool(pops) and all(any(y["k"] == "DeclRefExpr" and y.get("did") in chosen for y in walk(call_obj(p))) for p in pops)
        ctx.ob("C05.R3c", "_process_lowest_timestamp_transit_event:dispatch-selected", uses_chosen,
               "the event dispatched and popped is the front of the context selected by the minimum search", fn=f)
    ctx.ob("C05.R3b", "_process_lowest_timestamp_transit_event:minimum-selection", ok,
           "the oldest front event over all thread contexts is selected (%s)" % why, loc=sel["loc"], fn=f)


def r4(ctx, facts, cfg):
    n_loops = 0
    for fname in ("_poll", "_exit"):
        f = facts.need(BW + fname, cfg)[0]
        g = f.g
        for c in f.calls(r"::_process_lowest_timestamp_transit_event$"):
            loops = loops_enclosing(f, c)
            if not loops:
                continue
            lp = loops[0]
            if any(is_call(x, r"::_populate_transit_events_from_frontend_queues$") for x in walk(lp)):
                continue  # the queues are re-read between two dispatches
            n_loops += 1
            br = [(b, t, cc) for (b, t, cc) in branches_on_call(f, r"::has_pending_events_for_caching_when_transit_event_buffer_empty$")
                  if in_subtree(cc, lp)]
            cp = g.positions(c)
            np_edges = [(b, other(t)) for (b, t, cc) in br]  # 'nothing pending' outcome
            ok = bool(br) and not g.exists_path([g.entry_node], cp, avoid_edges=np_edges) and \
                not g.exists_path(cp, cp, avoid_edges=np_edges)
            ctx.ob("C05.R4a", "%s:batch-stop" % fname, ok,
                   "in the batch loop every dispatch is preceded, in the same iteration, by the check that no thread has an empty "
                   "buffer but a non-empty queue (otherwise an older statement still in a queue would be overtaken)", loc=c["loc"], fn=f)
    ctx.floor("C05.R4a", "batch loops (dispatch without re-reading the queues)", n_loops, 2)
    f = facts.need(BW + "has_pending_events_for_caching_when_transit_event_buffer_empty", cfg)[0]
    g = f.g
    trues = returns_bool(f, True)
    falses = returns_bool(f, False)
    if not trues or not falses:
        raise AnalysisBroken("has_pending...: literal returns expected")
    ebr = branches_on_call(f, r"TransitEventBuffer::empty$")
    kinds = set()
    for (bid, t, cc) in branches_on_call(f, r"SPSCQueue(Impl<.*>)?::empty$"):
        # 'true' must be returned on the not-empty outcome of the queue test
        ne = straight_after(g, bid, other(t))
        em = straight_after(g, bid, t)
        if any(p in ne for p in trues) and not any(p in em for p in trues):
            kinds.add("U" if "Unbounded" in cc["callee"] else "B")
    under_empty_buffer = bool(ebr) and not g.exists_path([g.entry_node], trues, avoid_edges=[(b, t) for (b, t, c) in ebr])
    loops = [n for n in f.walk() if n["k"] == "CXXForRangeStmt" and is_this_field(strip(n.get("range")), "_active_thread_contexts_cache")]
    if not loops:
        other_loop_over(f, "_active_thread_contexts_cache", "has_pending_events_for_caching_when_transit_event_buffer_empty")
    ctx.ob("C05.R4b", "has_pending_events_for_caching_when_transit_event_buffer_empty:both-queue-kinds",
           kinds == {"U", "B"} and under_empty_buffer and bool(loops),
           "reports 'pending' for a context with an empty transit buffer whose queue is not empty, for bounded and unbounded queues "
           "alike, over the whole cache (kinds %s, under buffer-empty: %s)" % (sorted(kinds), under_empty_buffer), fn=f)
    # R4d: ... and the cache it scans is current: a thread that registered since the last reload — and whose first statement may be older
    # than everything buffered — is part of the answer (the cache is refreshed before the scan)
    up = cpos(f, r"::_update_active_thread_contexts_cache$")
    heads = [p for lp in loops for p in (g.positions(lp.get("range")) or g.positions(lp.get("body")) or [])]
    ctx.ob("C05.R4d", "has_pending_events_for_caching_when_transit_event_buffer_empty:cache-refreshed-first", bool(up) and bool(heads) and
           not g.exists_path([g.entry_node], heads, avoid_nodes=up),
           "the thread-context cache is reloaded (when flagged) before it is scanned", fn=f)


def r5(ctx, facts, cfg):
    fns = facts.need("quill::LoggerImpl::log_statement", cfg, floor=8)
    for f in fns:
        g = f.g
        hdr = need_some(f.calls(r"::_encode_header$"), "log_statement: _encode_header")
        tv = var_ref(hdr[0]["args"][1])
        if tv is None:
            raise AnalysisBroken("log_statement: header timestamp is not a local variable")
        asg = f.assignments_to_var(tv)
        apos = npos(f, asg)
        prep = cpos(f, r"::_prepare_write_buffer$")
        clock_srcs = [n for n in asg if any(is_call(x, r"(::rdtsc$|::get_timestamp_ns<|UserClockSource::now$)") for x in walk(n["rhs"]))]
        ok = len(clock_srcs) >= 3 and bool(prep) and not g.exists_path([g.entry_node], prep, avoid_nodes=apos) and \
            not g.exists_path(prep, apos)
        site = "log_statement<%s>:timestamp-first" % f.name.split("LoggerImpl<")[1].split(">")[0]
        ctx.ob("C05.R5", site, ok,
               "the clock is read before the reservation / blocking loop and never afterwards; the header carries that value "
               "(clock sources: %d)" % len(clock_srcs), fn=f)


def options_read_only(ctx, facts, cfg):
    """R1d: the grace period (like every other backend option) is what the user configured for the whole life of the backend: no
    backend function writes a member of _options after they were taken over at start-up"""
    writers = []
    n = 0
    for f in facts.fns:
        if f.config != cfg or not (f.short.startswith(BW) or (f.rec.get("parent") or "").startswith("quill::detail::BackendWorker::")):
            continue
        for x in f.walk():
            tgt = None
            if x["k"] in ("BinaryOperator", "CompoundAssignOperator") and x.get("op", "").endswith("=") and x.get("op") not in ("==", "!=", "<=", ">="):
                tgt = x["lhs"]
            elif x["k"] == "CXXOperatorCallExpr" and re.search(r"operator(=|\+=|-=|\*=|/=)$", x.get("callee") or "") and x.get("args"):
                tgt = x["args"][0]
            elif x["k"] == "UnaryOperator" and x.get("op") in ("++", "--"):
                tgt = x["sub"]
            if tgt is None:
                continue
            t = strip(tgt, casts=True)
            if isnode(t) and t["k"] == "MemberExpr" and is_this_field(t.get("base"), "_options") and f.base not in ("_init", "init"):
                writers.append("%s writes _options.%s at %s" % (f.base, t.get("mname"), x["loc"]))
            if is_this_field(t, "_options"):
                n += 1
                if f.base not in ("_init", "init", "run"):
                    writers.append("%s replaces _options at %s" % (f.base, x["loc"]))
    ctx.floor("C05.R1d", "places where the backend takes over the user's options", n, 1)
    ctx.ob("C05.R1d", "BackendWorker:_options-read-only", not writers,
           "the options — among them log_timestamp_ordering_grace_period — are taken over once at start-up and never written by the "
           "backend afterwards — start-up (_init) may normalise them (%s)" % ("; ".join(writers) or "no writer"), loc="backend/BackendWorker.h")


def clock_edges(g, enum_suffix):
    """[(bid, label of 'clock source is <enum_suffix>')] over the comparisons of a clock_source member with that enumerator"""
    out = []
    for bid, b in g.blocks.items():
        c = g.term_cond(bid)
        nc = norm_cmp(c) if c is not None else None
        if nc and nc[0] in ("==", "!=") and any(x["k"] == "MemberExpr" and x.get("mname") == "clock_source" for x in walk(c)) and \
                any(x["k"] == "DeclRefExpr" and x.get("name", "").endswith("ClockSourceType::" + enum_suffix) for x in walk(c)):
            out.append((bid, "T" if nc[0] == "==" else "F"))
    return out


def r5_clock_table(ctx, facts, cfg):
    """R5c/R5d: which clock stamps a statement, and that the backend converts exactly the stamps that need it"""
    en = facts.enum("quill::ClockSourceType", cfg)
    if not en:
        raise AnalysisBroken("ClockSourceType not found")
    names = [n for (n, _v) in en["enumerators"]]
    if sorted(names) != ["System", "Tsc", "User"]:
        raise AnalysisBroken("ClockSourceType enumerators changed: %s — the clock table has to be re-confirmed" % names)
    want = {"Tsc": r"::rdtsc$", "System": r"::get_timestamp_ns<std::chrono::(_V2::)?system_clock>$|::get_timestamp_ns<.*system_clock.*>$", "User": r"UserClockSource::now$"}
    for f in facts.need("quill::LoggerImpl::log_statement", cfg, floor=8)[:8]:
        g = f.g
        hdr = need_some(f.calls(r"::_encode_header$"), "log_statement: _encode_header")
        tv = var_ref(hdr[0]["args"][1])
        asg = f.assignments_to_var(tv)
        e_tsc, e_sys = clock_edges(g, "Tsc"), clock_edges(g, "System")
        ok = bool(e_tsc) and bool(e_sys)
        found = {}
        for name, pat in want.items():
            mine = [n for n in asg if any(is_call(x, pat) for x in walk(n["rhs"]))]
            ps = npos(f, mine)
            found[name] = len(mine)
            if not ps:
                ok = False
                continue
            if name == "Tsc":
                ok = ok and not g.exists_path([g.entry_node], ps, avoid_edges=e_tsc)
            elif name == "System":
                ok = ok and not g.exists_path([g.entry_node], ps, avoid_edges=e_sys) and \
                    not g.exists_path([g.entry_node], ps, avoid_edges=[(b, other(l)) for (b, l) in e_tsc])
            else:
                ok = ok and not g.exists_path([g.entry_node], ps, avoid_edges=[(b, other(l)) for (b, l) in e_tsc]) and \
                    not g.exists_path([g.entry_node], ps, avoid_edges=[(b, other(l)) for (b, l) in e_sys])
        site = "log_statement<%s>:clock-per-source" % f.name.split("LoggerImpl<")[1].split(">")[0]
        ctx.ob("C05.R5c", site, ok,
               "a Tsc logger stamps with rdtsc, a System logger with the system clock in nanoseconds, a User logger with its clock's "
               "now(), each exactly on its own outcome of the clock-source tests (%s)" % found, fn=f)
    df = facts.need(BW + "_populate_transit_event_from_frontend_queue", cfg)[0]
    g = df.g
    conv = [n for n in df.walk() if n["k"] == "BinaryOperator" and n["op"] == "=" and ts_member(n["lhs"]) and
            any(is_call(x, r"RdtscClock::time_since_epoch$") for x in walk(n["rhs"])) and any(ts_member(x) for x in walk(n["rhs"]))]
    cp = npos(df, conv)
    e_tsc = clock_edges(g, "Tsc")
    tsp = df.rec["params"][2]["did"]
    holds = []
    for bid, b in g.blocks.items():
        c = g.term_cond(bid)
        cs = cmp_sides(c) if c is not None else None
        if cs and ((var_ref(cs[1]) == tsp and ts_member(cs[2])) or (var_ref(cs[2]) == tsp and ts_member(cs[1]))):
            holds.append(tnode(g, bid))
    ok = bool(cp) and bool(e_tsc) and bool(holds) and not g.exists_path([g.entry_node], cp, avoid_edges=e_tsc) and \
        all(not g.exists_path([tnode(g, b)], holds + npos(df, df.calls(r"TransitEventBuffer::push_back$")), avoid_nodes=cp, avoid_edges=[(b, other(l))]) for (b, l) in e_tsc)
    # R5e: the converter exists when it is used: every path to the conversion passes the 'clock already created' outcome or creates it
    from qlib import atomic_op
    mk = [n for n in df.walk() if (atomic_op(n) or {}).get("kind") == "store" and is_this_field(atomic_op(n)["obj"], "_rdtsc_clock") and
          any(x["k"] == "CXXNewExpr" for x in walk(atomic_op(n).get("value")))]
    mkp = npos(df, mk)
    has = []
    for bid, b in g.blocks.items():
        c = g.term_cond(bid)
        if c is None:
            continue
        core, neg = core_and_neg(c)
        a = atomic_op(strip(core, casts=True))
        if a and a["kind"] == "load" and is_this_field(a["obj"], "_rdtsc_clock"):
            has.append((bid, "F" if neg else "T"))  # label of 'clock exists'
    ok_e = bool(cp) and bool(mkp) and bool(has) and not g.exists_path([g.entry_node], cp, avoid_nodes=mkp, avoid_edges=has) and \
        not g.exists_path([g.entry_node], mkp, avoid_edges=[(b, other(l)) for (b, l) in has])
    ctx.ob("C05.R5e", "_populate_transit_event_from_frontend_queue:tsc-clock-exists", ok_e,
           "the TSC converter is created on the backend exactly when it does not exist yet, and every path to the conversion has either "
           "seen it or created it (no statement of a Tsc logger is stamped through a null converter)", fn=df)
    # R5f: the converter is read by other threads (BackendTscClock::now -> time_since_epoch): it is published with a release store and
    # picked up with an acquire load, so a thread that sees the pointer sees the calibrated object behind it
    rel = bool(mk) and all(atomic_op(n).get("order") in ("release", "seq_cst", "acq_rel") for n in mk)
    tse = facts.need(BW + "time_since_epoch", cfg)[0]
    lds = [atomic_op(n) for n in tse.walk() if (atomic_op(n) or {}).get("kind") == "load" and is_this_field(atomic_op(n)["obj"], "_rdtsc_clock")]
    acq = bool(lds) and all(a.get("order") in ("acquire", "seq_cst", "acq_rel") for a in lds)
    ctx.ob("C05.R5f", "BackendWorker:tsc-converter-published", rel and acq,
           "the converter pointer is stored with release (%s) and loaded by time_since_epoch — callable from any thread — with acquire (%s)"
           % ([atomic_op(n).get("order") for n in mk], [a.get("order") for a in lds]), fn=tse)
    ctx.ob("C05.R5d", "_populate_transit_event_from_frontend_queue:tsc-converted-exactly", ok,
           "the record's timestamp is replaced by RdtscClock::time_since_epoch(timestamp) exactly for loggers whose clock source is Tsc, "
           "on every path before it is compared or buffered (cycle counts and epoch nanoseconds are never mixed in the ordering)", fn=df)


def r9_read_pass_exits(ctx, facts, cfg, rule="C05.R9"):
    """R9: after a pass over the queues every thread with an eligible statement in its queue has one buffered (the single-event branch of
    the poll loop, and every flush request, rely on it). The per-queue read loop therefore ends for three reasons only: the queue was
    found empty (the read position is null), the decoder declined the head statement (hold-back), or the per-pass limits — which are
    tested after at least one statement was buffered. Any other way out of the loop leaves an eligible statement unread while later
    statements of other threads (a flush request among them) are processed."""
    fns = facts.need(BW + "_read_and_decode_frontend_queue", cfg, floor=2)
    for f in fns:
        g = f.g
        loops = [n for n in f.walk() if n["k"] in ("DoStmt", "WhileStmt", "ForStmt")]
        if len(loops) != 1:
            raise AnalysisBroken("_read_and_decode_frontend_queue: expected one read loop, found %d" % len(loops))
        lp = loops[0]
        inits = f.var_inits()
        decls = f.var_decls()
        # the read position: the local assigned from prepare_read / _read_unbounded_frontend_queue
        rp = set()
        for n in f.walk():
            if n["k"] == "BinaryOperator" and n["op"] == "=" and var_ref(n["lhs"]) is not None and \
                    any(is_call(x, r"::(prepare_read|_read_unbounded_frontend_queue)$") for x in walk(n["rhs"])):
                rp.add(var_ref(n["lhs"]))
        for v, i in inits.items():
            if isnode(i) and any(is_call(x, r"::(prepare_read|_read_unbounded_frontend_queue)$") for x in walk(i)):
                rp.add(v)
        acc = set(var_ref(n["lhs"]) for n in f.walk() if n["k"] == "CompoundAssignOperator" and n["op"] == "+=" and var_ref(n["lhs"]) is not None)
        exits = [x for x in walk(lp.get("body")) if x["k"] in ("BreakStmt", "ReturnStmt", "GotoStmt")]
        bad = []
        for x in exits:
            # the conditions that control this exit: the enclosing if statements inside the loop
            conds = []
            prev = x
            for a in f.ancestors(x):
                if a is lp:
                    break
                if a["k"] == "IfStmt":
                    conds.append(a.get("cond"))
                prev = a
            if not conds:
                bad.append("unconditional %s at %s" % (x["k"], x.get("loc")))
                continue
            ok_reason = False
            for c in conds:
                leaves = flatten(strip(peel_not(c)), "&&") + flatten(strip(peel_not(c)), "||")
                txt = [y for y in walk(c)]
                if nonnull_label(c, rp) is not None:
                    ok_reason = True          # the queue is empty
                elif any(is_call(y, r"::_populate_transit_event_from_frontend_queue$") for y in txt):
                    ok_reason = True          # the decoder declined (hold-back)
                elif any((y["k"] == "DeclRefExpr" and y.get("did") in acc) or (y["k"] == "MemberExpr" and y.get("mname") == "transit_events_hard_limit") for y in txt):
                    ok_reason = True          # the per-pass limits (a while(true) form of the do-while condition)
            if not ok_reason:
                bad.append("%s at %s under %s" % (x["k"], x.get("loc"), expr_key(conds[0], True)[:80]))
        site = "_read_and_decode_frontend_queue<%s>" % ("Unbounded" if "Unbounded" in f.name else "Bounded")
        ctx.ob(rule, site + ":read-loop-exits", not bad,
               "the per-queue read loop is left only because the queue is empty, the head statement is held back, or the per-pass limits "
               "were reached after something was buffered (%d exit(s) in the body; other: %s)" % (len(exits), "; ".join(bad) or "none"), fn=f)


RC = "quill::detail::RdtscClock::"


def _slot_index(f, idx):
    """decompose the subscript of `_base`: (K, mask_key, did of the local holding the version or None) for `(V + K) & M` / `V & M` where V is
    a load of `_version` or a local whose only definition is such a load; anything else is a shape no rule here understands"""
    from qlib import atomic_op
    inits = f.var_inits()

    def is_version_load(e):
        a = atomic_op(strip(e, casts=True))
        return bool(a and a["kind"] == "load" and is_this_field(a["obj"], "_version"))

    def version_of(e):
        """(ok, did, load-nodes)"""
        e = strip(e, casts=True)
        if is_version_load(e):
            return True, None
        v = var_ref(e)
        if v is not None:
            defs = ([inits[v]] if inits.get(v) is not None else []) + [a["rhs"] for a in f.assignments_to_var(v)]
            if defs and all(is_version_load(d) for d in defs):
                return True, v
        return False, None

    e = strip(idx, casts=True)
    v = var_ref(e)
    if v is not None:
        if inits.get(v) is None or f.assignments_to_var(v):
            raise AnalysisBroken("RdtscClock: the slot index %s is not a local initialised once" % expr_key(idx, True))
        e = strip(inits[v], casts=True)
    if not (isnode(e) and e["k"] == "BinaryOperator" and e["op"] == "&"):
        raise AnalysisBroken("RdtscClock: slot index of unknown shape: %s" % expr_key(e, True))
    for ver, mask in ((e["lhs"], e["rhs"]), (e["rhs"], e["lhs"])):
        ver = strip(ver, casts=True)
        ok, did = version_of(ver)
        if ok:
            return 0, expr_key(strip(mask, casts=True)), did
        if isnode(ver) and ver["k"] == "BinaryOperator" and ver["op"] == "+":
            for a, b in ((ver["lhs"], ver["rhs"]), (ver["rhs"], ver["lhs"])):
                ok, did = version_of(a)
                if ok and const_val(b) is not None:
                    return const_val(b), expr_key(strip(mask, casts=True)), did
    raise AnalysisBroken("RdtscClock: slot index of unknown shape: %s" % expr_key(e, True))


def _base_subscripts(f):
    return [n for n in f.walk() if n["k"] == "CXXOperatorCallExpr" and (n.get("callee") or "").endswith("::operator[]") and
            len(n.get("args") or []) == 2 and is_this_field(n["args"][0], "_base")]


def r7_tsc_slots(ctx, facts, cfg):
    """R7: the two-slot hand-over inside the TSC converter (RdtscClock): resync fills the slot that the next conversion reads, fills it
    completely before it publishes, only with a sample taken inside the accepted lag; the conversions read both values of one slot"""
    from qlib import atomic_op
    rs = facts.need(RC + "resync", cfg)[0]
    g = rs.g
    subs = _base_subscripts(rs)
    stores = [n for n in rs.walk() if n["k"] == "BinaryOperator" and n["op"] == "=" and field_name(n["lhs"]) in ("base_time", "base_tsc") and
              any(strip(n["lhs"]).get("base") is not None and in_subtree(s, n["lhs"]) for s in subs)]
    pubs = [n for n in rs.walk() if (atomic_op(n) or {}).get("kind") in ("rmw", "store") and is_this_field(atomic_op(n)["obj"], "_version")]
    if not stores or not pubs:
        raise AnalysisBroken("RdtscClock::resync: no store into a slot of _base / no update of _version (%d, %d)" % (len(stores), len(pubs)))
    widx = set(_slot_index(rs, s["args"][1]) for s in subs)
    one = len(widx) == 1
    K, M, _ = sorted(widx, key=str)[0]
    pub_ok = all(atomic_op(p)["op"] == "fetch_add" and const_val(atomic_op(p).get("value")) == K for p in pubs) and len(pubs) == 1
    bt = facts.cls(RC.rstrip(":"), cfg) if hasattr(facts, "cls") else None
    size = None
    for fld in (bt or {}).get("fields", []):
        if fld["name"] == "_base":
            m = re.search(r"std::array<.*,\s*(\d+)>", fld.get("cty") or fld.get("ty") or "")
            size = int(m.group(1)) if m else None
    if size is None:
        raise AnalysisBroken("RdtscClock::_base: number of slots not found")
    pow2 = size >= 2 and (size & (size - 1)) == 0
    readers = []
    for nm in ("time_since_epoch", "time_since_epoch_safe"):
        f = facts.need(RC + nm, cfg)[0]
        ridx = set(_slot_index(f, s["args"][1]) for s in _base_subscripts(f))
        if not ridx:
            raise AnalysisBroken("RdtscClock::%s reads no slot of _base" % nm)
        readers.append((f, nm, ridx))
    r_ok = all(len(ridx) == 1 and list(ridx)[0][0] == 0 and list(ridx)[0][1] == M for (_f, _n, ridx) in readers)
    mm = re.match(r"^\(std::array::size\(this\._base;?\) - (\d+)\)$", M)
    if mm:
        mask = size - int(mm.group(1))
    elif re.match(r"^\d+$", M):
        mask = int(M)
    else:
        raise AnalysisBroken("RdtscClock: slot mask of unknown shape: %s" % M)
    ctx.ob("C05.R7a", "RdtscClock:resync-fills-the-slot-read-next", one and pub_ok and r_ok and pow2 and K is not None and K % size != 0 and mask == size - 1,
           "resync writes slot (version + %s) & %s and publishes by adding %s to the version (one update: %s); both conversions read slot "
           "version & the same mask (%s); %d slots (a power of two: %s), so the slot being filled is never the one being read and the next "
           "conversion reads what was filled" % (K, M, [const_val(atomic_op(p).get("value")) for p in pubs], len(pubs) == 1,
                                              [sorted(r, key=str) for (_f, _n, r) in readers], size, pow2), fn=rs)
    # R7b: the slot is complete before it is published; the publish is a release, the lock-free reader's loads are acquires
    sp = npos(rs, stores)
    pp = npos(rs, pubs)
    by_field = {}
    for n in stores:
        by_field.setdefault(field_name(n["lhs"]), []).append(n)
    complete = set(by_field) == {"base_time", "base_tsc"} and \
        all(not g.exists_path([g.entry_node], pp, avoid_nodes=npos(rs, by_field[k])) for k in by_field)
    # no store into the slot after the publish within the same attempt (a later attempt starts with fresh samples: back edge of the loop)
    after = any(g.exists_path([p], [s], avoid_nodes=npos(rs, [n for n in rs.walk() if n["k"] == "Var" and n.get("name") and
                                                              any(is_call(x, r"::rdtsc$") for x in walk(n.get("init") or {}))])) for p in pp for s in sp)
    rel = all(is_release_order(atomic_op(p).get("order")) for p in pubs)
    safe = [f for (f, nm, _r) in readers if nm == "time_since_epoch_safe"][0]
    lds = [atomic_op(n) for n in safe.walk() if (atomic_op(n) or {}).get("kind") == "load" and is_this_field(atomic_op(n)["obj"], "_version")]
    acq = len(lds) >= 2 and all(a.get("order") in ("acquire", "seq_cst", "acq_rel") for a in lds)
    ctx.ob("C05.R7b", "RdtscClock:slot-complete-before-published", complete and not after and rel and acq,
           "both values of the slot (%s) are stored on every path to the version update and none after it; the update is a release (%s); "
           "the reader that any thread may call loads the version with acquire before and after reading the slot (%s)"
           % (sorted(by_field), [atomic_op(p).get("order") for p in pubs], [a.get("order") for a in lds]), fn=rs)
    # R7c: the retry of the lock-free reader: it returns only when the version it derived the slot from is still the current one
    sg = safe.g
    vdid = list(readers[1][2])[0][2]
    retry = []
    for bid in sg.blocks:
        c = sg.term_cond(bid)
        if c is None:
            continue
        core = peel_not(c)
        if isnode(core) and core["k"] == "BinaryOperator" and core["op"] in ("==", "!="):
            sides = [strip(core["lhs"], casts=True), strip(core["rhs"], casts=True)]
            ld = [x for x in sides if (atomic_op(x) or {}).get("kind") == "load" and is_this_field(atomic_op(x)["obj"], "_version")]
            vr = [x for x in sides if var_ref(x) is not None and var_ref(x) == vdid]
            if ld and vr:
                nc = norm_cmp(c)
                retry.append((bid, "T" if nc[0] == "!=" else "F"))  # label on which the version has CHANGED
    rets = [n for n in safe.walk() if n["k"] == "ReturnStmt"]
    slot_reads = npos(safe, _base_subscripts(safe))
    ok_c = vdid is not None and len(retry) == 1
    if ok_c:
        b, lab = retry[0]
        # on 'changed' control goes back to a fresh load of the version (no return reachable without passing the version load again)
        reload_pos = npos(safe, [n for n in safe.walk() if (atomic_op(n) or {}).get("kind") == "load" and is_this_field(atomic_op(n)["obj"], "_version") and
                                 not in_subtree(n, sg.term_cond(b))])
        ret_pos = npos(safe, rets)
        ok_c = bool(reload_pos) and not sg.exists_path([tnode(sg, b)], ret_pos, avoid_nodes=reload_pos, avoid_edges=[(b, other(lab))]) and \
            sg.exists_path([tnode(sg, b)], ret_pos, avoid_edges=[(b, lab)], avoid_nodes=reload_pos)
        # a value computed from the slot is returned only through the check (the 'not calibrated yet' return of 0 reads no time from the slot)
        val_rets = [r for r in rets if const_val(r.get("val") if "val" in r else (list(children(r)) or [None])[0]) is None]
        ok_c = ok_c and bool(val_rets) and all(not sg.exists_path(slot_reads, npos(safe, [r]), avoid_nodes=[tnode(sg, b)]) or
                                                not sg.exists_path([sg.entry_node], npos(safe, [r]), avoid_nodes=[tnode(sg, b)]) for r in val_rets)
    ctx.ob("C05.R7c", "RdtscClock::time_since_epoch_safe:retry-until-version-unchanged", ok_c,
           "the reader compares the version it derived the slot from with a fresh acquire load; when they differ it loads the version again "
           "before anything is returned, when they agree it returns; a converted value leaves only through that comparison (%s)" % retry, fn=safe)
    # R7d: only a sample taken within the accepted lag is stored: wall clock read between the two counter reads, stores only on 'end - beg <= lag'
    inits = rs.var_inits()
    tsc_vars = [d for d, i in inits.items() if i is not None and any(is_call(x, r"::rdtsc$") for x in walk(i))]
    wall_vars = [d for d, i in inits.items() if i is not None and any(is_call(x, r"::get_timestamp_ns<.*system_clock") for x in walk(i))]
    decls = rs.var_decls()
    ok_d = len(tsc_vars) == 2 and len(wall_vars) == 1
    lagp = rs.rec["params"][0]["did"]
    guard = []
    if ok_d:
        pos = {d: npos(rs, [decls[d]]) for d in tsc_vars + wall_vars}
        first, second = sorted(tsc_vars, key=lambda d: decls[d]["id"])
        w = wall_vars[0]
        ok_d = not g.exists_path([g.entry_node], pos[w], avoid_nodes=pos[first]) and not g.exists_path(pos[first], pos[second], avoid_nodes=pos[w])
        diff = "(v%s - v%s)" % (second, first)
        for bid in g.blocks:
            c = g.term_cond(bid)
            nc = norm_cmp(c) if c is not None else None
            if nc and nc[0] in ("<", "<=") and set((nc[1], nc[2])) == {diff, "v%s" % lagp}:
                # norm_cmp folds negations and flips: the normalised comparison holds on the raw true edge
                guard.append((bid, "T" if nc[1] == diff else "F"))  # label of 'within the lag'
        bt_src = all(var_ref(n["rhs"]) == w for n in by_field.get("base_time", []))
        tsc_src = all(set(var_ref(x) for x in walk(n["rhs"]) if var_ref(x) is not None) >= {first, second} for n in by_field.get("base_tsc", []))
        ok_d = ok_d and len(guard) == 1 and bt_src and tsc_src
        if ok_d:
            ok_d = not g.exists_path([g.entry_node], sp + pp, avoid_edges=guard)
    ctx.ob("C05.R7d", "RdtscClock::resync:sample-within-lag", ok_d,
           "the wall clock is read between the two counter reads; the slot is written and published only on the outcome 'second - first "
           "within the lag'; base_time is that wall clock value, base_tsc is computed from both counter reads", fn=rs)
    # R7e: the backend's conversion uses tsc and time of one slot, combines them as base_time + (tsc - base_tsc) * ns-per-tick, and re-synchronises
    te = readers[0][0]
    tg = te.g
    rsc = te.calls(r"RdtscClock::resync$")
    over = []
    for bid in tg.blocks:
        c = tg.term_cond(bid)
        nc = norm_cmp(c) if c is not None else None
        if nc and nc[0] in ("<", "<=") and "this._resync_interval_ticks" in (nc[1], nc[2]):
            # interval < diff  <=>  diff > interval : label on which the interval is exceeded
            # norm_cmp folds negations and flips: the normalised comparison holds on the raw true edge
            over.append((bid, "T" if nc[1] == "this._resync_interval_ticks" else "F"))
    ok_e = bool(rsc) and len(over) == 1 and not tg.exists_path([tg.entry_node], npos(te, rsc), avoid_edges=over) and \
        tg.exists_path([tg.entry_node], npos(te, rsc))
    ctx.ob("C05.R7e", "RdtscClock::time_since_epoch:resync-when-interval-exceeded", ok_e,
           "the backend's conversion calls resync exactly on the outcome 'ticks since the base exceed the resync interval' (%s)" % over, fn=te)


def nonnull_label(cond, vids):
    """label of the outcome 'the pointer held by one of the variables is not null' for `p`, `!p`, `p != nullptr`, `p == nullptr` (and
    their negations); None for anything else"""
    core, neg = core_and_neg(cond)
    if var_ref(strip(core, casts=True)) in vids:
        return "F" if neg else "T"
    nc = norm_cmp(cond)
    cc = peel_not(cond)
    if nc and nc[0] in ("==", "!=") and isnode(cc) and cc["k"] == "BinaryOperator" and \
            any(var_ref(strip(x, casts=True)) in vids for x in (cc["lhs"], cc["rhs"])) and any(is_null(x) for x in (cc["lhs"], cc["rhs"])):
        return "T" if nc[0] == "!=" else "F"
    return None


def is_release_order(o):
    return o in ("release", "seq_cst", "acq_rel")


def only_boolean_use(f, node, depth=0):
    """the value of `node` is consumed only by a truth test (condition, !x, comparison with 0), possibly through a local that is itself
    only used that way"""
    p = f.parent(node)
    child = node
    while p is not None and p["k"] in ("ImplicitCastExpr", "ParenExpr", "ExprWithCleanups", "CXXStaticCastExpr", "CStyleCastExpr", "CXXFunctionalCastExpr"):
        if p["k"] == "ImplicitCastExpr" and p.get("ck") == "IntegralToBoolean":
            return True
        child = p
        p = f.parent(p)
    if p is None:
        return False
    if p["k"] == "ConditionalOperator" and p.get("cond") is child:
        return True
    if p["k"] in ("IfStmt", "WhileStmt", "DoStmt", "ForStmt") and p.get("cond") is child:
        return True
    if p["k"] == "UnaryOperator" and p["op"] == "!":
        return True
    if p["k"] == "BinaryOperator" and p["op"] in ("==", "!=", ">", "<", ">=", "<=") and (const_val(p["lhs"]) == 0 or const_val(p["rhs"]) == 0):
        return True
    if p["k"] == "BinaryOperator" and p["op"] in ("&&", "||"):
        return True
    if p["k"] == "Var" and depth < 2:
        did = p["did"]
        uses = [x for x in f.walk() if x["k"] == "DeclRefExpr" and x.get("did") == did]
        return bool(uses) and all(only_boolean_use(f, u, depth + 1) for u in uses)
    return False
