// Witness translation unit "core": includes the quill headers from the tree under
// analysis (include path is given on the command line, so every run re-parses the
// current working tree) and instantiates the templates the rules talk about for all
// four queue types. Nothing here is ever executed.
#include "quill/Backend.h"
#include "quill/BackendTscClock.h"
#include "quill/CsvWriter.h"
#include "quill/Frontend.h"
#include "quill/LogMacros.h"
#include "quill/Logger.h"
#include "quill/StopWatch.h"
#include "quill/StringRef.h"
#include "quill/UserClockSource.h"
#include "quill/Utility.h"
#include "quill/backend/ManualBackendWorker.h"
#include "quill/sinks/ConsoleSink.h"
#include "quill/sinks/FileSink.h"
#include "quill/sinks/JsonSink.h"
#include "quill/sinks/NullSink.h"
#include "quill/sinks/RotatingFileSink.h"
#include "quill/sinks/RotatingJsonFileSink.h"
#include "quill/sinks/RotatingSink.h"
#include "quill/sinks/StreamSink.h"

#include <string>
#include <string_view>

namespace qv
{
struct FO_UnboundedBlocking : quill::FrontendOptions
{
  static constexpr quill::QueueType queue_type = quill::QueueType::UnboundedBlocking;
};
struct FO_UnboundedDropping : quill::FrontendOptions
{
  static constexpr quill::QueueType queue_type = quill::QueueType::UnboundedDropping;
};
struct FO_BoundedBlocking : quill::FrontendOptions
{
  static constexpr quill::QueueType queue_type = quill::QueueType::BoundedBlocking;
};
struct FO_BoundedDropping : quill::FrontendOptions
{
  static constexpr quill::QueueType queue_type = quill::QueueType::BoundedDropping;
};
struct FO_BoundedBlockingNoSleep : quill::FrontendOptions
{
  static constexpr quill::QueueType queue_type = quill::QueueType::BoundedBlocking;
  static constexpr uint32_t blocking_queue_retry_interval_ns = 0;
};

struct CsvSchema
{
  static constexpr char const* header = "a,b";
  static constexpr char const* format = "{},{}";
};

template <typename FO>
void use_frontend(char const* cs, std::string const& s, std::string_view sv, int i, double d)
{
  using F = quill::FrontendImpl<FO>;
  using L = quill::LoggerImpl<FO>;
  F::preallocate();
  F::shrink_thread_local_queue(1024);
  (void)F::get_thread_local_queue_capacity();
  auto sink = F::template create_or_get_sink<quill::ConsoleSink>("c");
  (void)F::get_sink("c");
  L* l = F::create_or_get_logger("root", sink);
  L* l2 = F::create_or_get_logger("root2", {sink, sink});
  L* l3 = F::create_or_get_logger("root3", l);
  (void)l2;
  (void)l3;
  (void)F::get_logger("root");
  (void)F::get_all_loggers();
  (void)F::get_valid_logger();
  (void)F::get_number_of_loggers();
  l->init_backtrace(4, quill::LogLevel::Error);
  l->flush_backtrace();
  l->flush_log();
  // the log statement skeleton with a representative argument mix
  l->template log_statement<false, false>(quill::LogLevel::None, nullptr, i, d, cs, s, sv);
  l->template log_statement<true, false>(quill::LogLevel::None, nullptr, i);
  l->template log_statement<false, true>(quill::LogLevel::Info, nullptr, i, s);
  l->template log_statement<false, false>(quill::LogLevel::None, nullptr);
  F::remove_logger(l);
  F::remove_logger_blocking(l);
  quill::CsvWriter<CsvSchema, FO> w{"f.csv"};
  w.append_row(1, 2);
  quill::detail::on_signal<FO>(1);
  quill::detail::init_signal_handler<FO>(std::vector<int>{1});
}

template void use_frontend<FO_UnboundedBlocking>(char const*, std::string const&, std::string_view, int, double);
template void use_frontend<FO_UnboundedDropping>(char const*, std::string const&, std::string_view, int, double);
template void use_frontend<FO_BoundedBlocking>(char const*, std::string const&, std::string_view, int, double);
template void use_frontend<FO_BoundedDropping>(char const*, std::string const&, std::string_view, int, double);
template void use_frontend<FO_BoundedBlockingNoSleep>(char const*, std::string const&, std::string_view, int, double);

void use_backend()
{
  quill::BackendOptions bo;
  quill::Backend::start(bo);
  quill::SignalHandlerOptions so;
  quill::Backend::start<FO_UnboundedBlocking>(bo, so);
  quill::Backend::start<FO_BoundedDropping>(bo, so);
  quill::Backend::stop();
  quill::Backend::notify();
  (void)quill::Backend::is_running();
  (void)quill::Backend::get_thread_id();
  (void)quill::Backend::convert_rdtsc_to_epoch_time(1);
  quill::ManualBackendWorker* mw = quill::Backend::acquire_manual_backend_worker();
  mw->init(bo);
  mw->poll_one();
  mw->poll();
  mw->poll(std::chrono::microseconds{1});
  (void)quill::BackendTscClock::now();
  (void)quill::BackendTscClock::rdtsc();
}

struct FileEv
{
};

void use_sinks()
{
  quill::FileSinkConfig fc;
  quill::FileSink fs{"a.log", fc, quill::FileEventNotifier{}};
  quill::RotatingFileSinkConfig rc;
  quill::RotatingFileSink rs{"b.log", rc};
  quill::RotatingJsonFileSink rjs{"c.log", rc};
  quill::JsonFileSink jfs{"d.log", fc, quill::FileEventNotifier{}};
  quill::JsonConsoleSink jcs;
  quill::ConsoleSink cs;
  quill::NullSink ns;
  quill::StopWatchTsc swt;
  quill::StopWatchChrono swc;
  (void)swt.elapsed();
  (void)swc.elapsed();
}
} // namespace qv

// narrow position counters (the pinned suite itself uses uint8_t)
template class quill::detail::BoundedSPSCQueueImpl<uint32_t>;
template class quill::detail::BoundedSPSCQueueImpl<uint16_t>;
template class quill::detail::BoundedSPSCQueueImpl<uint8_t>;
template class quill::detail::BoundedSPSCQueueImpl<size_t>;
template class quill::RotatingSink<quill::FileSink>;
template class quill::RotatingSink<quill::JsonFileSink>;
