"""C13 — rendered time: table, width and rejection clauses only (DESIGN §4 C13)."""
import math
from qlib import (AnalysisBroken, strip, isnode, walk, is_call, norm_cmp, var_ref, is_null, const_val, short, call_obj,
                  expr_key, field_name, is_this_field)
from rules.common import (core_and_neg, tnode, other, cpos, npos, branches_on_call, in_subtree, need_some, straight_after)
from rules.c02 import cmp_sides as cmp_sides_

EXPLANATION = ("Timestamp formatter tables. R1 (fractional seconds, exhaustive over the AdditionalSpecifier enumerators): the "
               "specifier's name is '%' + enumerator name and specifier_length characters long, the constructor selects enumerator e "
               "exactly for specifier_name[e], the zero field appended for e has width w_e and the nanoseconds are divided by d_e with "
               "w_e + log10(d_e) = 9; the nanosecond remainder is ns - secs*1e9 with secs = ns/1e9; digits are copied right-aligned "
               "(size() - digits). R2 (hour/minute/second patching, exhaustive over the 7 modifiers): the modifier list used for "
               "splitting, the if-chain that records patch positions and the switch that patches agree on the same 7 letters; the "
               "recorded position (size() - w) matches the width of the fmt spec used to patch ({:02}/{:2} -> 2, {:10} -> 10); each "
               "case formats the confirmed quantity (H,k: hours; M: minutes; S: seconds; I,l: 12-hour form; s: the cached epoch); every "
               "modifier is two characters long (the splitter skips 2). R3: %X ends in a throw; a second distinct fractional "
               "specifier ends in a throw; a repeated one is rejected as well (the remainder after the first occurrence is searched) "
               "— the rule that found the pinned tree's defect. R4 (coherence of the strftime cache in StringFromTime::format_timestamp): "
               "a timestamp older than the cached one is rendered by a direct strftime of that timestamp and leaves the cache alone; the "
               "cache is rebuilt when timestamp >= next recalculation point (non-strict: the point itself starts the new period), "
               "cleared before it is repopulated from the current timestamp; every Timezone enumerator sets the next point, local time "
               "on a grid that divides 15 minutes (every UTC offset in use is a multiple of 15 minutes), GMT on noon/midnight; the "
               "elapsed seconds are taken against the cached timestamp before it is overwritten; the populate step converts the same "
               "timestamp with the conversion that matches the zone and caches hour*3600 + min*60 + sec."
               ' R4g: the next rebuild point is only ever assigned a freshly computed value. R6b: every recorded position is patched, unconditionally within its case. R7: gmtime_rs / localtime_rs / timegm delegate to the libc conversion of the same kind (no libc call at all: analysis broken). R8 (= C12.R7): options equality over every member.'
               " R3d/R3e: conversions that print the time of day outside the patched set (%c, %-H, %OS, %EX ...) are detected at init by a constexpr scanner — checked by a compile-time witness against an independent reference of strftime's conversion grammar — and such a pattern is rendered by strftime for every timestamp (or rejected); no cached text can be returned for it (found the tree's fifteenth defect)."
               " R5b: the constructor (or the member function it calls) splits the pattern around the fractional specifier: part 1 is initialised on every non-throwing path, with the whole pattern on 'no specifier' and with substr(0, begin) otherwise; part 2 starts at begin + length and is initialised, and flagged as present, exactly when it is not empty.")
TECHNIQUE = 'static analysis: custom checker over clang AST/CFG facts (table, width and cache-coherence rules) plus a compile-time witness (static_assert table of patterns evaluated by the compiler) for the constexpr conversion scanner'
NOT_DECIDED = ("Equality with strftime for every instant, zone and sequence as values (DST shifts, historical zone offsets that are not "
               "multiples of 15 minutes, the arithmetic of the hour/minute/second patching over all elapsed times): left to dynamic "
               "techniques. R4 decides the shape of the cache's state machine, not its output.")
EXHAUSTIVE = "the AdditionalSpecifier and format_type enumerators"
ASSUMPTIONS = []
TF = "quill::detail::TimestampFormatter"
SF = "quill::detail::StringFromTime"


def run(ctx):
    facts = ctx.facts("core.cpp", "A")
    r1(ctx, facts)
    r2(ctx, facts)
    r3(ctx, facts)
    r4(ctx, facts)
    r7_time_utilities(ctx, facts)
    r3_time_conversions_outside_the_cache(ctx, facts)
    # the formatter (time zone, timestamp pattern) a logger's lines are rendered with is its own: shared with C12.R7
    from rules import c12
    from rules.c09 import Renamed
    c12.r7_options_equality(Renamed(ctx, "C12.R7", "C13.R8"), facts)


def enum_const(n, prefix):
    for x in walk(n):
        if x["k"] == "DeclRefExpr" and x.get("dk") == "EnumConstant" and (prefix in x["name"] or prefix in x.get("ty", "")):
            return x["name"].split("::")[-1], x.get("cval")
    return None, None


def r1(ctx, facts):
    en = facts.enum(TF + "::AdditionalSpecifier", "A")
    sn = facts.var(TF + "::specifier_name", "A")
    sl = facts.var(TF + "::specifier_length", "A")
    if not en or not sn or not sl:
        raise AnalysisBroken("TimestampFormatter::AdditionalSpecifier / specifier_name / specifier_length not found")
    names = [x["str"] for x in walk(sn["init"]) if x["k"] == "StringLiteral"]
    slen = const_val(sl["init"])
    if slen is None:
        for x in walk(sl["init"]):
            if x["k"] == "IntegerLiteral":
                slen = x["val"]
    specs = [(n, v) for (n, v) in en["enumerators"] if n != "None"]
    ctx.floor("C13.R1", "fractional specifiers", len(specs), 3)
    ctx.ob("C13.R1a", "specifier_name:size", len(names) == len(en["enumerators"]),
           "one name per AdditionalSpecifier enumerator (%d names, %d enumerators)" % (len(names), len(en["enumerators"])), loc=sn["loc"])
    for (n, v) in specs:
        nm = names[v] if v < len(names) else None
        ctx.ob("C13.R1b", "specifier_name[%s]" % n, nm == "%" + n and len(nm or "") == slen,
               "specifier %s is spelled '%s' and is specifier_length (=%s) characters long" % (n, nm, slen), loc=sn["loc"])
    ctor = [f for f in facts.fns if f.config == "A" and f.cls == TF and f.rec.get("ctor") and f.rec.get("inits")]
    if not ctor:
        raise AnalysisBroken("TimestampFormatter constructor not found")
    c = ctor[0]
    g = c.g
    # constructor: find(specifier_name[e]) found -> _additional_format_specifier = e
    seen = {}
    inits = c.var_inits()
    for bid, b in g.blocks.items():
        cond = g.term_cond(bid)
        if cond is None:
            continue
        nc = norm_cmp(cond)
        if not (nc and nc[0] in ("==", "!=") and any(x["k"] == "DeclRefExpr" and x.get("name", "").endswith("npos") for x in walk(cond))):
            continue
        vs = [x.get("did") for x in walk(cond) if x["k"] == "DeclRefExpr" and x.get("dk") == "Var" and x.get("did") in inits]
        for v in vs:
            i = inits[v]
            finds = [x for x in walk(i) if is_call(x, r"basic_string<.*>::find$") and is_this_field(call_obj(x), "_time_format")]
            if not finds:
                continue
            idx = None
            for x in walk(finds[0]["args"][0]):
                if is_call(x, r"std::array<.*>::operator\[\]$") and len(x["args"]) > 1:
                    idx = const_val(x["args"][1])
            found_lab = "T" if nc[0] == "!=" else "F"
            body = g.reach([tnode(g, bid)], avoid_edges=[(bid, other(found_lab))])
            asg = [n for n in c.walk() if n["k"] == "BinaryOperator" and n["op"] == "=" and is_this_field(n["lhs"], "_additional_format_specifier")]
            mine = []
            for a in asg:
                ps = g.positions(a)
                if ps and all(p in body for p in ps) and not g.exists_path([g.entry_node], ps, avoid_edges=[(bid, found_lab)]):
                    mine.append(enum_const(a["rhs"], "AdditionalSpecifier")[1])
            seen[idx] = mine
    for (n, v) in specs:
        ctx.ob("C13.R1c", "TimestampFormatter::ctor:selects-%s" % n, seen.get(v) == [v],
               "finding specifier_name[%d] in the pattern selects enumerator %s (=%d): %s" % (v, n, v, seen.get(v)), fn=c)
    # format_timestamp: per specifier zero width and divisor
    f = facts.need(TF + "::format_timestamp", "A")[0]
    fg = f.g
    finits = f.var_inits()
    fdecls = f.var_decls()
    per = {}
    bases = set()
    arms = []       # (enumerator name, value, nodes evaluated for that specifier in order, sort key)
    for bid, b in fg.blocks.items():
        cond = fg.term_cond(bid)
        if cond is None:
            continue
        nc = norm_cmp(cond)
        if not (nc and nc[0] == "==" and any(is_this_field(x, "_additional_format_specifier") for x in walk(cond))):
            continue
        ename, ev = enum_const(cond, "AdditionalSpecifier")
        arms.append((ename, ev, [fg.node_ast(p) for p in straight_after(fg, bid, "T")], bid))
    # the same selection written as a switch over the specifier: one case per enumerator, each a block that ends in break / return
    for sw_ in [n for n in f.walk() if n["k"] == "SwitchStmt" and is_this_field(strip(n.get("cond"), casts=True), "_additional_format_specifier")]:
        for cs_ in [n for n in walk(sw_.get("body")) if n["k"] == "CaseStmt"]:
            ename, ev = enum_const(cs_.get("lhs"), "AdditionalSpecifier")
            sub = cs_.get("sub")
            kids = (sub.get("c") or sub.get("stmts") or []) if isnode(sub) and sub["k"] == "CompoundStmt" else None
            if isnode(sub) and sub["k"] in ("BreakStmt", "ReturnStmt"):
                continue        # a specifier without fractional digits
            if not kids or not (isnode(kids[-1]) and kids[-1]["k"] in ("BreakStmt", "ReturnStmt")):
                raise AnalysisBroken("TimestampFormatter::format_timestamp: a case of the specifier switch is not a block ending in break (%s): "
                                     "not decided" % cs_.get("loc"))
            arms.append((ename, ev, [x for x in walk(sub) if isnode(x) and x["k"] in ("CXXMemberCallExpr", "CallExpr", "CXXOperatorCallExpr")], 10 ** 6 + len(arms)))
    for (ename, ev, after, bid) in arms:
        width, div, wf = None, None, False
        for n in after:
            if is_call(n, r"::append\b") and is_this_field(call_obj(n), "_formatted_date") and not wf:
                v = var_ref(n["args"][0])
                src = fdecls.get(v, {}).get("init") if v is not None else n["args"][0]
                lits = [x for x in walk(src) if x["k"] == "StringLiteral"] if isnode(src) else []
                if lits:
                    width = lits[0]["len"] if set(lits[0]["str"]) <= {"0"} else -1
            if is_call(n, r"::_write_fractional_seconds$"):
                wf = True
                v = var_ref(n["args"][0])
                e = strip(finits.get(v), casts=True) if v in finits else strip(n["args"][0], casts=True)
                if isnode(e) and e["k"] == "BinaryOperator" and e["op"] == "/":
                    div = const_val(e["rhs"])
                    base = var_ref(e["lhs"])
                else:
                    div = 1
                    base = var_ref(e) if v is None else v
                bases.add(base)
        if wf:
            per.setdefault(ev, []).append((ename, width, div, bid))
    for (n, v) in specs:
        inst = per.get(v, [])
        if not inst:
            ctx.ob("C13.R1d", "format_timestamp:%s:width-divisor" % n, False, "no branch writes the fractional digits for %s" % n, fn=f)
        for k, (ename, width, div, bid) in enumerate(sorted(inst, key=lambda t: t[3])):
            site = "format_timestamp:%s:width-divisor" % n + ("" if len(inst) == 1 else "#%d" % k)
            if width is None:
                ctx.ob("C13.R1h", "format_timestamp:%s:zero-field-before-digits" % n + ("" if len(inst) == 1 else "#%d" % k), False,
                       "a branch for %s writes the fractional digits without first appending the zero field: the digits are right-aligned "
                       "over whatever the reused buffer still holds (a shorter fraction keeps the previous statement's leading digits)" % n, fn=f)
                continue
            ctx.ob("C13.R1h", "format_timestamp:%s:zero-field-before-digits" % n + ("" if len(inst) == 1 else "#%d" % k), True,
                   "the zero field is appended in the same branch before the digits of %s are right-aligned into it" % n, fn=f)
            ok = width > 0 and div is not None and div > 0 and \
                abs(math.log10(div) - round(math.log10(div))) < 1e-9 and width + round(math.log10(div)) == 9
            ctx.ob("C13.R1d", site, ok,
                   "for %s a zero field of width %s is appended and the nanoseconds are divided by %s: width + log10(divisor) must be 9" % (n, width, div), fn=f)
    ok = len(bases) == 1 and None not in bases
    if ok:
        e = strip(finits.get(list(bases)[0]), casts=True)
        ok = isnode(e) and e["k"] == "BinaryOperator" and e["op"] == "-"
        if ok:
            ns = var_ref(e["lhs"])
            m = strip(e["rhs"], casts=True)
            ok = isnode(m) and m["k"] == "BinaryOperator" and m["op"] == "*" and 1000000000 in (const_val(m["lhs"]), const_val(m["rhs"]))
            secs = var_ref(m["lhs"]) if const_val(m["rhs"]) == 1000000000 else var_ref(m["rhs"])
            se = strip(finits.get(secs), casts=True) if secs in finits else None
            ok = ok and isnode(se) and se["k"] == "BinaryOperator" and se["op"] == "/" and var_ref(se["lhs"]) == ns and const_val(se["rhs"]) == 1000000000
    ctx.ob("C13.R1e", "format_timestamp:nanosecond-remainder", ok,
           "the fraction is ns - (ns / 1e9) * 1e9 of the same timestamp whose seconds are handed to strftime", fn=f)
    # R1g: the reused date buffer is cleared before anything is appended for this timestamp
    g_ = f.g
    clr = npos(f, [c for c in f.calls(r"::clear$") if is_this_field(call_obj(c), "_formatted_date")])
    app = npos(f, [c for c in f.calls(r"::append\b") if is_this_field(call_obj(c), "_formatted_date")])
    ctx.ob("C13.R1g", "format_timestamp:buffer-cleared-first", bool(clr) and bool(app) and all(g_.dominates(clr, p) for p in app),
           "the cached output buffer is cleared on every path before the parts of this timestamp are appended (no stale text)", fn=f)
    # R5: composition of the rendered text: clear; part 1; [zero field + digits]; part 2 iff the pattern has one — all for the same second
    secs_v = None
    p1 = [c for c in f.calls(r"StringFromTime::format_timestamp$") if is_this_field(call_obj(c), "_strftime_part_1")]
    p2 = [c for c in f.calls(r"StringFromTime::format_timestamp$") if is_this_field(call_obj(c), "_strftime_part_2")]
    def appended(c):
        return [a for a in f.calls(r"::append\b") if is_this_field(call_obj(a), "_formatted_date") and in_subtree(c, a)]
    a1 = [a for c in p1 for a in appended(c)]
    a2 = [a for c in p2 for a in appended(c)]
    frac = npos(f, [c for c in f.calls(r"::_write_fractional_seconds$")])
    zero_app = [p for p in app if p not in npos(f, a1) and p not in npos(f, a2)]
    ok1 = len(p1) == 1 and len(a1) == 1 and not g_.exists_path([g_.entry_node], [g_.exit_node], avoid_nodes=npos(f, a1)) and \
        all(g_.dominates(npos(f, a1), q) for q in zero_app + frac + npos(f, a2)) and not g_.exists_path(zero_app + frac + npos(f, a2), npos(f, a1))
    hp2 = [(b, t) for (b, t, c) in [(bid, "F" if core_and_neg(g_.term_cond(bid))[1] else "T", 0) for bid in g_.blocks
                                    if g_.term_cond(bid) is not None and is_this_field(strip(core_and_neg(g_.term_cond(bid))[0], casts=True), "_has_format_part_2")]]
    ok2 = len(p2) == 1 and len(a2) == 1 and bool(hp2) and not g_.exists_path([g_.entry_node], npos(f, a2), avoid_edges=hp2) and \
        all(not g_.exists_path([tnode(g_, b)], [g_.exit_node], avoid_nodes=npos(f, a2), avoid_edges=[(b, other(l))]) for (b, l) in hp2) and \
        not g_.exists_path(npos(f, a2), zero_app + frac)
    same_sec = False
    if p1 and p2:
        v1, v2 = var_ref(p1[0]["args"][0]), var_ref(p2[0]["args"][0])
        same_sec = v1 is not None and v1 == v2 and v1 in finits
        if same_sec:
            e = strip(finits[v1], casts=True)
            same_sec = isnode(e) and e["k"] == "BinaryOperator" and e["op"] == "/" and const_val(e["rhs"]) == 1000000000
    rets = [g_.node_ast(r) for r in g_.return_nodes()]
    ret_ok = bool(rets) and all(any(is_call(x, r"::data$") and is_this_field(call_obj(x), "_formatted_date") for x in walk(r.get("val"))) and
                                any(is_call(x, r"::size$") and is_this_field(call_obj(x), "_formatted_date") for x in walk(r.get("val"))) for r in rets)
    ctx.ob("C13.R5a", "format_timestamp:composition", ok1 and ok2 and same_sec and ret_ok,
           "the text is: strftime part 1 (always, first: %s), the fractional field, strftime part 2 exactly when the pattern has one "
           "and last (%s), both parts for the same whole second = ns / 1e9 (%s); the result views the whole buffer (%s)" % (ok1, ok2, same_sec, ret_ok), fn=f)
    w = facts.need(TF + "::_write_fractional_seconds", "A")[0]
    mc = w.calls(r"^(std::)?memcpy$")
    ok = False

    def is_end_of_field(e):
        """size() of the date buffer, or a member that is only ever assigned that size() (in format_timestamp, after the zero append)"""
        if any(is_call(x, r"::size$") and is_this_field(call_obj(x), "_formatted_date") for x in walk(e)):
            return True
        e = strip(e, casts=True)
        fld = field_name(e) if isnode(e) and e["k"] == "MemberExpr" else None
        if not fld:
            return False
        asg = [a for fn_ in (f, w) for a in fn_.walk() if a["k"] == "BinaryOperator" and a["op"] == "=" and is_this_field(a["lhs"], fld)]
        return bool(asg) and all(is_call(strip(a["rhs"], casts=True), r"::size$") and is_this_field(call_obj(strip(a["rhs"], casts=True)), "_formatted_date")
                                 for a in asg)
    if mc:
        d = mc[0]["args"][0]
        idx = [x for x in walk(d) if is_call(x, r"operator\[\]")]
        if idx:
            e = strip(idx[0]["args"][1], casts=True)
            ok = isnode(e) and e["k"] == "BinaryOperator" and e["op"] == "-" and is_end_of_field(e["lhs"]) and \
                any(is_call(x, r"format_int::size$") for x in walk(e["rhs"])) and \
                any(is_call(x, r"format_int::size$") for x in walk(mc[0]["args"][2])) and any(is_call(x, r"format_int::data$") for x in walk(mc[0]["args"][1]))
    ctx.ob("C13.R1f", "_write_fractional_seconds:right-aligned", ok,
           "the digits overwrite the tail of the zero field: destination = end of the field - number of digits, length = number of digits", fn=w)


def r2(ctx, facts):
    en = facts.enum(SF + "::format_type", "A")
    if not en:
        raise AnalysisBroken("StringFromTime::format_type not found")
    letters = [n for (n, v) in en["enumerators"]]
    sp = facts.need(SF + "::_split_timestamp_format_once", "A")[0]
    mods = []
    for d in sp.var_decls().values():
        if d.get("name") == "modifiers" or "array<std::" in d.get("ty", ""):
            if isnode(d.get("init")):
                mods = [x["str"] for x in walk(d["init"]) if x["k"] == "StringLiteral"]
                if mods:
                    break
    ctx.ob("C13.R2a", "modifiers:same-set", sorted(mods) == sorted("%" + l for l in letters) and all(len(m) == 2 for m in mods),
           "the splitter's modifier list %s is exactly '%%' + each format_type enumerator %s, two characters each (the splitter skips 2)" % (mods, letters), fn=sp)
    skip = [n for n in sp.walk() if n["k"] == "BinaryOperator" and n["op"] == "+" and const_val(n["rhs"]) == 2]
    ctx.ob("C13.R2b", "_split_timestamp_format_once:skips-modifier-length", bool(skip),
           "the remainder starts 2 characters after the modifier found", fn=sp)
    pp = facts.need(SF + "::_populate_pre_formatted_string_and_cached_indexes", "A")[0]
    rec = {}
    for n in pp.walk():
        if n["k"] == "IfStmt":
            lits = [x["str"] for x in walk(n["cond"]) if x["k"] == "StringLiteral"]
            if len(lits) != 1:
                continue
            for c in [x for x in walk(n["then"]) if is_call(x, r"std::vector<std::pair<.*>::emplace_back")]:
                ename, ev = enum_const(c, "format_type")
                e = strip(c["args"][0], casts=True)
                w = const_val(e["rhs"]) if isnode(e) and e["k"] == "BinaryOperator" and e["op"] == "-" and \
                    any(is_call(x, r"basic_string<.*>::size$") and is_this_field(call_obj(x), "_pre_formatted_ts") for x in walk(e["lhs"])) else None
                rec[lits[0]] = (ename, w)
                break
    ft = facts.need(SF + "::format_timestamp", "A")[0]
    finits = ft.var_inits()
    cases = {}
    for n in ft.walk():
        if n["k"] == "CaseStmt":
            ename, ev = enum_const(n.get("lhs"), "format_type")
            calls = [x for x in walk(n.get("sub")) if is_call(x, r"^fmtquill::(v\d+::)?format_to")]
            if not calls:
                continue
            c = calls[0]
            spec = [x["str"] for x in walk(c["args"][1]) if x["k"] == "StringLiteral"]
            val = c["args"][2] if len(c["args"]) > 2 else None
            idx_ok = any(is_call(x, r"basic_string<.*>::operator\[\]$") and is_this_field(call_obj(x), "_pre_formatted_ts") and
                         any(y["k"] == "MemberExpr" and y.get("mname") == "first" for y in walk(x)) for x in walk(c["args"][0]))
            cases[ename] = (spec[0] if spec else None, val, idx_ok)
    sw = [n for n in ft.walk() if n["k"] == "SwitchStmt"]
    sw_ok = bool(sw) and any(x["k"] == "MemberExpr" and x.get("mname") == "second" for x in walk(sw[0]["cond"]))
    quantity = {"H": "hours", "k": "hours", "M": "minutes", "S": "seconds", "I": "hours12", "l": "hours12", "s": "epoch"}
    finits_seconds = set()
    # which locals are hours / minutes / seconds: by their defining arithmetic
    def classify(val):
        v = var_ref(val)
        if v is not None and v in finits:
            e = strip(finits[v], casts=True)
            if isnode(e) and e["k"] == "BinaryOperator" and e["op"] == "/" and const_val(e["rhs"]) == 3600:
                return "hours"
            if isnode(e) and e["k"] == "BinaryOperator" and e["op"] == "/" and const_val(e["rhs"]) == 60:
                return "minutes"
            if var_ref(e) is not None:
                return "seconds"  # remainder after hours and minutes were subtracted
            while isnode(e) and e["k"] == "ParenExpr":
                e = strip(e.get("sub") or (e.get("c") or [None])[0], casts=True)
            if isnode(e) and e["k"] == "ConditionalOperator" and not ft.assignments_to_var(v):
                return "hours12" if twelve_hour_form(e) else "?"     # the 12-hour value held in a local computed once
        if is_this_field(strip(val, casts=True), "_cached_timestamp"):
            return "epoch"
        s = strip(val, casts=True)
        if isnode(s) and s["k"] == "ConditionalOperator":
            return "hours12" if twelve_hour_form(s) else "?"
        return "?"

    def is_hours(e):
        v = var_ref(e)
        return v is not None and classify({"k": "DeclRefExpr", "dk": "Var", "did": v, "name": "", "id": -1}) == "hours"

    def twelve_hour_form(c):
        """h == 0 ? 12 : (h > 12 ? h - 12 : h)   (or the mirrored tests), or h % 12 == 0 ? 12 : h % 12 — the strftime %I / %l value"""
        def mod12(e):
            e = strip(e, casts=True)
            return isnode(e) and e["k"] == "BinaryOperator" and e["op"] == "%" and is_hours(e["lhs"]) and const_val(e["rhs"]) == 12
        def eq0(e):  # returns 'T' / 'F' = the outcome on which the operand is zero, and the operand
            e = strip(e, casts=True)
            if isnode(e) and e["k"] == "BinaryOperator" and e["op"] in ("==", "!="):
                for a, b in ((e["lhs"], e["rhs"]), (e["rhs"], e["lhs"])):
                    if const_val(b) == 0:
                        return ("T" if e["op"] == "==" else "F"), a
            return None, None
        lab, subj = eq0(c.get("cond"))
        if lab is None:
            return False
        zero_arm, rest = (c.get("then"), c.get("else")) if lab == "T" else (c.get("else"), c.get("then"))
        if const_val(zero_arm) != 12:
            return False
        rest = strip(rest, casts=True)
        if mod12(subj):
            return mod12(rest)
        if not is_hours(subj):
            return False
        if not (isnode(rest) and rest["k"] == "ConditionalOperator"):
            return False
        cs = cmp_sides_(rest.get("cond"))
        if not cs:
            return False
        op, a, b = cs  # a op b with op in < <=
        t_, e_ = strip(rest.get("then"), casts=True), strip(rest.get("else"), casts=True)
        def minus12(e):
            return isnode(e) and e["k"] == "BinaryOperator" and e["op"] == "-" and is_hours(e["lhs"]) and const_val(e["rhs"]) == 12
        # 12 < h ? h - 12 : h        |  h <= 12 ? h : h - 12   |  13 <= h ? h - 12 : h   |  h < 13 ? h : h - 12
        if is_hours(b) and ((op == "<" and const_val(a) == 12) or (op == "<=" and const_val(a) == 13)):
            return minus12(t_) and is_hours(e_)
        if is_hours(a) and ((op == "<=" and const_val(b) == 12) or (op == "<" and const_val(b) == 13)):
            return is_hours(t_) and minus12(e_)
        return False

    for l in letters:
        r = rec.get("%" + l)
        c = cases.get(l)
        ok = r is not None and c is not None and r[0] == l and sw_ok
        why = "recorded by the '%%%s' test as %s" % (l, r)
        if ok:
            spec, val, idx_ok = c
            m = __import__("re").match(r"^\{:0?(\d+)\}$", spec or "")
            wspec = int(m.group(1)) if m else None
            q = classify(val)
            ok = wspec is not None and wspec == r[1] and q == quantity.get(l) and idx_ok
            why = "position size()-%s recorded for '%%%s'; patched with '%s' (width %s) from %s at the recorded index" % (r[1], l, spec, wspec, q)
        ctx.ob("C13.R2c", "format_type::%s" % l, ok, "modifier %%%s: %s (expected quantity: %s)" % (l, why, quantity.get(l)), fn=ft)
    ctx.floor("C13.R2c", "format_type enumerators", len(letters), 7)
    # hours/minutes/seconds decomposition of the cached seconds
    names = {classify({"k": "DeclRefExpr", "dk": "Var", "did": v, "name": "", "id": -1}) for v in finits}
    # the chain T := cached seconds; hours = T/3600; T -= hours*3600; minutes = T/60; T -= minutes*60; seconds = T — in this order
    fg = ft.g
    chain_ok, why = False, "decomposition not recognised"
    hv = [v for v in finits if isnode(strip(finits[v], casts=True)) and strip(finits[v], casts=True)["k"] == "BinaryOperator" and
          strip(finits[v], casts=True)["op"] == "/" and const_val(strip(finits[v], casts=True)["rhs"]) == 3600]
    mv = [v for v in finits if isnode(strip(finits[v], casts=True)) and strip(finits[v], casts=True)["k"] == "BinaryOperator" and
          strip(finits[v], casts=True)["op"] == "/" and const_val(strip(finits[v], casts=True)["rhs"]) == 60]
    if len(hv) == 1 and len(mv) == 1:
        T = var_ref(strip(finits[hv[0]], casts=True)["lhs"])
        same_T = T is not None and var_ref(strip(finits[mv[0]], casts=True)["lhs"]) == T
        t_init = is_this_field(strip(finits.get(T), casts=True), "_cached_seconds") if T in finits else False
        subs = [n for n in ft.walk() if n["k"] == "CompoundAssignOperator" and n["op"] == "-=" and var_ref(n["lhs"]) == T]
        def prod(n, v, k):
            r = strip(n["rhs"], casts=True)
            return isnode(r) and r["k"] == "BinaryOperator" and r["op"] == "*" and \
                ((var_ref(r["lhs"]) == v and const_val(r["rhs"]) == k) or (var_ref(r["rhs"]) == v and const_val(r["lhs"]) == k))
        sub_h = [n for n in subs if prod(n, hv[0], 3600)]
        sub_m = [n for n in subs if prod(n, mv[0], 60)]
        sv = [v for v in finits if v not in (T,) and var_ref(finits[v]) == T]
        dpos = lambda v: fg.pos_of(lambda n: isnode(n) and n.get("k") in ("Var", "DeclStmt") and (n.get("did") == v or any(d.get("did") == v for d in n.get("decls") or [])))
        if same_T and t_init and len(subs) == 2 and len(sub_h) == 1 and len(sub_m) == 1 and len(sv) == 1:
            seq = [dpos(T), dpos(hv[0]), fg.positions(sub_h[0]), dpos(mv[0]), fg.positions(sub_m[0]), dpos(sv[0])]
            chain_ok = all(seq) and all(all(fg.dominates(seq[i], q) for q in seq[i + 1]) and not fg.exists_path(seq[i + 1], seq[i]) for i in range(len(seq) - 1))
            why = "T = cached seconds of day; hours = T/3600; T -= hours*3600; minutes = T/60; T -= minutes*60; seconds = T, in this order: %s" % chain_ok
            # the three results are what the cases print: 'seconds' is the variable bound last
            if chain_ok:
                finits_seconds.add(sv[0])
        else:
            why = "same running total: %s, starts from _cached_seconds: %s, remainder steps: %d (hours*3600: %d, minutes*60: %d), seconds = remainder: %d" % (
                same_T, t_init, len(subs), len(sub_h), len(sub_m), len(sv))
    ctx.ob("C13.R2d", "format_timestamp:hms-decomposition", {"hours", "minutes"} <= names and chain_ok,
           "hours, minutes and seconds are the successive quotients/remainder of the cached seconds-of-day (%s)" % why, fn=ft)
    # R6a: between the rebuild and the incremental update only two early exits exist: nothing to patch, and the same second again
    upd = npos(ft, [a for a in ft.walk() if a["k"] == "CompoundAssignOperator" and a["op"] == "+=" and is_this_field(a["lhs"], "_cached_seconds")])
    ts = ft.rec["params"][0]["did"]
    allowed = []
    for bid, b in fg.blocks.items():
        c = fg.term_cond(bid)
        if c is None:
            continue
        core, neg = core_and_neg(c)
        cs_ = strip(core, casts=True)
        if is_call(cs_, r"std::vector<.*>::empty$") and is_this_field(call_obj(cs_), "_cached_indexes"):
            allowed.append((bid, "F" if neg else "T"))
        nc = norm_cmp(c)
        if nc and nc[0] in ("==", "!=") and {nc[1], nc[2]} == {"v%d" % ts, "this._cached_timestamp"}:
            allowed.append((bid, "T" if nc[0] == "==" else "F"))
        if nc and nc[0] in ("<", "<=") and nc[1] == "v%d" % ts and nc[2] == "this._cached_timestamp" and nc[0] == "<":
            allowed.append((bid, "T"))  # the backwards guard (C13.R4a)
            # ... and whatever else is or-ed with it (a pattern that is never cached, R3d): tests whose outcome leads to the same block
            tgt_ = [y for (y, l2) in fg.succ.get(tnode(fg, bid), ()) if l2 == "T"]
            for b2 in fg.blocks:
                for (y, l2) in fg.succ.get(tnode(fg, b2), ()):
                    if y in tgt_ and l2 in ("T", "F") and (b2, l2) not in allowed and b2 != bid:
                        allowed.append((b2, l2))
    rets = fg.return_nodes()
    ok = bool(upd) and len(allowed) >= 3 and not fg.exists_path([fg.entry_node], rets, avoid_nodes=upd, avoid_edges=allowed) and \
        all(not fg.exists_path([tnode(fg, b)], upd, avoid_edges=[(b, other(l))]) for (b, l) in allowed)
    ctx.ob("C13.R6a", "StringFromTime::format_timestamp:no-stale-return", ok,
           "the cached string is returned without the incremental hour/minute/second update only when the timestamp went backwards "
           "(fallback), when the pattern has nothing to patch (_cached_indexes.empty()) or when the second is the cached one "
           "(%d such exits); every other path applies the update" % len(allowed), fn=ft)
    # R6b: every recorded position is patched: the loop runs over all of _cached_indexes without leaving early
    loops = [n for n in ft.walk() if n["k"] == "CXXForRangeStmt" and is_this_field(strip(n.get("range")), "_cached_indexes")]
    if not loops:
        from rules.common import other_loop_over
        other_loop_over(ft, "_cached_indexes", "StringFromTime::format_timestamp")
    early = [x for lp in loops for x in walk(lp.get("body")) if x["k"] in ("ReturnStmt", "GotoStmt", "ContinueStmt")]
    sw_breaks_only = all(any(a["k"] == "SwitchStmt" for a in ft.ancestors(x)) for lp in loops for x in walk(lp.get("body")) if x["k"] == "BreakStmt")
    lp_pos = [p for lp in loops for p in fg.positions(lp.get("body"))] if False else None
    after_upd = bool(loops) and bool(upd) and all(not fg.exists_path([fg.entry_node], fg.positions(c_), avoid_nodes=upd)
                                                  for c_ in ft.calls(r"^fmtquill::(v\d+::)?format_to"))
    # ... and unconditionally: within its case a position is written whatever was written the last time (the text under the position may
    # have been rebuilt by strftime in between, so 'same value as last time' does not mean 'already there')
    cond_patch = []
    for lp in loops:
        for c_ in ft.calls(r"^fmtquill::(v\d+::)?format_to"):
            if not in_subtree(c_, lp.get("body")):
                continue
            for a in ft.ancestors(c_):
                if a["k"] == "SwitchStmt" or a is lp:
                    break
                if a["k"] in ("IfStmt", "ConditionalOperator", "WhileStmt", "ForStmt"):
                    cond_patch.append(c_["loc"])
                    break
    ctx.ob("C13.R6b", "StringFromTime::format_timestamp:all-positions-patched", bool(loops) and not early and sw_breaks_only and after_upd and not cond_patch,
           "every recorded position is patched after the cached time of day was advanced (range-for over _cached_indexes, no early "
           "exit, 'break' only inside the switch), and within its case unconditionally (conditional patches: %s)" % (cond_patch or "none"), fn=ft)


def r3(ctx, facts):
    init = facts.need(SF + "::init", "A")[0]
    g = init.g
    throws = g.pos_of(lambda n: isnode(n) and n.get("k") == "CXXThrowExpr")
    ok = False
    for bid, b in g.blocks.items():
        c = g.term_cond(bid)
        if c is None:
            continue
        nc = norm_cmp(c)
        if nc and nc[0] in ("==", "!=") and any(x["k"] == "StringLiteral" and x.get("str") == "%X" for x in walk(c)) and \
                any(is_call(x, r"basic_string<.*>::find$") for x in walk(c)):
            lab = "T" if nc[0] == "!=" else "F"
            after = straight_after(g, bid, lab)
            parts = cpos(init, r"::_populate_initial_parts$")
            ok = any(p in throws for p in after) and not g.exists_path([tnode(g, bid)], parts, avoid_edges=[(bid, other(lab))])
    ctx.ob("C13.R3a", "StringFromTime::init:%X-rejected", ok, "a pattern containing %X ends in a throw before anything is cached", fn=init)
    ctor = [f for f in facts.fns if f.config == "A" and f.cls == TF and f.rec.get("ctor") and f.rec.get("inits")][0]
    cg = ctor.g
    throws = cg.pos_of(lambda n: isnode(n) and n.get("k") == "CXXThrowExpr")
    asg = [n for n in ctor.walk() if n["k"] == "BinaryOperator" and n["op"] == "=" and is_this_field(n["lhs"], "_additional_format_specifier")]
    # every selection after the first is preceded by a test 'one was already found' whose positive outcome throws
    order = sorted(asg, key=lambda n: int(n["loc"].split(":")[1]))
    ok = len(order) >= 3
    for a in order[1:]:
        ap = cg.positions(a)
        guarded = False
        for bid, b in cg.blocks.items():
            c = cg.term_cond(bid)
            if c is None:
                continue
            nc = norm_cmp(c)
            if nc and nc[0] in ("==", "!=") and any(x["k"] == "DeclRefExpr" and x.get("name", "").endswith("npos") for x in walk(c)) and \
                    not any(is_call(x) for x in walk(c) if x["k"] != "CXXOperatorCallExpr"):
                lab = "T" if nc[0] == "!=" else "F"  # already found
                if any(p in throws for p in straight_after(cg, bid, lab)) and all(cg.dominates([tnode(cg, bid)], p) for p in ap) and \
                        not cg.exists_path([tnode(cg, bid)], ap, avoid_edges=[(bid, other(lab))]):
                    # the test must come after the previous selection could have happened
                    guarded = True
        ok = ok and guarded
    ctx.ob("C13.R3b", "TimestampFormatter::ctor:distinct-specifiers-rejected", ok,
           "selecting a second (different) fractional specifier is preceded by a test 'one was already found' that throws", fn=ctor)
    # repeated specifier: the remainder handed to the second strftime part is searched for a specifier; a hit throws
    p2 = [c for c in ctor.calls(r"StringFromTime::init$") if is_this_field(call_obj(c), "_strftime_part_2")]
    ok = False
    host = ctor
    if not p2:
        # the split of the pattern may live in a member function the constructor calls (a helper extracted from it)
        called = set(short(c.get("callee") or "") for c in ctor.calls())
        for hf in facts.fns:
            if hf.config == "A" and hf.cls == TF and not hf.rec.get("ctor") and short(hf.name) in called:
                hp = [c for c in hf.calls(r"StringFromTime::init$") if is_this_field(call_obj(c), "_strftime_part_2")]
                if hp:
                    p2, host = hp, hf
                    break
    if p2:
        ctor_, cg_, throws_ = ctor, cg, throws
        ctor = host
        cg = host.g
        throws = cg.pos_of(lambda n: isnode(n) and n.get("k") == "CXXThrowExpr")
        pv = var_ref(p2[0]["args"][0])
        pp = cg.positions(p2[0])
        for bid, b in cg.blocks.items():
            c = cg.term_cond(bid)
            if c is None:
                continue
            nc = norm_cmp(c)
            finds = [x for x in walk(c) if is_call(x, r"basic_string<.*>::(find|rfind)$")]
            if not (nc and nc[0] in ("==", "!=") and finds):
                continue
            fc = finds[0]
            on_rest = (var_ref(call_obj(fc)) == pv and pv is not None) or (is_this_field(call_obj(fc), "_time_format") and len(fc["args"]) >= 2 and
                                                                           not (isnode(strip(fc["args"][1])) and strip(fc["args"][1])["k"] == "CXXDefaultArgExpr") and const_val(fc["args"][1]) != 0)
            about_spec = any(x["k"] == "DeclRefExpr" and x.get("name", "").endswith("specifier_name") for x in walk(fc)) or \
                any(x["k"] == "StringLiteral" and x.get("str", "").startswith("%Q") for x in walk(fc))
            if on_rest and about_spec:
                lab = "T" if nc[0] == "!=" else "F"
                if any(p in throws for p in straight_after(cg, bid, lab)) and not cg.exists_path([cg.entry_node], pp, avoid_edges=[(bid, other(lab))]):
                    ok = True
    # R5b: how the pattern is split around the fractional specifier (in the constructor or the member function it calls, `host`): part 1 is
    # initialised on every path that does not throw — with the whole pattern when no specifier was found, else with substr(0, begin);
    # part 2 is the text behind the specifier (substr(begin + length, ...)), initialised exactly when it is not empty, and the flag that
    # makes format_timestamp append it is set to true exactly there
    hg = host.g
    hthrows = hg.pos_of(lambda n: isnode(n) and n.get("k") == "CXXThrowExpr")
    p1 = [c for c in host.calls(r"StringFromTime::init$") if is_this_field(call_obj(c), "_strftime_part_1")]
    p1p = npos(host, p1)
    every = bool(p1p) and not hg.exists_path([hg.entry_node], [hg.exit_node], avoid_nodes=p1p + hthrows)
    hin = host.var_inits()
    def _sub_args(e):
        for x in walk(e if isnode(e) else {}):
            if is_call(x, r"basic_string<.*>::substr$") and is_this_field(call_obj(x), "_time_format"):
                return [a for a in x["args"] if not (isnode(a) and a["k"] == "CXXDefaultArgExpr")]
        return None
    whole = [c for c in p1 if is_this_field(strip(c["args"][0], casts=True), "_time_format")]
    cut = [c for c in p1 if var_ref(c["args"][0]) is not None and _sub_args(hin.get(var_ref(c["args"][0]))) is not None]
    cut_ok = bool(cut) and all(const_val(_sub_args(hin[var_ref(c["args"][0])])[0]) == 0 and len(_sub_args(hin[var_ref(c["args"][0])])) == 2 for c in cut)
    # the begin index: what part 1 is cut at is what part 2 starts behind
    begin_keys = set(expr_key(_sub_args(hin[var_ref(c["args"][0])])[1]) for c in cut) if cut_ok else set()
    p2_ok = False
    flag_ok = False
    if p2 and var_ref(p2[0]["args"][0]) is not None:
        a2 = _sub_args(hin.get(var_ref(p2[0]["args"][0])))
        if a2:
            st = strip(a2[0], casts=True)
            stv = var_ref(st)
            st_e = strip(hin.get(stv), casts=True) if stv is not None and isnode(hin.get(stv)) else st
            p2_ok = isnode(st_e) and st_e["k"] == "BinaryOperator" and st_e["op"] == "+" and \
                (expr_key(st_e["lhs"]) in begin_keys or expr_key(st_e["rhs"]) in begin_keys)
        flags = [n for n in host.walk() if n["k"] == "BinaryOperator" and n["op"] == "=" and is_this_field(n["lhs"], "_has_format_part_2")]
        fpos = npos(host, flags)
        pp2 = hg.positions(p2[0])
        empt = []
        for bid in hg.blocks:
            c = hg.term_cond(bid)
            if c is None:
                continue
            core, neg = core_and_neg(c)
            cs_ = strip(core, casts=True)
            if is_call(cs_, r"basic_string<.*>::empty$") and var_ref(call_obj(cs_)) == var_ref(p2[0]["args"][0]):
                empt.append((bid, "T" if neg else "F"))       # label of 'not empty'
        flag_ok = bool(flags) and all(const_val(n["rhs"]) == 1 for n in flags) and bool(empt) and \
            not hg.exists_path([hg.entry_node], pp2 + fpos, avoid_edges=empt) and \
            all(not hg.exists_path([y for (y, l2) in hg.succ.get(tnode(hg, b), ()) if l2 == l], [hg.exit_node], avoid_nodes=fpos + hthrows) and
                not hg.exists_path([y for (y, l2) in hg.succ.get(tnode(hg, b), ()) if l2 == l], [hg.exit_node], avoid_nodes=pp2 + hthrows) for (b, l) in empt)
    # ... the whole pattern on the 'no specifier found' outcome (begin == npos), the cut on the other
    arm_ok = False
    for bid in hg.blocks:
        c = hg.term_cond(bid)
        nc = norm_cmp(c) if c is not None else None
        if nc and nc[0] in ("==", "!=") and (nc[1] in begin_keys or nc[2] in begin_keys) and \
                any(x["k"] == "DeclRefExpr" and x.get("name", "").endswith("npos") for x in walk(c)):
            none_lab = "T" if nc[0] == "==" else "F"
            arm_ok = arm_ok or (bool(whole) and bool(cut) and
                                not hg.exists_path([hg.entry_node], npos(host, whole), avoid_edges=[(bid, none_lab)]) and
                                not hg.exists_path([hg.entry_node], npos(host, cut), avoid_edges=[(bid, other(none_lab))]))
    ctx.ob("C13.R5b", "TimestampFormatter::ctor:pattern-split-around-the-specifier", every and bool(whole) and cut_ok and p2_ok and flag_ok and arm_ok,
           "part 1 is initialised on every path that does not throw (%s), with the whole pattern or with substr(0, begin) (%s, %s); part 2 starts "
           "behind the specifier at begin + length (%s) and is initialised, and flagged as present, exactly when it is not empty (%s)"
           % (every, bool(whole), cut_ok, p2_ok, flag_ok), fn=host)
    if p2:
        ctor, cg, throws = ctor_, cg_, throws_
    ctx.ob("C13.R3c", "TimestampFormatter::ctor:repeated-specifier-rejected", ok,
           "the part of the pattern after the fractional specifier is searched for a further fractional specifier and a hit throws: "
           "nothing reaches strftime as a raw '%Q..' (a repeated specifier is 'more than one')", fn=host)


def _literals_through(facts, fn, depth=2):
    out = [x["val"] for x in fn.walk() if x["k"] == "IntegerLiteral"]
    if depth > 0:
        for c in fn.calls():
            cs = short(c.get("callee") or "")
            if cs.startswith(SF + "::"):
                for g_ in facts.fn_re("^" + __import__("re").escape(cs) + "$", "A")[:1]:
                    out += _literals_through(facts, g_, depth - 1)
    return out


def r4(ctx, facts):
    f = facts.need(SF + "::format_timestamp", "A")[0]
    g = f.g
    ts = f.rec["params"][0]["did"]
    tkey = "v%d" % ts
    back = recalc = None
    zone = {}
    for bid, b in g.blocks.items():
        c = g.term_cond(bid)
        nc = norm_cmp(c) if c is not None else None
        if not nc:
            continue
        if nc[0] in ("<", "<=") and {nc[1], nc[2]} == {tkey, "this._cached_timestamp"}:
            back = (bid, nc)
        if nc[0] in ("<", "<=") and {nc[1], nc[2]} == {tkey, "this._next_recalculation_timestamp"}:
            recalc = (bid, nc)
        if nc[0] == "==" and nc[2] == "this._time_zone" and nc[1].startswith("quill::Timezone::"):
            zone[nc[1].split("::")[-1]] = bid
    if not back or not recalc:
        raise AnalysisBroken("StringFromTime::format_timestamp: backwards guard / recalculation guard not found")
    # R4a: backwards timestamps
    bid, nc = back
    lab = "T" if (nc[0] == "<" and nc[1] == tkey) else None
    ok = lab is not None
    why = "guard is 'timestamp < cached'"
    if ok:
        # the guard may be one operand of a disjunction ('went backwards' || 'this pattern is never cached'): every test whose outcome
        # leads to the same block belongs to it
        tgt = [y for (y, l2) in g.succ.get(tnode(g, bid), ()) if l2 == lab]
        chain = [(b2, l2) for b2 in g.blocks for (y, l2) in g.succ.get(tnode(g, b2), ()) if y in tgt and l2 in ("T", "F")]
        reg = set(g.reach(tgt, include_src=True))
        only = set(g.reach([g.entry_node], avoid_edges=chain, include_src=True))
        excl = [p for p in reg if p not in only]
        st = [n for n in f.calls(r"::_safe_strftime$") if any(p in excl for p in g.positions(n))]
        arg_ok = bool(st) and all(var_ref(n["args"][1]) == ts for n in st)
        writes = [a for a in f.walk() if ((a["k"] in ("BinaryOperator", "CompoundAssignOperator") and a.get("op", "").endswith("=") and a.get("op") not in ("==", "!=", "<=", ">=")
                                           and isnode(a.get("lhs")) and field_name(a["lhs"]) in ("_cached_timestamp", "_cached_seconds", "_next_recalculation_timestamp"))
                                          or (is_call(a) and is_this_field(call_obj(a), "_pre_formatted_ts") and not (a.get("sig") or "").rstrip().endswith("const")))
                  and any(p in excl for p in g.positions(a))]
        dom = all(g.dominates([tnode(g, bid)], p) for p in npos(f, [a for a in f.walk() if a["k"] == "CompoundAssignOperator" and is_this_field(a.get("lhs"), "_cached_seconds")]))
        ok = arg_ok and not writes and dom
        why = "direct strftime of the given timestamp: %s, cache untouched on that arm: %s, guard precedes the incremental update: %s" % (arg_ok, not writes, dom)
    ctx.ob("C13.R4a", "StringFromTime::format_timestamp:backwards-timestamp", ok,
           "a timestamp older than the cached one is rendered by strftime directly and does not disturb the cache (%s)" % why, fn=f)
    # R4b: recalculation guard non-strict, clear before populate, populate from the current timestamp
    bid, nc = recalc
    nonstrict = (nc[0] == "<=" and nc[1] == "this._next_recalculation_timestamp")
    lab = "T" if (nc[1] == "this._next_recalculation_timestamp") else "F"
    ctx.ob("C13.R4b", "StringFromTime::format_timestamp:recalculate-at-the-point", nonstrict,
           "the cache is rebuilt when timestamp >= the recalculation point (the point is the first second of the new period; "
           "normalised test: %s %s %s)" % (nc[1].replace(tkey, "timestamp"), nc[0], nc[2].replace(tkey, "timestamp")), fn=f)
    reg = set(g.reach([tnode(g, bid)], avoid_edges=[(bid, other(lab))])) - set(g.reach([tnode(g, bid)], avoid_edges=[(bid, lab)]))
    pop = [n for n in f.calls(r"::_populate_pre_formatted_string_and_cached_indexes$")]
    pp = npos(f, pop)
    clr1 = npos(f, [c for c in f.calls(r"::clear$") if is_this_field(call_obj(c), "_pre_formatted_ts")])
    clr2 = npos(f, [c for c in f.calls(r"::clear$") if is_this_field(call_obj(c), "_cached_indexes")])
    ok = bool(pp) and all(p in reg for p in pp) and bool(clr1) and bool(clr2) and all(g.dominates(clr1, p) and g.dominates(clr2, p) for p in pp) and \
        all(var_ref(n["args"][0]) == ts for n in pop) and not g.exists_path([tnode(g, bid)], [g.exit_node], avoid_nodes=pp, avoid_edges=[(bid, other(lab))])
    ctx.ob("C13.R4c", "StringFromTime::format_timestamp:rebuild", ok,
           "on the recalculation arm the pre-formatted string and the patch positions are cleared, then repopulated from the current "
           "timestamp, on every path", fn=f)
    # R4d: every zone sets the next point
    en = facts.enum("quill::Timezone", "A")
    if not en:
        raise AnalysisBroken("quill::Timezone not found")
    asg = [a for a in f.walk() if a["k"] == "BinaryOperator" and a["op"] == "=" and is_this_field(a["lhs"], "_next_recalculation_timestamp")]
    ctx.floor("C13.R4d", "Timezone enumerators", len(en["enumerators"]), 2)
    for (zn, zv) in en["enumerators"]:
        zb = zone.get(zn)
        mine = []
        if zb is not None:
            zr = set(g.reach([tnode(g, zb)], avoid_edges=[(zb, "F")])) - set(g.reach([tnode(g, zb)], avoid_edges=[(zb, "T")]))
            mine = [a for a in asg if any(p in zr for p in g.positions(a)) and all(p in reg for p in g.positions(a))]
        ok = len(mine) == 1
        grid = None
        if ok:
            call = strip(mine[0]["rhs"], casts=True)
            ok = is_call(call) and any(var_ref(x) == ts for x in call["args"])
            if ok:
                cs = short(call["callee"])
                cal = facts.fn_re("^" + __import__("re").escape(cs) + "$", "A")
                if not cal:
                    raise AnalysisBroken("callee %s of the recalculation point not analysed" % cs)
                lits = _literals_through(facts, cal[0])
                ops = set(x.get("op") for c_ in [cal[0]] + [h for cc in cal[0].calls() for h in facts.fn_re("^" + __import__("re").escape(short(cc.get("callee") or "")) + "$", "A")[:1]
                                                             if short(cc.get("callee") or "").startswith(SF + "::")]
                          for x in c_.walk() if x["k"] == "BinaryOperator")
                period = 900 if zn == "LocalTime" else 43200
                if lits and len(set(lits)) == 1 and {"/", "*", "+"} <= ops:
                    grid = lits[0]
                    ok = grid > 0 and period % grid == 0
                    why = "next multiple of %d s; must divide %d s" % (grid, period)
                elif zn != "LocalTime" and any(is_call(x, r"gmtime_rs$") for x in cal[0].walk()):
                    # calendar form: tm_hour < 12 ? 11:59:59 : 23:59:59, + 1 s, converted back with timegm
                    hours = sorted(const_val(a["rhs"]) for a in cal[0].walk() if a["k"] == "BinaryOperator" and a["op"] == "=" and
                                   isnode(a["lhs"]) and strip(a["lhs"]).get("mname") == "tm_hour")
                    mins = set(const_val(a["rhs"]) for a in cal[0].walk() if a["k"] == "BinaryOperator" and a["op"] == "=" and
                               isnode(a["lhs"]) and strip(a["lhs"]).get("mname") in ("tm_min", "tm_sec"))
                    cmp12 = any((norm_cmp(x) or (None,))[0] == "<" and "12" in (norm_cmp(x)[1], norm_cmp(x)[2]) for x in cal[0].walk() if x["k"] == "BinaryOperator")
                    plus1 = any(x["k"] == "BinaryOperator" and x["op"] == "+" and 1 in (const_val(x["lhs"]), const_val(x["rhs"])) for x in cal[0].walk())
                    tg = any(is_call(x, r"timegm$") for x in cal[0].walk())
                    ok = hours == [11, 23] and mins == {59} and cmp12 and plus1 and tg
                    why = "calendar form: hour<12 -> 11:59:59, else 23:59:59, +1 s via timegm (hours %s, min/sec %s, +1: %s)" % (hours, sorted(mins), plus1)
                else:
                    raise AnalysisBroken("recalculation point for %s: %s has a shape no accepted idiom covers" % (zn, cs))
            else:
                why = "the next point is not computed from the current timestamp"
        else:
            why = "%d assignment(s) of the next recalculation point under the %s test" % (len(mine), zn)
        ctx.ob("C13.R4d", "StringFromTime::format_timestamp:next-point:%s" % zn, ok,
               "zone %s: %s%s" % (zn, why, " — every UTC offset in use is a multiple of 15 minutes, so local midnight/noon always fall on a "
                                  "15-minute boundary of epoch time and on no coarser grid" if zn == "LocalTime" else ""), fn=f)
    # R4g: the point computed above is the point in force: nothing moves it afterwards (noon is a rebuild point in GMT whatever the
    # pattern looks like before %r / %T / %D are expanded)
    sfc = [x for x in facts.fns if x.config == "A" and x.cls == SF]
    moved = [(x.short.split("::")[-1], a["loc"]) for x in sfc for a in x.walk()
             if (a["k"] == "CompoundAssignOperator" and is_this_field(a["lhs"], "_next_recalculation_timestamp")) or
             (a["k"] == "UnaryOperator" and a.get("op") in ("++", "--") and is_this_field(a.get("sub"), "_next_recalculation_timestamp"))]
    plain = [(x.short.split("::")[-1], a) for x in sfc for a in x.walk() if a["k"] == "BinaryOperator" and a["op"] == "=" and is_this_field(a["lhs"], "_next_recalculation_timestamp")]
    selfref = [(n_, a["loc"]) for (n_, a) in plain if any(is_this_field(y, "_next_recalculation_timestamp") for y in walk(a["rhs"]))]
    ctx.ob("C13.R4g", "StringFromTime:next-point-never-moved", not moved and not selfref and len(plain) >= 2,
           "_next_recalculation_timestamp is only ever assigned a freshly computed point (%d assignment(s)); it is never adjusted in place "
           "(adjusted at: %s)" % (len(plain), moved + selfref or "nowhere"), fn=f)
    # R4e: elapsed seconds against the cached timestamp before it is overwritten
    finits = f.var_inits()
    upd = [a for a in f.walk() if a["k"] == "CompoundAssignOperator" and a["op"] == "+=" and is_this_field(a["lhs"], "_cached_seconds")]
    set_ct = [a for a in f.walk() if a["k"] == "BinaryOperator" and a["op"] == "=" and is_this_field(a["lhs"], "_cached_timestamp")]
    ok = len(upd) == 1 and len(set_ct) == 1 and var_ref(set_ct[0]["rhs"]) == ts
    if ok:
        dv = var_ref(strip(upd[0]["rhs"], casts=True))
        e = strip(finits.get(dv), casts=True) if dv in finits else strip(upd[0]["rhs"], casts=True)
        ok = isnode(e) and e["k"] == "BinaryOperator" and e["op"] == "-" and var_ref(e["lhs"]) == ts and is_this_field(e["rhs"], "_cached_timestamp")
        if ok and dv in finits:
            dpos = [p for p in g.pos_of(lambda n: isnode(n) and n.get("k") == "Var" and n.get("did") == dv)] or g.positions(finits[dv])
            ok = bool(dpos) and all(g.dominates(dpos, p) for p in g.positions(set_ct[0])) and \
                not g.exists_path(g.positions(set_ct[0]), dpos)
    ctx.ob("C13.R4e", "StringFromTime::format_timestamp:elapsed-seconds", ok,
           "the seconds added to the cached time of day are (timestamp - cached timestamp), computed before the cached timestamp is "
           "replaced by the current one", fn=f)
    # R4f: populate
    pf = facts.need(SF + "::_populate_pre_formatted_string_and_cached_indexes", "A")[0]
    pg = pf.g
    pts = pf.rec["params"][0]["did"]
    set_ct = [a for a in pf.walk() if a["k"] == "BinaryOperator" and a["op"] == "=" and is_this_field(a["lhs"], "_cached_timestamp")]
    ok1 = len(set_ct) == 1 and var_ref(set_ct[0]["rhs"]) == pts
    conv = {}
    for bid, b in pg.blocks.items():
        c = pg.term_cond(bid)
        nc = norm_cmp(c) if c is not None else None
        if nc and nc[0] == "==" and nc[2] == "this._time_zone" and nc[1].startswith("quill::Timezone::"):
            after = [pg.node_ast(p) for p in straight_after(pg, bid, "T")]
            conv[nc[1].split("::")[-1]] = [short(n["callee"]).split("::")[-1] for n in after if is_call(n, r"(localtime_rs|gmtime_rs)$")]
    want = {"LocalTime": ["localtime_rs"], "GmtTime": ["gmtime_rs"]}
    ok2 = all(conv.get(z) == want.get(z) for (z, _) in en["enumerators"] if z in want) and all(z in want for (z, _) in en["enumerators"])
    cs_asg = [a for a in pf.walk() if a["k"] == "BinaryOperator" and a["op"] == "=" and is_this_field(a["lhs"], "_cached_seconds")]
    ok3 = False
    if len(cs_asg) == 1:
        terms = {}
        for m in walk(cs_asg[0]["rhs"]):
            if m["k"] == "BinaryOperator" and m["op"] == "*":
                fld = [x.get("mname") for x in walk(m) if x["k"] == "MemberExpr" and str(x.get("mname", "")).startswith("tm_")]
                k = const_val(m["rhs"]) if const_val(m["rhs"]) is not None else const_val(m["lhs"])
                if fld:
                    terms[fld[0]] = k
        flds = [x.get("mname") for x in walk(cs_asg[0]["rhs"]) if x["k"] == "MemberExpr" and str(x.get("mname", "")).startswith("tm_")]
        ok3 = terms == {"tm_hour": 3600, "tm_min": 60} and sorted(flds) == ["tm_hour", "tm_min", "tm_sec"] and \
            not any(m["k"] == "BinaryOperator" and m["op"] in ("-", "/", "%") for m in walk(cs_asg[0]["rhs"]))
    st = pf.calls(r"::_safe_strftime$")
    ok4 = bool(st) and all((is_this_field(n["args"][1], "_cached_timestamp") or var_ref(n["args"][1]) == pts) and is_this_field(n["args"][2], "_time_zone") for n in st)
    ctx.ob("C13.R4f", "StringFromTime::_populate:same-instant-same-zone", ok1 and ok2 and ok3 and ok4,
           "the cache is rebuilt for the timestamp passed in (cached timestamp := it: %s), broken down with the conversion of the configured "
           "zone (%s), the cached time of day is tm_hour*3600 + tm_min*60 + tm_sec (%s) and every part is rendered by strftime for the "
           "same instant and zone (%s)" % (ok1, conv, ok3, ok4), fn=pf)


def r7_time_utilities(ctx, facts):
    """R7: the three conversions every rendered field rests on are libc's: gmtime_rs / localtime_rs / timegm hand their own arguments, in
    order, to gmtime_r / localtime_r / ::timegm — the one that matches their name — and return its result (or the caller's buffer);
    a failure result ends in a throw. A wrapper that no longer calls libc at all computes the calendar itself: that arithmetic is a
    runtime-value question this analysis does not decide (analysis broken, not a pass)."""
    want = {"gmtime_rs": ("gmtime_r", "localtime_r", 2), "localtime_rs": ("localtime_r", "gmtime_r", 2), "timegm": ("timegm", "mktime", 1)}
    for name, (libc, wrong, nargs) in want.items():
        f = facts.need("quill::detail::" + name, "A")[0]
        params = [p["did"] for p in f.rec["params"]]
        right = [c for c in f.calls(r"^(::)?%s$" % libc)]
        bad = [c for c in f.calls(r"^(::)?(%s|mktime|localtime|gmtime)$" % wrong) if c not in right]
        if not right and not bad:
            raise AnalysisBroken("%s no longer calls libc's %s: an in-house calendar computation is not decided by this analysis" % (name, libc))
        ok_args = len(right) == 1 and len(right[0]["args"]) == nargs and [var_ref(strip(a, casts=True)) for a in right[0]["args"]] == params[:nargs]
        ctx.ob("C13.R7a", "%s:delegates-to-%s" % (name, libc), ok_args and not bad,
               "%s hands its own arguments, in order, to libc's %s and to no other conversion (%d call(s) to %s, %d to another conversion)"
               % (name, libc, len(right), libc, len(bad)), fn=f)
        if not right:
            continue
        inits = f.var_inits()
        resv = [v for v, i in inits.items() if any(x is right[0] for x in walk(i)) and strip(i, casts=True) is right[0]]
        rets = [f.g.node_ast(r) for r in f.g.return_nodes()]

        def is_result(e):
            e = strip(e, casts=True)
            if e is right[0]:
                return True
            v = var_ref(e)
            if v is None:
                return False
            if v in resv and not f.assignments_to_var(v):
                return True
            return nargs == 2 and v == params[1]
        ctx.ob("C13.R7b", "%s:returns-libc-result" % name, bool(rets) and all(is_result(r.get("val")) for r in rets),
               "every return hands back %s's own result%s, unmodified" % (libc, " or the caller's buffer it filled" if nargs == 2 else ""), fn=f)
        # the failure result ends in a throw
        g = f.g
        thr = [p for n in f.walk() if n["k"] == "CXXThrowExpr" for p in g.positions(n)]
        fail_edges = []
        for bid, b in g.blocks.items():
            c = g.term_cond(bid)
            if c is None:
                continue
            core, neg = core_and_neg(c)
            core = strip(core, casts=True)
            if is_call(core, r"__builtin_expect$") and core.get("args"):
                inner = strip(core["args"][0], casts=True)
                core2, neg2 = core_and_neg(inner)
                core, neg = strip(core2, casts=True), neg != neg2
            lab = None
            if var_ref(core) in resv:            # if (!res)
                lab = "F"
            else:
                nc = norm_cmp(core)
                if nc and nc[0] in ("==", "!="):
                    l, r = strip(core["lhs"], casts=True), strip(core["rhs"], casts=True)
                    for a, b2 in ((l, r), (r, l)):
                        if var_ref(a) in resv and (const_val(b2) in (-1, 0) or is_null(b2)):
                            lab = "T" if nc[0] == "==" else "F"
            if lab is not None:
                fail_edges.append((bid, other(lab) if neg else lab))
        ok_thr = bool(thr) and bool(fail_edges) and all(
            not g.exists_path([y for (y, l2) in g.succ.get(tnode(g, b), ()) if l2 == lab], [n for n in g.return_nodes()])
            for (b, lab) in fail_edges)
        ctx.ob("C13.R7c", "%s:failure-throws" % name, ok_thr,
               "libc's failure result (%s) ends in a throw on every path, never in a returned value" % ("null" if nargs == 2 else "-1"), fn=f)


def _ref_uncacheable(fmt):
    """independent reference (strftime's grammar: % [flags] [width] [E|O] conversion): does the pattern print the time of day through a
    conversion that is not one of the plain two-character forms the cache patches (%H %M %S %I %k %l %s), expands (%r %R %T) or
    rejects (%X)?"""
    import re as _re
    i = 0
    while i < len(fmt) - 1:
        if fmt[i] != "%":
            i += 1
            continue
        if fmt[i + 1] == "%":
            i += 2
            continue
        m = _re.match(r"%([_\-^#0-9EO]*)(.)", fmt[i:], _re.S)
        if not m:
            break
        mods, conv = m.group(1), m.group(2)
        if conv == "c" or (mods and conv in "HMSIklsXrRT"):
            return True
        i += len(m.group(0))
    return False


def r3_time_conversions_outside_the_cache(ctx, facts):
    """R3d/R3e: 'caching never lets a later timestamp show stale fields'. The cache patches the positions of %H %M %S %I %k %l %s written
    exactly like that; strftime also accepts flags, a width and E / O in front of the conversion (%-H, %OS, %EX) and has %c — rendered by
    strftime itself, they would stay frozen in the cached string (the tree's fifteenth defect). R3d (structure): init derives a flag from
    the expanded pattern before the parts are populated, and on the flag's 'set' outcome format_timestamp renders through strftime and
    returns before any cached text can be returned. R3e (compile-time witness): the constexpr scanner that computes the flag agrees with an
    independent reference of strftime's conversion grammar on every pattern of length <= N over '% - 0 E O H c T p a'."""
    ini = facts.need(SF + "::init", "A")[0]
    g = ini.g
    # the scanner: a library function called by init on the pattern whose boolean verdict is kept in a member (route to strftime) or ends
    # in a throw (reject, the way %X is)
    scan = [c for c in ini.calls(r"^quill::") if (c.get("ty") or "").replace("const ", "") == "bool" and c.get("args") and
            any(is_this_field(x, "_timestamp_format") for a_ in c["args"] for x in walk(a_))]
    asg = [n for n in ini.walk() if n["k"] == "BinaryOperator" and n["op"] == "=" and is_this_field(n["lhs"]) and any(x is scan[0] for x in walk(n["rhs"]))] if scan else []
    if scan and not asg:
        rej = [(b, t) for (b, t, c) in branches_on_call(ini, "^" + re.escape(scan[0]["callee"]) + "$")]
        thr = npos(ini, [x for x in ini.walk() if x["k"] == "CXXThrowExpr"])
        rejected = bool(rej) and bool(thr) and all(not g.exists_path([y for (y, l2) in g.succ.get(tnode(g, b), ()) if l2 == t], [g.exit_node], avoid_nodes=thr) for (b, t) in rej)
        ctx.ob("C13.R3d", "StringFromTime::init:time-conversions-outside-the-cache-detected", rejected,
               "a pattern for which %s says 'prints the time of day outside the cache' is rejected with a throw on every path" % short(scan[0]["callee"]).split("::")[-1], fn=ini)
        scanner = scan[0]["callee"]
    elif not scan or not asg:
        ctx.ob("C13.R3d", "StringFromTime::init:time-conversions-outside-the-cache-detected", False,
               "init() does not derive, from the pattern, whether it prints the time of day through a conversion the cache cannot patch "
               "(%c, %-H, %OS, %EX, ...): such a pattern is cached and shown stale", fn=ini)
        return
    if asg:
        flag = field_name(asg[0]["lhs"])
        on_fmt = any(is_this_field(x, "_timestamp_format") for x in walk(scan[0]["args"][0]))
        exp = npos(ini, ini.calls(r"StringFromTime::_replace_all$"))
        pop = npos(ini, ini.calls(r"StringFromTime::_populate_initial_parts$"))
        ap = npos(ini, asg)
        order = bool(exp) and bool(pop) and not g.exists_path(ap, exp) and not g.exists_path([g.entry_node], pop, avoid_nodes=ap)
        ft = facts.need(SF + "::format_timestamp", "A")[0]
        fg = ft.g
        fe = []
        for bid, b in fg.blocks.items():
            c = fg.term_cond(bid)
            if c is None:
                continue
            core, neg = core_and_neg(c)
            if is_this_field(strip(core, casts=True), flag):
                fe.append((bid, "F" if neg else "T"))
        direct = npos(ft, ft.calls(r"StringFromTime::_safe_strftime$"))
        cached_rets = [p for p in fg.return_nodes() if is_this_field(strip(fg.node_ast(p).get("val"), casts=True), "_pre_formatted_ts")]
        routed = bool(fe) and bool(direct) and bool(cached_rets) and \
            all(not fg.exists_path([y for (y, l2) in fg.succ.get(tnode(fg, b), ()) if l2 == t], cached_rets) and
                not fg.exists_path([y for (y, l2) in fg.succ.get(tnode(fg, b), ()) if l2 == t], [fg.exit_node], avoid_nodes=direct) for (b, t) in fe) and \
            not fg.exists_path([fg.entry_node], cached_rets, avoid_nodes=[tnode(fg, b) for (b, t) in fe])
        ctx.ob("C13.R3d", "StringFromTime::init:time-conversions-outside-the-cache-detected", on_fmt and order and routed,
               "the flag %s is computed from the pattern after %%r / %%R / %%T were expanded and before the parts are populated (%s, %s); every "
               "path of format_timestamp to a return of the cached text passes the flag's test, and on its 'set' outcome the text comes from "
               "strftime (%s)" % (flag, on_fmt, order, routed), fn=ini)
        scanner = scan[0]["callee"]
    # R3e: the scanner itself, evaluated by the compiler
    import itertools, ctw
    alphabet = "%-0EOHcTpa"
    N = 4 if ctx.tier == "quick" else 5
    rows, pats = [], []
    for L in range(0, N + 1):
        for t in itertools.product(alphabet, repeat=L):
            p = "".join(t)
            rows.append('{"%s", %s}' % (p, "true" if _ref_uncacheable(p) else "false"))
            pats.append(p)
    bad = ctw.static_table("sft-uncacheable-%d" % N,
                           '#include "quill/backend/StringFromTime.h"\n#include <string_view>',
                           "std::string_view p; bool u;", rows, "%s(r.p) == r.u" % scanner, step=1024)
    ctx.units.add(("sft-uncacheable-witness(len<=%d)" % N, "A"))
    ctx.floor("C13.R3e", "patterns in the witness table", len(rows), 10000)
    ctx.ob("C13.R3e", "%s:agrees-with-strftime-grammar" % scanner.replace("quill::detail::", ""), not bad,
           "compile-time witness over all %d patterns of length <= %d over '%s': the constexpr scanner says 'outside the cache' exactly for "
           "%%c and for a time-of-day conversion (H M S I k l s X r R T) written with flags, a width or E / O%s"
           % (len(rows), N, alphabet, ("; first mismatches: " + "; ".join("'%s'" % pats[i] for i in bad[:4])) if bad else ""), loc="backend/StringFromTime.h")
