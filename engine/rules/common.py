"""helpers shared by the rule modules"""
from qlib import (AnalysisBroken, strip, isnode, walk, is_call, norm_cmp, var_ref, is_null, const_val, short, call_obj,
                  expr_key, field_name)


def core_and_neg(cond):
    """strip leading '!'s: (core_expr, negated?)"""
    c = strip(cond)
    neg = False
    while isnode(c) and c["k"] == "UnaryOperator" and c["op"] == "!":
        neg = not neg
        c = strip(c["sub"])
    return c, neg


def tnode(g, bid):
    return (bid, len(g.blocks[bid]["el"]))


def other(lab):
    if isinstance(lab, tuple) and lab and lab[0] in ("case", "not-case"):
        # outcome of a switch: 'the named case' <-> 'any other case'
        return ("not-case" if lab[0] == "case" else "case", lab[1])
    return "F" if lab == "T" else "T"


def label_matches(edge_label, wanted):
    """does an edge labelled edge_label belong to the outcome `wanted` ('T' / 'F' / ('case', id) / ('not-case', id))"""
    if isinstance(wanted, tuple) and wanted and wanted[0] == "not-case":
        return isinstance(edge_label, tuple) and edge_label and edge_label[0] == "case" and edge_label != ("case", wanted[1])
    return edge_label == wanted


def cpos(f, pat):
    """graph positions of all calls whose resolved callee matches pat"""
    g = f.g
    return [p for n in f.calls(pat) for p in g.positions(n)]


def npos(f, nodes):
    g = f.g
    return [p for n in nodes for p in g.positions(n)]


def branches_on_call(f, pat):
    """[(bid, label_of_true_outcome_of_the_call, cond)] for two-way branches whose deciding condition is (a possibly
    negated) call matching pat (boolean result)"""
    g = f.g
    out = []
    inits = f.var_inits()
    for bid, b in g.blocks.items():
        c = g.term_cond(bid)
        if c is None or len([s for s in b.get("succ", []) if s is not None]) < 1:
            continue
        core, neg = core_and_neg(c)
        if is_call(core, pat):
            out.append((bid, "F" if neg else "T", core))
            continue
        # the boolean result held in a local that is never re-assigned: bool const ok = f(...); if (!ok) ...
        v = var_ref(core)
        if v is not None and v in inits and not f.assignments_to_var(v):
            i = strip(inits[v], casts=True)
            if is_call(i, pat):
                out.append((bid, "F" if neg else "T", i))
    return out


def branches_on_var_null(f, vid):
    """[(bid, label_of_null_outcome)] for branches testing local/param vid against null (x, !x, x==nullptr, x!=nullptr)"""
    g = f.g
    out = []
    for bid, b in g.blocks.items():
        c = g.term_cond(bid)
        if c is None:
            continue
        core, neg = core_and_neg(c)
        lab = None
        if var_ref(strip(core, casts=True)) == vid:
            lab = "F"
        elif isnode(core) and core["k"] == "BinaryOperator" and core["op"] in ("==", "!="):
            l, r = core["lhs"], core["rhs"]
            if (var_ref(l) == vid and is_null(r)) or (var_ref(r) == vid and is_null(l)):
                lab = "T" if core["op"] == "==" else "F"
        if lab is None:
            continue
        if neg:
            lab = other(lab)
        out.append((bid, lab))
    return out


def flatten(expr, op="&&"):
    e = strip(expr)
    if isnode(e) and e["k"] == "BinaryOperator" and e["op"] == op:
        return flatten(e["lhs"], op) + flatten(e["rhs"], op)
    return [e]


def in_subtree(node, root):
    return any(x is node for x in walk(root))


def enclosing(f, n, kinds):
    """innermost ancestor of kind in kinds"""
    for a in f.ancestors(n):
        if a["k"] in kinds:
            return a
    return None


def try_stack(f, n):
    """list of CXXTryStmt nodes whose *try block* encloses n (innermost first)"""
    out = []
    prev = n
    for a in f.ancestors(n):
        if a["k"] == "CXXTryStmt" and a.get("tryblock") is prev:
            out.append(a)
        prev = a
    return out


def handler_info(trystmt):
    """[(caught, rethrows, returns, body)]"""
    out = []
    for h in trystmt.get("handlers") or []:
        body = h.get("body")
        rethrow = False
        returns = False
        for x in walk(body):
            if x["k"] == "CXXThrowExpr":
                rethrow = True
            if x["k"] == "ReturnStmt":
                returns = True
            if x["k"] == "LambdaExpr":
                pass
        out.append((h.get("caught"), rethrow, returns, body))
    return out


def has_catch_all(trystmt):
    return any(c == "..." and not rt for (c, rt, ret, body) in handler_info(trystmt))


def loops_enclosing(f, n):
    return [a for a in f.ancestors(n) if a["k"] in ("WhileStmt", "DoStmt", "ForStmt", "CXXForRangeStmt")]


def need_one(items, what):
    if len(items) != 1:
        raise AnalysisBroken("%s: expected exactly one, found %d" % (what, len(items)))
    return items[0]


def need_some(items, what):
    if not items:
        raise AnalysisBroken("%s: not found" % what)
    return items


def returns_bool(f, val):
    return f.g.return_nodes(lambda r: const_val(r.get("val")) == (1 if val else 0))


def straight_after(g, bid, label):
    """graph nodes executed right after taking edge `label` out of block bid, up to (not including) the next branching point"""
    out = []
    start = [y for (y, lab) in g.succ.get(tnode(g, bid), ()) if lab == label]
    seen = set()
    while start:
        x = start.pop()
        if x in seen:
            continue
        seen.add(x)
        out.append(x)
        nx = g.succ.get(x, ())
        if len(nx) == 1:
            start.append(nx[0][0])
    return out


def contained(facts, cfg, f, node, memo=None, depth=0):
    """Is an exception raised at `node` in f caught by a non-rethrowing catch-all before it leaves the analysed backend code?
    True when node lies in such a try block in f, or when *every* analysed call site of f is itself contained.
    Returns (bool, chain) — chain names the uncontained call chain when False."""
    if memo is None:
        memo = {}
    for t in try_stack(f, node):
        if has_catch_all(t):
            return True, []
    key = id(f)
    if key in memo:
        return memo[key]
    memo[key] = (True, [])  # cycle guard
    callers = facts.callsites(cfg).get(id(f), [])
    if not callers or depth > 12:
        memo[key] = (False, [f.short])
        return memo[key]
    for (g, site) in callers:
        ok, chain = contained(facts, cfg, g, site, memo, depth + 1)
        if not ok:
            memo[key] = (False, chain + [f.short])
            return memo[key]
    memo[key] = (True, [])
    return memo[key]


def other_loop_over(f, field, what):
    """A rule that looks for a range-for over `field` found none: if the function iterates over that field with another loop
    form (index / iterator loop) the shape is not covered -> analysis broken, not a violation."""
    for n in f.walk():
        if n["k"] in ("ForStmt", "WhileStmt", "DoStmt"):
            hdr = [n.get("init"), n.get("cond"), n.get("inc")]
            if any(isnode(h) and any(x["k"] == "MemberExpr" and x.get("mname") == field for x in walk(h)) for h in hdr):
                raise AnalysisBroken("%s: iteration over %s is not a range-for (loop at %s): shape not covered" % (what, field, n.get("loc")))


def enum_edges(g, call_pat, enum_name):
    """[(bid, label of 'the value is <enum_name>')] over the comparisons of a call matching call_pat (e.g. MacroMetadata::event) with
    the enumerator whose qualified name ends with enum_name"""
    from qlib import norm_cmp, walk, is_call, var_ref, strip, isnode
    out = []
    # a local that holds the result of the call and is never assigned again stands for the call (`auto const event = m->event();`)
    f = g.fn
    held = getattr(g, "_held_calls", {}).get(call_pat)
    if held is None:
        inits = f.var_inits()
        held = {v for v, i in inits.items() if isnode(i) and is_call(strip(i, casts=True), call_pat) and not f.assignments_to_var(v)}
        if not hasattr(g, "_held_calls"):
            g._held_calls = {}
        g._held_calls[call_pat] = held
    for bid, b in g.blocks.items():
        c = g.term_cond(bid)
        nc = norm_cmp(c) if c is not None else None
        if nc and nc[0] in ("==", "!=") and any(is_call(x, call_pat) or (held and x["k"] == "DeclRefExpr" and x.get("did") in held) for x in walk(c)) and \
                any(x["k"] == "DeclRefExpr" and x.get("dk") == "EnumConstant" and x.get("name", "").endswith("::" + enum_name) for x in walk(c)):
            out.append((bid, "T" if nc[0] == "==" else "F"))
    # the same tests written as a switch over the call (or the local that holds it): the outcome is the case labelled with the enumerator
    for bid, b in g.blocks.items():
        if b.get("term") != "SwitchStmt":
            continue
        c = g.term_cond(bid)
        cs = strip(c, casts=True) if c is not None else None
        if not (isnode(cs) and (is_call(cs, call_pat) or (held and var_ref(cs) in held))):
            continue
        for (_y, lab) in g.succ.get(tnode(g, bid), ()):
            if isinstance(lab, tuple) and lab[0] == "case" and lab[1] is not None:
                ln = f.nodes.get(lab[1])
                if isnode(ln) and ln["k"] == "CaseStmt" and any(x["k"] == "DeclRefExpr" and x.get("dk") == "EnumConstant" and
                                                               x.get("name", "").endswith("::" + enum_name) for x in walk(ln.get("lhs"))):
                    out.append((bid, lab))
    return out


def only_when(g, positions, edges):
    """positions are reachable only through (at least) one of the labelled outcomes"""
    return bool(positions) and bool(edges) and not g.exists_path([g.entry_node], positions, avoid_edges=edges)


def never_when(g, positions, edges):
    """positions are unreachable once any of the labelled outcomes has been taken: every path to them uses only the other outcomes.
    Checked as: from the target of each labelled edge the positions are unreachable."""
    for (b, l) in edges:
        tgt = [y for (y, lab) in g.succ.get(tnode(g, b), ()) if label_matches(lab, l)]
        if g.exists_path(tgt, positions) or any(t in positions for t in tgt):
            return False
    return bool(edges)


def reach_under_enum(g, call_pat, enumerators, value):
    """graph nodes reachable from the entry on the assumption that every evaluation of the call matching call_pat yields the
    enumerator `value`: tests of that call against an enumerator are decided (the inconsistent outcome is removed), every other branch
    stays open. `enumerators` = all enumerator names of the type (so that tests against any of them are decided)."""
    return set(g.reach([g.entry_node], avoid_edges=inconsistent_edges(g, call_pat, enumerators, value), include_src=True))


def inconsistent_edges(g, call_pat, enumerators, value):
    """the branch outcomes that cannot be taken when the call matching call_pat yields the enumerator `value`"""
    avoid = []
    for e in enumerators:
        for (b, lab) in enum_edges(g, call_pat, e):
            avoid.append((b, other(lab)) if e == value else (b, lab))
    return avoid


def eq_kind(cond):
    """'==' / '!=' when cond is an equality test (built-in or an overloaded operator==/!=, negations folded in), with the two sides:
    (op, lhs, rhs); None otherwise"""
    c, neg = core_and_neg(cond)
    c = strip(c, casts=True)
    op, sides = None, None
    if isnode(c) and c["k"] == "BinaryOperator" and c["op"] in ("==", "!="):
        op, sides = c["op"], (c["lhs"], c["rhs"])
    elif isnode(c) and c["k"] == "CXXOperatorCallExpr" and len(c.get("args") or []) == 2:
        cal = short(c.get("callee") or "")
        if cal.endswith("operator=="):
            op, sides = "==", (c["args"][0], c["args"][1])
        elif cal.endswith("operator!="):
            op, sides = "!=", (c["args"][0], c["args"][1])
    if op is None:
        return None
    if neg:
        op = "!=" if op == "==" else "=="
    return (op, sides[0], sides[1])


def forwards(ctx, facts, cfg, rule, caller, callee_pat, what, param_idx=None, floor=1, obj_field=None):
    """a thin API function hands its work on: `caller` calls a function matching callee_pat on every path to its end (optionally with its
    own parameter #param_idx as an argument, optionally on the member obj_field)"""
    fs = facts.need(caller, cfg, floor=floor)
    for f in fs[:4]:
        g = f.g
        cs = f.calls(callee_pat)
        if obj_field is not None:
            cs = [c for c in cs if any(x["k"] == "MemberExpr" and x.get("mname") == obj_field for x in walk(call_obj(c)))]
        pos = [p for c in cs for p in g.positions(c)]
        thr = [q for x in f.walk() if x["k"] == "CXXThrowExpr" for q in g.positions(x)]
        ok = bool(pos) and not g.exists_path([g.entry_node], [g.exit_node], avoid_nodes=pos + thr)
        if ok and param_idx is not None:
            pd = f.rec["params"][param_idx]["did"]
            ok = all(any(var_ref(x) == pd for a in c["args"] for x in walk(a)) for c in cs)
        ctx.ob(rule, "%s:forwards" % f.name.replace("quill::detail::", "").replace("quill::", ""), ok, what, fn=f)


def rel_kind(cond_leaf):
    """(op, lhs, rhs) for a built-in or overloaded relational / equality test (negations folded in); None otherwise"""
    import re
    from qlib import CMP_NEG
    c, neg = core_and_neg(cond_leaf)
    c = strip(c, casts=True)
    op, l, r = None, None, None
    if isnode(c) and c["k"] == "BinaryOperator" and c["op"] in ("<", "<=", ">", ">=", "==", "!="):
        op, l, r = c["op"], c["lhs"], c["rhs"]
    elif isnode(c) and c["k"] == "CXXOperatorCallExpr" and len(c.get("args") or []) == 2:
        m = re.search(r"::operator(<=|>=|==|!=|<|>)(?:<.*>)?$", c.get("callee") or "")   # (short() cannot be used on operator< / operator>)
        if m:
            op, l, r = m.group(1), c["args"][0], c["args"][1]
    if op is None:
        return None
    if neg:
        op = CMP_NEG[op]
    return op, l, r


def nonzero_label(cond, vids):
    """for a test of a counter against zero: the label ('T' / 'F') of the 'counter is not zero' outcome — x != 0, x > 0, 0 < x, x >= 1,
    !(x == 0), ... — or None when the test compares the counter with anything else (x > 1, x >= 0, ...)"""
    from rules.c02 import cmp_sides
    nc = norm_cmp(cond)
    cs = cmp_sides(cond)
    if nc and nc[0] in ("==", "!=") and "0" in (nc[1], nc[2]) and any(var_ref(x) in vids for x in walk(cond)):
        return "T" if nc[0] == "!=" else "F"
    if cs:
        l, r = strip(cs[1], casts=True), strip(cs[2], casts=True)
        if cs[0] == "<" and const_val(cs[1]) == 0 and var_ref(r) in vids:
            return "T"
        if cs[0] == "<=" and const_val(cs[1]) == 1 and var_ref(r) in vids:
            return "T"
        if cs[0] == "<=" and var_ref(l) in vids and const_val(cs[2]) == 0:
            return "F"
        if cs[0] == "<" and var_ref(l) in vids and const_val(cs[2]) == 1:
            return "F"
    return None
