// C03 / C19: "every accepted statement reaches each sink of its logger once" — a LOG_RUNTIME_METADATA statement whose format has a
// named placeholder. The decode takes the named-args branch, which never applies the runtime metadata: the event keeps the kind
// LogWithRuntimeMetadata, which _process_transit_event does not dispatch. No sink write, no error notification.
#include "quill/Backend.h"
#include "quill/Frontend.h"
#include "quill/LogMacros.h"
#include "quill/Logger.h"
#include "quill/sinks/Sink.h"
#include <atomic>
#include <cstdio>
#include <string>
#include <vector>
struct Rec : quill::Sink {
  std::vector<std::string> lines; std::vector<std::string> named; std::vector<std::string> loc;
  void write_log(quill::MacroMetadata const* md, uint64_t, std::string_view, std::string_view, std::string const&, std::string_view,
                 quill::LogLevel, std::string_view, std::string_view, std::vector<std::pair<std::string, std::string>> const* na,
                 std::string_view msg, std::string_view) override {
    lines.emplace_back(msg); std::string n; if (na) for (auto const& p : *na) n += "[" + p.first + "=" + p.second + "]"; named.push_back(n);
    loc.emplace_back(md->source_location());
  }
  void flush_sink() override {}
};
int main() {
  std::atomic<int> errors{0};
  quill::BackendOptions bo; bo.error_notifier = [&](std::string const& s) { ++errors; std::printf("notifier: %s\n", s.c_str()); };
  quill::Backend::start(bo);
  auto sink = quill::Frontend::create_or_get_sink<Rec>("rec");
  auto* l = quill::Frontend::create_or_get_logger("root", sink);
  LOG_RUNTIME_METADATA(l, quill::LogLevel::Info, "pos.cpp", 11, "fpos", "positional {}", 1);
  LOG_RUNTIME_METADATA(l, quill::LogLevel::Info, "named.cpp", 22, "fnamed", "named {val}", 2);
  LOG_RUNTIME_METADATA(l, quill::LogLevel::Info, "pos2.cpp", 33, "fpos2", "positional again {}", 3);
  l->flush_log();
  auto* r = static_cast<Rec*>(sink.get());
  for (size_t i = 0; i < r->lines.size(); ++i) std::printf("sink: '%s' named=%s at %s\n", r->lines[i].c_str(), r->named[i].c_str(), r->loc[i].c_str());
  bool ok = r->lines.size() == 3 && r->lines[1] == "named 2" && r->named[1] == "[val=2]" && r->loc[1] == "named.cpp:22";
  std::printf("%zu of 3 statements reached the sink, %d error(s) reported: %s\n", r->lines.size(), errors.load(), ok ? "OK" : "STATEMENT LOST");
  quill::Backend::stop();
  return ok ? 0 : 1;
}
