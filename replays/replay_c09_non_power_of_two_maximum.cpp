// C09: "a log call whose encoded size does not exceed the queue's ... maximum capacity for unbounded queues returns after finitely many
// backend polls ... a dropping queue never rejects a fitting statement when its queue is empty". Node capacities are powers of two
// (doubling), the configured maximum need not be: with initial 1024 and maximum 1536 a record of 1200 bytes (<= maximum) needs a 2048
// node, 2048 > 1536, and since 1200 <= 1536 no error is raised either: prepare_write returns nullptr on an EMPTY queue, for ever.
#include "quill/core/UnboundedSPSCQueue.h"
#include <cstdio>
int main() {
  quill::detail::UnboundedSPSCQueue q{1024, 1536};
  int refused = 0;
  for (int i = 0; i < 1000; ++i) { if (q.prepare_write(1200) == nullptr) ++refused; auto r = q.prepare_read(); (void)r; }
  std::printf("maximum 1536, record 1200 bytes, queue empty: refused %d of 1000 attempts (consumer polled in between)\n", refused);
  quill::detail::UnboundedSPSCQueue p{1024, 2048};
  std::printf("maximum 2048, record 1200 bytes: %s\n", p.prepare_write(1200) ? "granted" : "refused");
  return refused == 0 ? 0 : 1;
}
