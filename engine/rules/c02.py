"""C02 — unbounded SPSC queue: node hand-off, ownership, allocation cap (DESIGN §4 C02)."""
import re
from qlib import (base_name, AnalysisBroken, atomic_op, is_release, is_acquire, is_this_field, field_name, strip, norm_cmp,
                  is_call, const_val, is_null, isnode, walk, short, var_ref, expr_key, CMP_FLIP)
import roles as roles_mod

EXPLANATION = ("Unbounded SPSC queue. R1: Node::next is stored by the producer role only with >= release; every consumer load of it "
               "whose value is used for anything but a null test is >= acquire; _producer is touched by producer-role code only and "
               "_consumer by consumer-role code only (roles inferred over the resolved call graph; this is the rule that found the "
               "preallocate() defect). R2: in every function that publishes a new node the node is a fresh allocation, and after "
               "the publishing store the old node is not touched before _producer is switched. R3: the consumer deletes the old "
               "node only after re-reading it once more *after* the acquire load of next with outcome 'empty', and does not touch "
               "_consumer between delete and re-assignment. R4: every allocation outside the constructor is control-dependent on "
               "the capacity check; when the doubled capacity exceeds the maximum every path throws (record larger than the "
               "maximum) or returns nullptr, none allocates or publishes. R5: the destructor walks and frees the whole chain."
               " R4g: the configured maximum reaches the queue unchanged. R7- (= C08.R1/R2): the caller's handling of a refused reservation. R8 (= C07.R1): the exit drain leaves only on the emptiness test."
               ' R2h: every path to the release store of next has committed the writes of the current node (in the function itself or at every call site of a switching helper): shrink() and _handle_full_queue agree.')
NOT_DECIDED = ("Order / exactly-once of the record stream across arbitrary grow/shrink histories and interleavings (behavioural; "
               "depends on C01 holding as behaviour), overflow of capacity*2, the value clause of the inner size comparison.")
ASSUMPTIONS = ["single producer / single consumer per queue", "constructor and destructor run while no other thread uses the queue"]

CLS = "quill::detail::UnboundedSPSCQueue"


def deref_of_field(n, fname):
    """n is a MemberExpr whose base (stripped) is this->fname accessed through '->' (a dereference of the pointer field)"""
    if not (isnode(n) and n["k"] == "MemberExpr" and n.get("arrow")):
        return False
    return is_this_field(n.get("base"), fname)


def run(ctx):
    configs = ["A"] if ctx.tier == "quick" else ["A", "B", "C"]
    for cfg in configs:
        facts = ctx.facts("core.cpp", cfg)
        crec = facts.cls(CLS, cfg)
        if crec is None:
            raise AnalysisBroken("class %s not found" % CLS)
        fields = {f["name"]: f for f in crec["fields"]}
        for need in ("_producer", "_consumer", "_max_capacity"):
            if need not in fields:
                raise AnalysisBroken("anchor field %s::%s not found" % (CLS, need))
        meths = [f for f in facts.fns if f.config == cfg and f.cls == CLS]
        byname = {m.base: m for m in meths if not m.rec.get("ctor") and not m.rec.get("dtor")}
        for need in ("prepare_write", "prepare_read", "shrink", "_handle_full_queue", "_read_next_queue", "empty",
                     "commit_read", "finish_read", "capacity", "producer_capacity"):
            if need not in byname:
                raise AnalysisBroken("anchor %s::%s not found" % (CLS, need))
        r, proots, croots = roles_mod.infer(facts, cfg)
        if not proots or not croots:
            raise AnalysisBroken("role inference: roots missing")
        check_r1(ctx, facts, cfg, byname, r)
        check_r2(ctx, byname)
        check_r3(ctx, byname)
        check_r4(ctx, byname)
        check_r5(ctx, meths)
        check_empty_semantics(ctx, byname)
        check_cap_passthrough(ctx, facts, cfg)
        # the caller's side of 'the reservation fails so the caller blocks or drops': a failed reservation is never written through
        # (shared with C08.R1/R2)
        from rules import c08
        from rules.c09 import Renamed
        c08.r1_r2(Renamed(ctx, "C08.R", "C02.R7-"), facts, cfg)
        # a stream that spans several nodes is read to its end before the backend stops: prepare_read() follows one link per call, so
        # 'a pass read nothing' does not mean 'empty' — the exit drain leaves only on the emptiness test (= C07.R1)
        from rules import c07
        c07.r1(Renamed(ctx, "C07.R1", "C02.R8"), facts, cfg)


def check_r1(ctx, facts, cfg, byname, roles):
    # ---- atomic next
    nstores, nloads = 0, 0
    for m in byname.values():
        role = roles.get(id(m), set())
        for n in m.walk():
            a = atomic_op(n)
            if not a or field_name(a["obj"]) != "next":
                continue
            if a["kind"] in ("store", "rmw"):
                nstores += 1
                ctx.ob("C02.R1a", "%s:next-store-role" % m.base, role == {"P"},
                       "Node::next is stored in %s which runs in role(s) %s (producer only)" % (m.base, sorted(role)), loc=n["loc"], fn=m)
                ctx.ob("C02.R1b", "%s:next-store-order" % m.base, is_release(a["order"]),
                       "Node::next store in %s has order %s (>= release required: it publishes the new node and everything committed before)" % (m.base, a["order"]),
                       loc=n["loc"], fn=m)
            if a["kind"] in ("load", "rmw"):
                nloads += 1
                only_null_test = used_only_as_null_test(m, n)
                if only_null_test:
                    ctx.ob("C02.R1c", "%s:next-load-nulltest" % m.base, True,
                           "load of Node::next in %s (%s) flows into a null test only — no dereference depends on it" % (m.base, a["order"]),
                           loc=n["loc"], fn=m)
                else:
                    ctx.ob("C02.R1c", "%s:next-load-order" % m.base, is_acquire(a["order"]),
                           "load of Node::next in %s whose value is dereferenced/stored has order %s (>= acquire required)" % (m.base, a["order"]),
                           loc=n["loc"], fn=m)
    ctx.floor("C02.R1", "stores to Node::next", nstores, 2)
    ctx.floor("C02.R1", "loads of Node::next", nloads, 1)
    # ---- ownership of _producer / _consumer (direct accesses)
    owner = {"_producer": "P", "_consumer": "C"}
    direct = {}
    for m in byname.values():
        for n in m.walk():
            if n["k"] == "MemberExpr" and n.get("dk") == "Field" and n["mname"] in owner and is_this_field(n):
                direct.setdefault(m.base, set()).add(n["mname"])
    for mname, fs in sorted(direct.items()):
        m = byname[mname]
        role = roles.get(id(m), set())
        for f in sorted(fs):
            ok = role <= {owner[f]}
            callers = ""
            if not ok:
                callers = " — reached from: " + ", ".join(sorted(wrong_role_callers(facts, cfg, m, roles, owner[f])))
            ctx.ob("C02.R1d", "%s:owner-%s" % (mname, f), ok,
                   "%s accesses %s (owned by role %s) and is reachable from role(s) %s%s" % (mname, f, owner[f], sorted(role), callers), fn=m)
    ctx.floor("C02.R1d", "methods touching _producer/_consumer", len(direct), 8)


def wrong_role_callers(facts, cfg, m, roles, owner):
    cg = facts.callgraph(cfg)
    out = set()
    for f in facts.fns:
        if f.config != cfg:
            continue
        if m in cg.get(id(f), ()):
            r = roles.get(id(f), set())
            if r - {owner}:
                out.add("%s[%s]" % (f.short, "".join(sorted(r))))
    return out


def used_only_as_null_test(fn, loadnode):
    """the value of the load is consumed by ==/!= nullptr or a pointer-to-bool test and nothing else"""
    p = fn.parent(loadnode)
    while p is not None and p["k"] in ("ImplicitCastExpr", "ParenExpr", "ExprWithCleanups", "MaterializeTemporaryExpr"):
        if p["k"] == "ImplicitCastExpr" and p.get("ck") == "PointerToBoolean":
            return True
        p = fn.parent(p)
    if p is None:
        return False
    if p["k"] == "BinaryOperator" and p["op"] in ("==", "!="):
        other = p["rhs"] if strip(p["lhs"]) is strip(loadnode) or loadnode in list(walk(p["lhs"])) else p["lhs"]
        return is_null(other)
    if p["k"] == "UnaryOperator" and p["op"] == "!":
        return True
    return False


def check_r2(ctx, byname):
    publishers = []
    for m in byname.values():
        for n in m.walk():
            a = atomic_op(n)
            if a and field_name(a["obj"]) == "next" and a["kind"] == "store":
                publishers.append((m, n, a))
    ctx.floor("C02.R2", "functions publishing a node", len(publishers), 2)
    for (m, n, a) in publishers:
        g = m.g
        inits = m.var_inits()
        vid = var_ref(a["value"])
        fresh = False
        newnode = None
        if vid is not None and vid in inits:
            i = strip(inits[vid], casts=True)
            if isnode(i) and i["k"] == "CXXNewExpr":
                fresh = True
                newnode = i
        ctx.ob("C02.R2a", "%s:publishes-fresh-node" % m.base, fresh,
               "the node stored into next is a node allocated by this call (new Node), fully constructed before the store", loc=n["loc"], fn=m)
        if not fresh:
            continue
        spos = g.positions(n)
        npos = g.positions(newnode)
        ok = bool(spos) and bool(npos) and all(g.dominates(npos, s) for s in spos)
        ctx.ob("C02.R2a", "%s:construct-before-publish" % m.base, ok,
               "construction of the new node precedes the publishing store on every path", loc=n["loc"], fn=m)
        # the object the store is applied to is _producer->next
        obj = strip(a["obj"])
        ctx.ob("C02.R2b", "%s:publishes-on-current-producer-node" % m.base,
               isnode(obj) and obj["k"] == "MemberExpr" and deref_of_field(obj, "_producer"),
               "the publishing store goes to _producer->next (the node the consumer will finish first)", loc=n["loc"], fn=m)
        # after the store: no deref of _producer until _producer = <that var>
        assigns = [x for x in m.walk() if x["k"] == "BinaryOperator" and x["op"] == "=" and is_this_field(x["lhs"], "_producer")
                   and var_ref(x["rhs"]) == vid]
        apos = [p for x in assigns for p in g.positions(x)]
        derefs = [p for x in m.walk() if deref_of_field(x, "_producer") for p in g.positions(x)]
        ok = bool(apos) and not g.exists_path(spos, derefs, avoid_nodes=apos)
        ctx.ob("C02.R2c", "%s:no-old-node-access-after-publish" % m.base, ok,
               "after the release store of next the old node is not dereferenced before _producer is switched to the new node "
               "(the consumer may already have deleted it)", loc=n["loc"], fn=m)
        # R2h: what was written into the old node is committed before the consumer is shown the next one. Once `next` is visible the
        # consumer finishes the old node on the strength of its published writer position and frees it; a record that was finished
        # (finish_write) but not yet committed would be lost with it, and a later commit_write() reaches only the new node
        commits = [p for c in m.calls(r"BoundedSPSCQueueImpl<.*>::commit_write$")
                   if any(deref_of_field(x, "_producer") for x in walk(c)) for p in g.positions(c)]
        ok_h = bool(commits) and all(not g.exists_path([g.entry_node], [s_], avoid_nodes=commits) for s_ in spos)
        if not commits:
            # the switch extracted into a helper of the class: then every call site of the helper has committed before the call
            sites = 0
            ok_sites = True
            for m2 in byname.values():
                cs2 = [c for c in m2.calls() if base_name(c.get("callee") or "") == m.base and "UnboundedSPSCQueue" in (c.get("callee") or "")]
                if not cs2 or m2 is m:
                    continue
                g2 = m2.g
                com2 = [p for c in m2.calls(r"BoundedSPSCQueueImpl<.*>::commit_write$")
                        if any(deref_of_field(x, "_producer") for x in walk(c)) for p in g2.positions(c)]
                for c in cs2:
                    sites += 1
                    if not com2 or any(g2.exists_path([g2.entry_node], [p_], avoid_nodes=com2) for p_ in g2.positions(c)):
                        ok_sites = False
            ok_h = sites > 0 and ok_sites
        ctx.ob("C02.R2h", "%s:old-node-committed-before-publish" % m.base, ok_h,
               "every path to the release store of next has committed the writes of the current node (_producer->bounded_queue."
               "commit_write()): sibling agreement of every function that switches nodes (%d commit site(s))" % len(commits), loc=n["loc"], fn=m)
        ok = bool(apos) and not g.exists_path(spos, [g.exit_node], avoid_nodes=apos)
        ctx.ob("C02.R2d", "%s:producer-switched" % m.base, ok,
               "every path from the publishing store to the exit switches _producer to the published node", loc=n["loc"], fn=m)


def check_r3(ctx, byname):
    # ---- prepare_read: next is loaded (acquire, R1) only after the current node was found empty; the loaded value is what is passed on
    m = byname["prepare_read"]
    g = m.g
    inits = m.var_inits()
    calls = m.calls(r"::_read_next_queue$")
    ctx.floor("C02.R3", "call of _read_next_queue in prepare_read", len(calls), 1)
    for c in calls:
        vid = var_ref(c["args"][0])
        a = atomic_op(strip(inits.get(vid))) if vid in inits else None
        ok = bool(a) and field_name(a["obj"]) == "next" and deref_of_field(strip(a["obj"]), "_consumer") and is_acquire(a["order"])
        ctx.ob("C02.R3a", "prepare_read:switch-target", ok,
               "the node handed to _read_next_queue is the value of an acquire load of _consumer->next", loc=c["loc"], fn=m)
        # guarded non-null
        cpos = g.positions(c)
        br = g.branch_edges_on(lambda cond: var_ref(strip(cond, casts=True)) == vid or
                               (norm_cmp(cond) is not None and any(var_ref(x) == vid for x in walk(cond))))
        ok = False
        for (bid, cond) in br:
            nc = norm_cmp(cond)
            lab_null = None
            if nc is None:
                lab_null = "F"  # if (next_node) ...
                neg = False
                cc = strip(cond)
                while isnode(cc) and cc["k"] == "UnaryOperator" and cc["op"] == "!":
                    neg = not neg
                    cc = strip(cc["sub"])
                if neg:
                    lab_null = "T"
            else:
                lab_null = "T" if nc[0] == "==" else "F"
            if not g.exists_path([g.entry_node], cpos, avoid_edges=[(bid, "T" if lab_null == "F" else "F")]):
                ok = True
        ctx.ob("C02.R3a", "prepare_read:switch-only-when-next-present", ok,
               "_read_next_queue is reached only on the non-null outcome of the next pointer", loc=c["loc"], fn=m)
    # ---- _read_next_queue
    m = byname["_read_next_queue"]
    g = m.g
    inits = m.var_inits()
    dels = [n for n in m.walk() if n["k"] == "CXXDeleteExpr"]
    ctx.floor("C02.R3", "delete in _read_next_queue", len(dels), 1)
    param = m.rec["params"][0]["did"]
    for d in dels:
        dpos = g.positions(d)
        ctx.ob("C02.R3b", "_read_next_queue:deletes-current-consumer-node", is_this_field(d["arg"], "_consumer"),
               "the node deleted is _consumer (the node whose next pointer was observed)", loc=d["loc"], fn=m)
        # re-check: a prepare_read()/empty() on _consumer->bounded_queue executed in this function (i.e. after the acquire load in the caller)
        rechecks = []
        for c in m.calls(r"BoundedSPSCQueueImpl<.*>::(prepare_read|empty)$"):
            from qlib import call_obj
            o = call_obj(c)
            if isnode(o) and o["k"] == "MemberExpr" and deref_of_field(o, "_consumer"):
                rechecks.append(c)
        rpos = [p for c in rechecks for p in g.positions(c)]
        ok = bool(rpos) and all(g.dominates(rpos, p) for p in dpos)
        ctx.ob("C02.R3c", "_read_next_queue:recheck-before-delete", ok,
               "every path to 'delete _consumer' re-reads the old node once more after next was observed (closes the window in which "
               "the producer committed to the old node just before publishing next)", loc=d["loc"], fn=m)
        # ... with outcome empty: the variable holding the re-check result guards the delete
        ok2 = False
        for c in rechecks:
            # result var: declared with init containing c
            holders = [vid for vid, i in inits.items() if isnode(i) and any(x is c for x in walk(i))]
            is_empty_call = short(c["callee"]).endswith("::empty")
            for (bid, cond) in g.branch_edges_on(lambda cond: any((x["k"] == "DeclRefExpr" and x.get("did") in holders) or x is c for x in walk(cond))):
                neg = False
                cc = strip(cond)
                while isnode(cc) and cc["k"] == "UnaryOperator" and cc["op"] == "!":
                    neg = not neg
                    cc = strip(cc["sub"])
                nc = norm_cmp(cond)
                if nc is not None:
                    lab_data = "F" if nc[0] == "==" else "T"  # x == nullptr -> T means empty
                else:
                    lab_data = "T"  # if (read_pos) -> data available
                if is_empty_call:
                    lab_data = "F" if lab_data == "T" else "T"
                if neg:
                    lab_data = "F" if lab_data == "T" else "T"
                # delete must be unreachable through the 'data available' outcome
                if not g.exists_path([(bid, len(g.blocks[bid]["el"]))], dpos, avoid_edges=[(bid, "F" if lab_data == "T" else "T")]):
                    if all(g.dominates([(bid, len(g.blocks[bid]["el"]))], p) for p in dpos):
                        ok2 = True
        ctx.ob("C02.R3d", "_read_next_queue:delete-only-when-recheck-empty", ok2,
               "the old node is deleted only on the 'nothing left' outcome of that re-check (otherwise committed records would be freed unread)",
               loc=d["loc"], fn=m)
        # after delete: _consumer assigned (from the parameter) before any deref
        assigns = [x for x in m.walk() if x["k"] == "BinaryOperator" and x["op"] == "=" and is_this_field(x["lhs"], "_consumer")]
        apos = [p for x in assigns for p in g.positions(x)]
        derefs = [p for x in m.walk() if deref_of_field(x, "_consumer") for p in g.positions(x)]
        ok = bool(apos) and not g.exists_path(dpos, derefs, avoid_nodes=apos) and not g.exists_path(dpos, [g.exit_node], avoid_nodes=apos)
        ctx.ob("C02.R3e", "_read_next_queue:no-access-after-delete", ok,
               "after 'delete _consumer' the retired node is never dereferenced and _consumer is re-assigned on every path", loc=d["loc"], fn=m)
        ctx.ob("C02.R3e", "_read_next_queue:switch-to-observed-next", bool(assigns) and all(var_ref(x["rhs"]) == param for x in assigns),
               "_consumer is switched to the node that was observed in next", loc=d["loc"], fn=m)


def cmp_sides(cond):
    """(op, lhs_node, rhs_node) normalised to < / <= ; None if not an ordering comparison"""
    c = strip(cond)
    neg = False
    while isnode(c) and c["k"] == "UnaryOperator" and c["op"] == "!":
        neg = not neg
        c = strip(c["sub"])
    if not (isnode(c) and c["k"] == "BinaryOperator" and c["op"] in ("<", ">", "<=", ">=")):
        return None
    from qlib import CMP_NEG
    op = c["op"]
    l, r = c["lhs"], c["rhs"]
    if neg:
        op = CMP_NEG[op]
    if op in (">", ">="):
        op = CMP_FLIP[op]
        l, r = r, l
    return (op, l, r)


def _helper_returns_fitting_capacity(m, byname, capv, nbytes):
    init = m.var_inits().get(capv)
    call = strip(init, casts=True) if isnode(init) else None
    if not (isnode(call) and is_call(call) and not m.assignments_to_var(capv)):
        return False
    h = byname.get(base_name(call.get("callee") or ""))
    if h is None:
        return False
    pos_ = [i for i, a in enumerate(call.get("args") or []) if var_ref(a) == nbytes]
    if len(pos_) != 1 or pos_[0] >= len(h.rec["params"]):
        return False
    hn = h.rec["params"][pos_[0]]["did"]
    hg = h.g
    rets = hg.return_nodes()
    rv = set(var_ref(hg.node_ast(r).get("val")) for r in rets)
    if len(rv) != 1 or None in rv:
        return False
    hv = rv.pop()
    fit = []
    for (b2, cond2) in hg.branch_edges_on(lambda c: cmp_sides(c) is not None):
        op2, l2, r2 = cmp_sides(cond2)
        if var_ref(l2) == hv and var_ref(r2) == hn:
            fit.append((b2, "F"))
        elif var_ref(l2) == hn and var_ref(r2) == hv:
            fit.append((b2, "T"))
    wr = [p for n in h.walk() if n["k"] in ("BinaryOperator", "CompoundAssignOperator") and n.get("op", "").endswith("=") and
          n.get("op") not in ("==", "!=", "<=", ">=") and var_ref(n.get("lhs")) == hv for p in hg.positions(n)]
    return bool(fit) and not hg.exists_path([hg.entry_node], rets, avoid_edges=fit) and not hg.exists_path(wr, rets, avoid_edges=fit)


def check_r4(ctx, byname, strict=False):
    """strict: growth to exactly the maximum must still be allowed (C09: a fitting statement is not refused); C02 itself only
    requires that nothing beyond the maximum is allocated"""
    # ---- growth
    m = byname["_handle_full_queue"]
    g = m.g
    nbytes = m.rec["params"][0]["did"]
    news = [n for n in m.walk() if n["k"] == "CXXNewExpr"]
    ctx.floor("C02.R4", "allocation in _handle_full_queue", len(news), 1)
    stores = [n for n in m.walk() if (atomic_op(n) or {}).get("kind") == "store" and field_name(atomic_op(n)["obj"]) == "next"]
    for nw in news:
        # capacity variable passed to the Node constructor
        capv = None
        for x in walk(nw):
            if x["k"] in ("CXXConstructExpr", "InitListExpr", "CXXTemporaryObjectExpr"):
                args = x.get("args") or x.get("c") or []
                if args:
                    capv = var_ref(args[0])
                    if capv is not None:
                        break
        guards = []
        for (bid, cond) in g.branch_edges_on(lambda c: cmp_sides(c) is not None):
            op, l, r = cmp_sides(cond)
            # _max_capacity < capv   (i.e. capacity > _max_capacity)
            if is_this_field(l, "_max_capacity") and var_ref(r) == capv and capv is not None:
                guards.append((bid, cond, op))
        if not guards:
            ctx.ob("C02.R4a", "_handle_full_queue:cap-guard", False,
                   "no comparison of the capacity about to be allocated against _max_capacity guards the allocation", loc=nw["loc"], fn=m)
            continue
        bid, cond, op = guards[0]
        tnode = (bid, len(g.blocks[bid]["el"]))
        npos = g.positions(nw)
        spos = [p for s in stores for p in g.positions(s)]
        over_reaches_alloc = g.exists_path([tnode], npos + spos, avoid_edges=[(bid, "F")])
        ctx.ob("C02.R4a", "_handle_full_queue:no-alloc-beyond-max", not over_reaches_alloc and (op == "<" or not strict),
               "when the required capacity exceeds _max_capacity no path allocates or publishes a node (guard: max %s capacity)" % op,
               loc=cond["loc"], fn=m)
        ok = all(g.dominates([tnode], p) for p in npos) and not g.exists_path([g.entry_node], npos, avoid_edges=[(bid, "F")])
        ctx.ob("C02.R4b", "_handle_full_queue:alloc-control-dependent", ok,
               "the allocation is reached only through the 'fits under the maximum' outcome of the capacity check", loc=nw["loc"], fn=m)
        # outcomes under the T edge
        over = g.reach([tnode], avoid_edges=[(bid, "F")])
        rets = [p for p in g.return_nodes() if p in over]
        throws = [p for p in g.pos_of(lambda n: isnode(n) and n.get("k") == "CXXThrowExpr") if p in over]
        ok = bool(rets) and all(is_null(g.node_ast(p).get("val")) for p in rets)
        ctx.ob("C02.R4c", "_handle_full_queue:over-max-returns-null", ok,
               "beyond the maximum the reservation fails with nullptr (caller blocks or drops), never a pointer", loc=cond["loc"], fn=m)
        if strict:
            # R4j (C09 only; seeded change C09-s16: a remembered "maximum reached" flag answered nullptr before looking at the node
            # in use, which shrink() had meanwhile replaced by a small one): 'cannot grow' is answered from the node in use now —
            # every nullptr return lies under the 'exceeds the maximum' outcome of the guard over the capacity computed in this call
            null_rets = [p for p in g.return_nodes() if is_null(g.node_ast(p).get("val"))]
            ctx.ob("C02.R4j", "_handle_full_queue:refusal-only-from-this-call's-capacity",
                   not g.exists_path([g.entry_node], null_rets, avoid_edges=[(bid, "T")]),
                   "every 'return nullptr' (block or drop) is reached only through the 'required capacity exceeds _max_capacity' outcome "
                   "computed from the node in use in this call, never from remembered state", loc=cond["loc"], fn=m)
            # R4f (C09 only): the node that is allocated can hold the record: the allocation is reached only after
            # 'nbytes <= capacity' was established for the final value of the capacity variable
            fit = []
            for (b2, cond2) in g.branch_edges_on(lambda c: cmp_sides(c) is not None):
                op2, l2, r2 = cmp_sides(cond2)
                if var_ref(l2) == capv and var_ref(r2) == nbytes and capv is not None:
                    fit.append((b2, "F"))   # capacity < / <= nbytes is 'not yet': the other outcome establishes it
                elif var_ref(l2) == nbytes and var_ref(r2) == capv and capv is not None:
                    fit.append((b2, "T"))
            wr = [p for n in m.walk() if n["k"] in ("BinaryOperator", "CompoundAssignOperator") and n.get("op", "").endswith("=") and
                  n.get("op") not in ("==", "!=", "<=", ">=") and var_ref(n.get("lhs")) == capv and capv is not None for p in g.positions(n)]
            ok = bool(fit) and not g.exists_path([g.entry_node], npos, avoid_edges=fit) and not g.exists_path(wr, npos, avoid_edges=fit)
            if not fit and not wr and capv is not None:
                # the capacity computed by a helper of the class that is handed nbytes (`capacity = _next_queue_capacity(current, nbytes)`):
                # the same question is asked of the value the helper returns
                ok = _helper_returns_fitting_capacity(m, byname, capv, nbytes)
            ctx.ob("C02.R4f", "_handle_full_queue:new-node-holds-the-record", ok,
                   "the capacity handed to the new node has passed 'nbytes <= capacity' after its last change: the reservation in the "
                   "fresh node cannot fail (a fitting statement is neither refused nor left to a second allocation)", loc=nw["loc"], fn=m)
        # inner: nbytes > max -> throw
        inner = []
        for (b2, c2) in g.branch_edges_on(lambda c: cmp_sides(c) is not None):
            op2, l2, r2 = cmp_sides(c2)
            if is_this_field(l2, "_max_capacity") and var_ref(r2) == nbytes and (b2, len(g.blocks[b2]["el"])) in over:
                inner.append((b2, c2, op2))
        ok = False
        if inner and throws:
            b2, c2, op2 = inner[0]
            t2 = (b2, len(g.blocks[b2]["el"]))
            t_reach = g.reach([t2], avoid_edges=[(b2, "F")])
            f_reach = g.reach([t2], avoid_edges=[(b2, "T")])
            ok = all(p not in t_reach for p in rets) and any(p in t_reach for p in throws) and all(p not in f_reach for p in throws)
        ctx.ob("C02.R4d", "_handle_full_queue:too-large-record-throws", ok,
               "a record larger than the maximum capacity is rejected with an error on every path (and only then)", loc=cond["loc"], fn=m)
    # ---- shrink
    m = byname["shrink"]
    g = m.g
    cap = m.rec["params"][0]["did"]
    news = [n for n in m.walk() if n["k"] == "CXXNewExpr"]
    ctx.floor("C02.R4", "allocation in shrink", len(news), 1)
    for nw in news:
        guards = []
        for (bid, cond) in g.branch_edges_on(lambda c: cmp_sides(c) is not None):
            op, l, r = cmp_sides(cond)
            # half < capacity  (capacity > half)  -> return
            hs = strip(l, casts=True)
            if var_ref(r) == cap and isnode(hs) and hs["k"] == "BinaryOperator" and \
                    ((hs["op"] == ">>" and const_val(hs["rhs"]) == 1) or (hs["op"] == "/" and const_val(hs["rhs"]) == 2)) and \
                    any(is_call(x, r"::capacity$") for x in walk(hs["lhs"])):
                guards.append((bid, cond, op))
        ok = False
        if guards:
            bid, cond, op = guards[0]
            npos = g.positions(nw)
            ok = op == "<" and not g.exists_path([g.entry_node], npos, avoid_edges=[(bid, "F")])
        ctx.ob("C02.R4e", "shrink:alloc-only-when-smaller", ok,
               "shrink allocates only when the requested capacity is at most half of the current one (never grows, never exceeds the cap)",
               loc=nw["loc"], fn=m)


def check_r5(ctx, meths):
    d = [m for m in meths if m.rec.get("dtor")]
    if not d:
        raise AnalysisBroken("~UnboundedSPSCQueue not found")
    m = d[0]
    dels = [n for n in m.walk() if n["k"] == "CXXDeleteExpr"]
    loops = [n for n in m.walk() if n["k"] in ("WhileStmt", "ForStmt", "DoStmt")]
    ok = False
    for lp in loops:
        inner = list(walk(lp.get("body")))
        has_del = any(x["k"] == "CXXDeleteExpr" for x in inner)
        follows_next = any(x["k"] == "MemberExpr" and x.get("mname") == "next" for x in inner)
        if has_del and follows_next:
            ok = True
    starts = any(is_this_field(x, "_consumer") for x in m.walk() if x["k"] == "MemberExpr")
    ctx.ob("C02.R5", "~UnboundedSPSCQueue:frees-chain", ok and starts and len(dels) >= 1,
           "the destructor walks next from _consumer and deletes every remaining node", fn=m)


def check_cap_passthrough(ctx, facts, cfg, rule="C02.R4g"):
    """the configured maximum reaches the queue unchanged: FrontendOptions::unbounded_queue_max_capacity -> ScopedThreadContext ->
    ThreadContext -> UnboundedSPSCQueue::_max_capacity, each hop forwarding its own parameter as it is"""
    hops = []
    # get_local_thread_context<FO>: the static local is constructed from FO's four constants, in order
    n = 0
    for f in facts.fns:
        if f.config != cfg or f.short != "quill::detail::get_local_thread_context":
            continue
        n += 1
        cons = [x for x in f.walk() if x["k"] in ("CXXConstructExpr", "CXXTemporaryObjectExpr") and "ScopedThreadContext" in (x.get("callee") or x.get("ty") or "")]
        ok = False
        for c in cons:
            a = c.get("args") or []
            if len(a) >= 3:
                names = [[x.get("name", "").split("::")[-1] for x in walk(arg) if x["k"] == "DeclRefExpr" and x.get("dk") in ("Var", "EnumConstant", "VarTemplateSpecialization") or
                          (x["k"] == "DeclRefExpr" and "unbounded_queue_max_capacity" in x.get("name", ""))] for arg in a]
                raw = strip(a[2], casts=True)
                ok = isnode(raw) and raw["k"] == "DeclRefExpr" and raw.get("name", "").endswith("unbounded_queue_max_capacity")
        hops.append(("get_local_thread_context", ok, f))
    if n == 0:
        raise AnalysisBroken("get_local_thread_context instantiations not found")
    def forwards(f, callee_pat, arg_index, param_index, what):
        ps = f.rec.get("params") or []
        cons = [x for x in f.walk() if (x["k"] in ("CXXConstructExpr", "CXXTemporaryObjectExpr", "CallExpr", "CXXNewExpr")) and re.search(callee_pat, (x.get("callee") or "") + " " + (x.get("ty") or ""))]
        ok = False
        for c in cons:
            a = c.get("args") or []
            if len(a) > arg_index and len(ps) > param_index:
                ok = ok or var_ref(a[arg_index]) == ps[param_index]["did"]
        hops.append((what, ok, f))
    stc = [f for f in facts.fns if f.config == cfg and f.cls == "quill::detail::ScopedThreadContext" and f.rec.get("ctor") and len(f.rec.get("params") or []) == 4]
    tc = [f for f in facts.fns if f.config == cfg and f.cls == "quill::detail::ThreadContext" and f.rec.get("ctor") and len(f.rec.get("params") or []) == 4]
    uq = [f for f in facts.fns if f.config == cfg and f.cls == CLS and f.rec.get("ctor") and len(f.rec.get("params") or []) >= 2]
    if not stc or not tc or not uq:
        raise AnalysisBroken("ScopedThreadContext / ThreadContext / UnboundedSPSCQueue constructors not found")
    # ScopedThreadContext: make_shared<ThreadContext>(queue_type, initial, max, policy)
    f = stc[0]
    ok = False
    for i in f.rec.get("inits") or []:
        for x in walk(i.get("expr")):
            if is_call(x, r"^std::make_shared<quill::(v\d+::)?detail::ThreadContext") and len(x["args"]) >= 3:
                ok = var_ref(x["args"][2]) == f.rec["params"][2]["did"]
    hops.append(("ScopedThreadContext", ok, f))
    forwards(tc[0], r"UnboundedSPSCQueue", 1, 2, "ThreadContext")
    f = uq[0]
    ok = any(i.get("member") == "_max_capacity" and var_ref(i.get("expr")) == f.rec["params"][1]["did"] for i in f.rec.get("inits") or [])
    hops.append(("UnboundedSPSCQueue", ok, f))
    for (what, ok, f) in hops[:1] + hops[n:]:
        ctx.ob(rule, "max-capacity-pass-through:%s" % what, ok,
               "%s hands the configured unbounded_queue_max_capacity on exactly as it received it (not rounded, scaled or replaced): the "
               "limit the queue enforces is the limit the user set" % what, fn=f)


def check_empty_semantics(ctx, byname, rule="C02.R6"):
    """'the queue is empty' means: the consumer's node is empty AND the producer has not published a further node. Everything that
    waits for quiescence (exit drain, context removal, logger removal, the batch-stop test) relies on it."""
    from rules.common import flatten
    m = byname["empty"]
    g = m.g
    rets = [g.node_ast(r) for r in g.return_nodes()]
    ok = bool(rets)
    why = []
    for r in rets:
        v = r.get("val")
        if const_val(v) == 0:
            continue  # 'not empty' needs no justification
        parts = flatten(v, "&&")
        node_empty = any(is_call(strip(x, casts=True), r"BoundedSPSCQueueImpl<.*>::empty$") for x in parts)
        no_next = False
        for x in parts:
            nc = norm_cmp(x)
            if nc and nc[0] == "==" and any((atomic_op(y) or {}).get("kind") == "load" and field_name(atomic_op(y)["obj"]) == "next" for y in walk(x)) and \
                    ("nullptr" in nc[1:] or any(is_null(z) for z in (strip(x)["lhs"], strip(x)["rhs"]))):
                no_next = True
            sx = strip(x)
            if isnode(sx) and sx["k"] == "UnaryOperator" and sx["op"] == "!" and any((atomic_op(y) or {}).get("kind") == "load" and field_name(atomic_op(y)["obj"]) == "next" for y in walk(sx)):
                no_next = True
        if not (node_empty and no_next):
            ok = False
            why.append("node empty: %s, no further node: %s" % (node_empty, no_next))
    ctx.ob(rule, "UnboundedSPSCQueue::empty:considers-next-node", ok,
           "empty() reports 'empty' only when the consumer's node is empty and no further node has been published%s" %
           ((" — " + "; ".join(why)) if why else ""), fn=m)
