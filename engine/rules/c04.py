"""C04 — size / encode / decode agreement and deep copy (DESIGN §4 C04)."""
import os
import re
from collections import defaultdict

import layout
import qlib
from layout import Folder, Unfoldable, flatten, canon, mark_top_refs, norm_type
from qlib import (AnalysisBroken, strip, isnode, walk, is_call, var_ref, const_val, call_obj, field_name, short, is_this_field,
                  norm_cmp)
from rules.c02 import cmp_sides
from rules.common import cpos, npos, need_some, core_and_neg, tnode, other, in_subtree, branches_on_call

TECHNIQUE = "static analysis: symbolic byte-layout summaries of sibling codec functions compared by value flow, plus CFG path rules"
EXPLANATION = ("Codec agreement. R1 (triplet layout): for every Codec<T> instantiated by the witness type matrix — arithmetic, enum, "
               "pointer, C strings and char arrays, std::string/string_view, StringRef, every quill/std container header, optional, "
               "pair, tuple, chrono, filesystem path, the deferred (memcpy and placement) and direct format codecs, nested — the "
               "symbolic byte layouts of compute_encoded_size, encode and decode_arg are equal item by item (fixed sizes with sizeof "
               "evaluated in the instantiation, run-time lengths, nested codecs expanded, loops, optional parts, member order); what "
               "the decoder reads from the buffer (counts, lengths, flags) is matched by value flow to what the encoder stored at that "
               "position. R2 (size-cache discipline): the k-th cached length read by encode is the k-th pushed by the size pass "
               "(folded into R1), no size pass combines two cache-pushing operands with an unsequenced operator, and the cache is "
               "cleared for every argument list in which some type pushes. R3 (record header): _encode_header writes timestamp, "
               "metadata, logger, decoder as four words in the order and with the types the backend reads them; the constant part of "
               "the reserved size equals the header size; the dynamic level is written after the arguments, sized identically on both "
               "sides and present iff has_dynamic_log_level; flush and logger-removal records agree with their decoders. R4: the size "
               "reserved is the size committed (same variable, not redefined in between). R5 (deep copy): no encode copies the address "
               "of the argument's storage except the two documented by-reference codecs; the decoded argument store is used only "
               "inside the decode function's call tree (formatted before the producer may overwrite the bytes)."
               " R6g-j: owned copies of class-type arguments stay alive in a linked list while the format slots refer to them; the configured sanitisation is applied to every statement it is configured for. R8c: the sanitiser's two passes follow the predicate with the same polarity. R10 (= C12.R9): runtime-metadata statements keep exactly their message. R11: InlinedVector (the size cache): union arm by capacity, index below size, growth copies all elements. R12: C-string / char-array encoders write the terminator the decoder's strnlen relies on."
               ' R14: DirectFormatCodec::encode formats the argument into the queue buffer at the cursor, limited to the cached length it then advances by.'
               " R1's witness nests StringRef in a tuple and a pair (each composite decodes an element with the codec of the encoded type); a braced list of decode_arg calls is folded left to right.")
NOT_DECIDED = ("Equality of the formatted text with synchronous formatting for every value (NaN, locale, extremes); the hex-escape "
               "arithmetic of the non-printable sanitiser; strings longer than 4 GiB; alignment arithmetic of the placement codec "
               "beyond constant agreement.")
ASSUMPTIONS = ["a nested codec is compared through its own (separately compared) layout"]
KIND = {"compute_encoded_size": "size", "encode": "encode", "decode_arg": "decode"}
BY_REFERENCE_OK = {"quill::Codec<quill::utility::StringRef>": "StringRef: documented by-reference codec (the caller guarantees the lifetime)",
                   "quill::Codec<const void *>": "void const*: the pointer value itself is the datum",
                   "quill::Codec<void *>": "void*: the pointer value itself is the datum"}
STD_HEADER_EXEMPT = {"WideString.h": "Windows-only (wide strings are not compiled on this platform)"}


def collect(facts):
    lams = defaultdict(list)
    for f in facts.fns:
        if f.rec.get("parent"):
            lams[f.rec["parent"]].append(f)
    fns = defaultdict(dict)
    for f in facts.fns:
        if not f.cls or not re.match(r"^quill::(Codec|DeferredFormatCodec|DirectFormatCodec)<", f.cls):
            continue
        if f.base in KIND and KIND[f.base] not in fns[f.cls]:
            fns[f.cls][KIND[f.base]] = f
    return fns, lams


def key_of(cls):
    """the name nested calls use for this codec"""
    m = re.match(r"^quill::Codec<(.*)>$", cls)
    if m:
        t = m.group(1)
        if t.endswith(", void"):
            t = t[:-6]
        return norm_type(t)
    m = re.match(r"^quill::(DeferredFormatCodec|DirectFormatCodec)<(.*)>$", cls)
    return m.group(1) + "<" + norm_type(m.group(2)) + ">"


def run(ctx):
    units = [("effects.cpp", ())]
    for (w, flags) in units:
        facts = ctx.facts(w, "A", flags)
        triplets(ctx, facts, w)
        cache_rules(ctx, facts)
        by_reference(ctx, facts)
    if ctx.tier == "thorough":
        from rules import c11
        path = matrix_witness()
        facts = ctx.facts(path, "A", ())
        triplets(ctx, facts, "effects_matrix")
        cache_rules(ctx, facts)
    core = ctx.facts("core.cpp", "A")
    header(ctx, core)
    reserve_commit(ctx, core)
    reserve_commit(ctx, ctx.facts("effects.cpp", "A", ()))
    store_usage(ctx, core)
    string_flag(ctx, ctx.facts("effects.cpp", "A", ()), core)
    order_preserved(ctx, ctx.facts("effects.cpp", "A", ()))
    hex_escape(ctx, core)
    member_helpers(ctx, ctx.facts("effects.cpp", "A", ()))
    dynamic_level_byte(ctx, core)
    decode_routing(ctx, core)
    formats_through_fmt(ctx, core)
    inlined_vector(ctx, ctx.facts("effects.cpp", "A", ()))
    c_string_terminators(ctx, ctx.facts("effects.cpp", "A", ()))
    stores_one_argument(ctx, ctx.facts("effects.cpp", "A", ()))
    direct_format_writes_text(ctx, ctx.facts("effects.cpp", "A", ()))
    # a statement with run-time source metadata keeps exactly its message text (= C12.R9: cut at the separators measured on the text
    # as formatted, shortened before it is sanitised)
    from rules import c12
    from rules.c09 import Renamed
    c12.r9_runtime_metadata(Renamed(ctx, "C12.R9", "C04.R10"), core)


def direct_format_writes_text(ctx, facts):
    """R14: DirectFormatCodec formats on the caller and ships the text. The layout rule (R1) decides that the cursor moves by the cached
    length; this one that the bytes behind the length field are the text: encode calls format_to_n on the cursor, limited to the very
    length it then advances by, with the argument it was given — before the cursor moves on"""
    fs = [f for f in facts.fns if f.config == "A" and f.cls and f.cls.startswith("quill::DirectFormatCodec<") and f.base == "encode"]
    ctx.floor("C04.R14", "DirectFormatCodec<T>::encode instantiations in the witness", len(fs), 1)
    for f in fs[:4]:
        g = f.g
        params = f.rec["params"]
        buf, argp = params[0]["did"], params[3]["did"]
        adv = [n for n in f.walk() if n["k"] == "CompoundAssignOperator" and n["op"] == "+=" and var_ref(n["lhs"]) == buf]
        lens = [var_ref(n["rhs"]) for n in adv if var_ref(n["rhs"]) is not None]
        calls = f.calls(r"fmtquill::(v\d+::)?format_to_n")
        ok = bool(calls) and bool(lens)
        for c in calls:
            a = c.get("args") or []
            ok = ok and len(a) >= 4 and any(x["k"] == "DeclRefExpr" and x.get("did") == buf for x in walk(a[0])) and var_ref(a[1]) in lens and \
                any(x["k"] == "DeclRefExpr" and x.get("did") == argp for x in walk(a[3])) and \
                any(x["k"] == "StringLiteral" and x.get("str") == "{}" for x in walk(a[2]))
            # ... written before the cursor leaves the place: between the call and the exit lies the advance by that length
            last = [p for n in adv if var_ref(n["rhs"]) == var_ref(a[1]) for p in g.positions(n)] if len(a) >= 2 else []
            ok = ok and bool(last) and not g.exists_path([g.entry_node], last, avoid_nodes=g.positions(c))
        ctx.ob("C04.R14", "%s::encode:text-written" % f.cls.replace("quill::", "")[:60], ok,
               "the text is formatted into the queue buffer at the cursor, limited to the cached length the cursor then advances by, from "
               "the argument itself and the plain \"{}\" template (what the backend later shows is what formatting the argument at the "
               "call site gives)", fn=f)


def matrix_witness():
    from rules import c11
    import hashlib
    # reuse the C11 generator (same type matrix) without compiling IR
    lines = ['#include "effects.cpp"', "namespace qv {"]
    types = []
    for e in c11.BASE:
        for c in ("std::vector<%s>", "std::deque<%s>", "std::list<%s>", "std::forward_list<%s>", "std::array<%s, 2>", "std::optional<%s>"):
            types.append(c % e)
        types.append("std::pair<%s, int>" % e)
        types.append("std::tuple<%s, %s, int>" % (e, e))
    for e in c11.ORDERED:
        types.append("std::set<%s>" % e)
        types.append("std::multiset<%s>" % e)
        types.append("std::unordered_set<%s>" % e)
        for v in c11.BASE:
            types.append("std::map<%s, %s>" % (e, v))
            types.append("std::unordered_map<%s, %s>" % (e, v))
    for t in list(types)[::5]:
        types.append("std::vector<%s>" % t)
        types.append("std::optional<%s>" % t)
    for i, t in enumerate(types):
        lines.append("template <typename FO> void lay_m%d(quill::LoggerImpl<FO>* l, %s const& v) { LOG_INFO(l, \"{}\", v); }" % (i, t))
        lines.append("template void lay_m%d<FO_BoundedBlocking>(quill::LoggerImpl<FO_BoundedBlocking>*, %s const&);" % (i, t))
    lines.append("}")
    src = "\n".join(lines) + "\n"
    os.makedirs(qlib.CACHE, exist_ok=True)
    path = os.path.join(qlib.CACHE, "layout_matrix-%s.cpp" % hashlib.sha256(src.encode()).hexdigest()[:12])
    if not os.path.exists(path):
        with open(path, "w") as fh:
            fh.write(src)
    return path


def triplets(ctx, facts, unit):
    fns, lams = collect(facts)
    layouts = {}
    pushes = {}
    broken = []
    for cls, d in fns.items():
        k = key_of(cls)
        layouts.setdefault(k, {})
        for kind, f in d.items():
            try:
                fo = Folder(f, kind, facts, lams)
                layouts[k][kind] = fo.fold()
                if kind == "size":
                    pushes[k] = fo.pushes
            except Unfoldable as e:
                broken.append("%s::%s: %s" % (cls, f.base, e))
    if broken:
        raise AnalysisBroken("codec function(s) of a shape the layout folder does not cover: " + "; ".join(broken[:5]))
    n = 0
    headers = set()
    enc_locs = []
    for cls, d in sorted(fns.items()):
        k = key_of(cls)
        if set(d) != {"size", "encode", "decode"}:
            continue  # only instantiated on one side (e.g. a decode-only helper type): nothing to compare
        n += 1
        f = d["encode"]
        headers.add(f.loc.split(":")[0])
        enc_locs.append((f.loc.split(":")[0], int(f.loc.split(":")[1])))
        try:
            flat = {}
            for kind in ("size", "encode", "decode"):
                fl, idx = flatten(layouts[k][kind], kind, layouts, origin=k)
                mark_top_refs(fl, idx)
                flat[kind] = fl
            allpush = pushes
            cs = canon(flat["size"], allpush, None)
            ce = canon(flat["encode"], allpush, flat["encode"])
            cd = canon(flat["decode"], allpush, flat["encode"])
            # the size pass may sum fixed-size elements as count * (sizeof(A)+sizeof(B)): compare it with member order collapsed,
            # encode and decode exactly (order of members matters between those two)
            # a size is a sum: compare it with the encode layout as multisets of summands (per nesting level), fixed parts added up
            cs2 = canon(flat["size"], allpush, None, collapse=True, unordered=True)
            ce2 = canon(flat["encode"], allpush, flat["encode"], collapse=True, unordered=True)
        except Unfoldable as e:
            raise AnalysisBroken("%s: %s" % (cls, e))
        ok = ce == cd and (cs == ce or cs2 == ce2) and ce != ""
        what = "reserved = written = consumed: %s" % (cs if ok else "size{%s} encode{%s} decode{%s}" % (cs, ce, cd))
        ctx.ob("C04.R1", "%s:triplet" % cls.replace("quill::", ""), ok,
               "byte layout of compute_encoded_size, encode and decode_arg — " + what[:900], fn=f, detail={"size": cs, "encode": ce, "decode": cd})
    ctx.floor("C04.R1", "codec triplets compared (%s)" % unit, n, 45)
    if unit == "effects.cpp":
        std_dir = os.path.join(qlib.QUILL, "std")
        for h in sorted(os.listdir(std_dir)):
            if not h.endswith(".h"):
                continue
            if h in STD_HEADER_EXEMPT:
                ctx.note("std/%s not covered: %s" % (h, STD_HEADER_EXEMPT[h]))
                continue
            covered = ("std/" + h) in headers or (h in ("Chrono.h",) and any("DeferredFormatCodec" in c and "chrono" in c for c in fns))
            if not covered:
                raise AnalysisBroken("codec header std/%s contributes no compared triplet: the witness type matrix does not cover it" % h)
            ctx.ob("C04.R1h", "std/%s:covered" % h, True, "the header's codec is part of the compared type matrix")
            # ... every Codec specialisation the header defines, not only one of them (Array.h defines two: T[N] and std::array<T, N>)
            lines = open(os.path.join(std_dir, h)).read().split("\n")
            specs = [i + 1 for i, l in enumerate(lines) if l.startswith("struct Codec<")]
            used = set()
            for (fl, ln) in enc_locs:
                if fl == "std/" + h:
                    before = [s_ for s_ in specs if s_ <= ln]
                    if before:
                        used.add(max(before))
            missing = [s_ for s_ in specs if s_ not in used]
            if missing and not (h == "Chrono.h"):
                raise AnalysisBroken("std/%s: the Codec specialisation(s) defined at line(s) %s contribute no compared triplet: the witness "
                                     "type matrix does not instantiate them" % (h, missing))


def collect_pushes(items, layouts, own, pushes_by_key):
    """the size pass's pushed quantities in evaluation order, nested codecs included (static order; loops contribute their body once)"""
    out = []
    k_own = 0

    def rec(its, own_list):
        nonlocal out
        for it in its:
            if it.kind == "V" and isinstance(it.sym, tuple) and it.sym and it.sym[0] == "push":
                out.append(it.sym[2])
            elif it.kind in ("SUB", "SUBF"):
                inner = layouts.get(it.t, {}).get("size")
                if inner is not None:
                    rec(inner, pushes_by_key.get(it.t, []))
            elif it.kind == "REP":
                rec(it.body, own_list)
            elif it.kind == "OPT":
                rec(it.body, own_list)
                rec(it.orelse, own_list)
    # pops are numbered per function; within one function pushes are numbered the same way, so use the function's own list
    return own


def cache_rules(ctx, facts):
    fns, lams = collect(facts)
    # R2a: unsequenced combination of two cache-pushing operands
    n = 0
    for f in facts.fns:
        if f.config != "A":
            continue
        is_size = f.base in ("compute_encoded_size", "compute_encoded_size_and_cache_string_lengths", "compute_total_encoded_size") or \
            (f.rec.get("parent") and "compute_encoded_size" in f.rec["parent"])
        if not is_size or not f.short.startswith("quill::"):
            continue
        n += 1
        bad = []
        for x in f.walk():
            if x["k"] == "BinaryOperator" and x["op"] in ("+", "*", "-", "|", "&", "^") and "cval" not in x:
                def pushes(e):
                    return any(is_call(y, r"::compute_encoded_size$|InlinedVector<.*>::push_back$") for y in walk(e))
                if pushes(x["lhs"]) and pushes(x["rhs"]):
                    bad.append(x["loc"])
        ctx.ob("C04.R2a", "%s:sequenced" % f.name.replace("quill::", "")[:150], not bad,
               "no unsequenced operator combines two operands that both push to the size cache (the encode pass reads the cache in "
               "argument order)%s" % ((" — at " + ", ".join(bad[:3])) if bad else ""), fn=f)
    ctx.floor("C04.R2a", "size-pass functions", n, 40)
    # R2b: cache cleared whenever some argument type pushes
    fns_c, lams_c = collect(facts)
    layouts, pushes = {}, {}
    for cls, d in fns_c.items():
        if "size" in d:
            try:
                fo = Folder(d["size"], "size", facts, lams_c)
                layouts.setdefault(key_of(cls), {})["size"] = fo.fold()
            except Unfoldable:
                pass

    def type_pushes(t, seen=()):
        its = layouts.get(t, {}).get("size")
        if its is None or t in seen:
            return True  # unknown: assume it may push
        def rec(items):
            for it in items:
                if it.kind == "V" and isinstance(it.sym, tuple) and it.sym[0] == "push":
                    return True
                if it.kind in ("SUB", "SUBF") and type_pushes(it.t, seen + (t,)):
                    return True
                if it.kind == "REP" and rec(it.body):
                    return True
                if it.kind == "OPT" and (rec(it.body) or rec(it.orelse)):
                    return True
            return False
        return rec(its)
    m = 0
    for f in facts.fn("quill::detail::compute_encoded_size_and_cache_string_lengths", "A"):
        calls = f.calls(r"^quill::(Codec|DeferredFormatCodec|DirectFormatCodec)<.*>::compute_encoded_size$")
        types = []
        for c in calls:
            cd = layout.codec_of(c["callee"])
            fc = layout.FORMAT_CODEC.match(c["callee"])
            types.append(norm_type(cd[0]) if cd else fc.group(1) + "<" + norm_type(fc.group(2)) + ">")
        needs = [t for t in types if type_pushes(t)]
        clears = f.calls(r"InlinedVector<.*>::clear$")
        g = f.g
        # ... or a helper that is handed the cache and clears it on every path (the `if constexpr` around the clear is resolved in the
        # helper's instantiation exactly as it was here)
        cache_param = f.rec["params"][0]["did"] if f.rec.get("params") else None
        for hc in f.calls():
            if hc in clears or not any(var_ref(a) == cache_param for a in (hc.get("args") or [])) or cache_param is None:
                continue
            hs = [x for x in facts.fns if x.config == "A" and x.name == hc.get("callee")]
            if len(hs) != 1:
                continue
            h = hs[0]
            pi = [i for i, a in enumerate(hc.get("args") or []) if var_ref(a) == cache_param]
            if len(pi) != 1 or pi[0] >= len(h.rec.get("params") or []):
                continue
            hp = h.rec["params"][pi[0]]["did"]
            hcl = [c for c in h.calls(r"InlinedVector<.*>::clear$") if var_ref(call_obj(c)) == hp]
            if hcl and not h.g.exists_path([h.g.entry_node], [h.g.exit_node], avoid_nodes=npos(h, hcl)):
                clears = clears + [hc]
        cp = npos(f, clears)
        first = npos(f, calls)
        ok = (not needs) or (bool(cp) and all(g.dominates(cp, p) for p in first))
        m += 1
        ctx.ob("C04.R2b", "compute_encoded_size_and_cache_string_lengths<%s>:cache-cleared" % ",".join(t[:30] for t in types)[:150], ok,
               "the size cache is cleared before the size pass whenever an argument type caches a length (types that cache: %s)" % (needs[:4] or "none"), fn=f)
    ctx.floor("C04.R2b", "instantiations of the top-level size pass", m, 10)
    # encode starts reading the cache at 0
    e = 0
    for f in facts.fn("quill::detail::encode", "A"):
        decls = [d for d in f.var_decls().values() if "unsigned int" in d.get("ty", "") or "uint32_t" in d.get("ty", "")]
        ok = any(const_val(d.get("init")) == 0 or (isnode(d.get("init")) and any(x.get("val") == 0 for x in walk(d["init"]) if x["k"] == "IntegerLiteral")) for d in decls)
        e += 1
        if e <= 12:
            ctx.ob("C04.R2c", "detail::encode#%d:index-starts-at-0" % e, ok, "the encode pass reads the cached lengths from index 0", fn=f)


def by_reference(ctx, facts):
    fns, lams = collect(facts)
    n = 0
    for cls, d in sorted(fns.items()):
        f = d.get("encode")
        if f is None:
            continue
        n += 1
        bad = []
        for c in f.calls(r"^(std::)?memcpy$"):
            src = strip(c["args"][1], casts=True)
            if isnode(src) and src["k"] == "UnaryOperator" and src["op"] == "&":
                t = strip(src["sub"])
                ty = t.get("ty", "") if isnode(t) else ""
                if ty.rstrip().endswith("*") or "*const" in ty.replace(" ", ""):
                    bad.append((c["loc"], ty))
        if bad and cls in BY_REFERENCE_OK:
            ctx.ob("C04.R5a", "%s:by-reference" % cls.replace("quill::", ""), True, "named exception — " + BY_REFERENCE_OK[cls], fn=f)
            continue
        ctx.ob("C04.R5a", "%s:deep-copy" % cls.replace("quill::", "")[:150], not bad,
               "encode copies bytes, not the address of the argument's storage%s" % ((" — copies a pointer at " + bad[0][0]) if bad else ""), fn=f)
    ctx.floor("C04.R5a", "encode functions", n, 45)


def header(ctx, facts):
    enc = facts.need("quill::LoggerImpl::_encode_header", "A", floor=4)
    dec = facts.need("quill::detail::BackendWorker::_populate_transit_event_from_frontend_queue", "A")[0]
    # decode side: sequence of (destination type, size) read from the cursor before the decoder call
    cursor = dec.rec["params"][0]["did"]
    dseq = []
    for c in dec.calls(r"^(std::)?memcpy$"):
        if var_ref(c["args"][1]) != cursor:
            continue
        d = strip(c["args"][0], casts=True)
        if isnode(d) and d["k"] == "UnaryOperator" and d["op"] == "&":
            t = strip(d["sub"])
            dseq.append((c, norm_ty(t.get("ty", "")), const_val(c["args"][2]), field_name(t) or t.get("name")))
    g = dec.g
    ind = g.pos_of(lambda n: isnode(n) and n.get("k") == "CallExpr" and n.get("indirect"))
    pro = [x for x in dseq if ind and all(g.exists_path(g.positions(x[0]), ind) and not g.exists_path(ind, g.positions(x[0])) for _ in [0])]
    prologue = [x for x in pro if x[3] not in ("flush_flag_tmp", "logger_removal_flag_tmp")][:4]
    for f in enc[:5]:
        eseq = []
        for c in f.calls(r"^(std::)?memcpy$"):
            s = strip(c["args"][1], casts=True)
            if isnode(s) and s["k"] == "UnaryOperator" and s["op"] == "&":
                t = strip(s["sub"])
                eseq.append((norm_ty(t.get("ty", "")), const_val(c["args"][2])))
        # advances
        adv = [const_val(n["rhs"]) for n in f.walk() if n["k"] == "CompoundAssignOperator" and n["op"] == "+="]
        dtypes = [(x[1], x[2]) for x in prologue]
        ok = len(eseq) == 4 and eseq == dtypes and adv == [x[1] for x in eseq]
        ctx.ob("C04.R3a", "_encode_header<%s>:order" % f.name.split("LoggerImpl<")[1].split(">")[0], ok,
               "the record header is written as %s and read as %s (same types, sizes and order; cursor advanced by each size: %s)" % (eseq, dtypes, adv), fn=f)
    # every read from the cursor is followed, before the cursor is used again, by exactly one advance of the size just read
    advs = [x for x in dec.walk() if x["k"] == "CompoundAssignOperator" and x["op"] == "+=" and var_ref(x["lhs"]) == cursor]
    adv_pos = {p_: x for x in advs for p_ in g.positions(x)}
    uses = set()
    for x in dec.walk():
        if x["k"] == "DeclRefExpr" and x.get("did") == cursor:
            par = dec.parent(x)
            # the advance statements themselves are not 'uses'
            if any(in_subtree(x, a) for a in advs):
                continue
            for p_ in g.positions(x) or []:
                uses.add(p_)
    for (c, ty, n, name) in dseq:
        cp_ = g.positions(c)
        own = set(p_ for x in walk(c) for p_ in (g.positions(x) or [])) | set(cp_)
        later_uses = [u for u in uses if u not in own and g.exists_path(cp_, [u])]
        reach_wo_use = g.reach(cp_, avoid_nodes=[u for u in later_uses])
        mine = [p_ for p_ in adv_pos if p_ in reach_wo_use]
        at_least = not g.exists_path(cp_, later_uses + [g.exit_node], avoid_nodes=list(adv_pos)) if (later_uses or True) else True
        sizes = sorted(set(const_val(adv_pos[p_]["rhs"]) for p_ in mine))
        twice = any(g.exists_path([a], [b], avoid_nodes=later_uses) for a in mine for b in mine if a != b) or \
            any(g.exists_path([a], [a], avoid_nodes=later_uses) for a in mine)
        ctx.ob("C04.R3b", "decode:%s:advance" % name, bool(mine) and at_least and sizes == [n] and not twice,
               "after reading %s (%s bytes) the read position advances by exactly that amount, once, before it is used again "
               "(advances found: %s, on every path: %s, twice: %s)" % (name, n, sizes, at_least, twice), loc=c["loc"], fn=dec)
    # constant part of the reserved size = header size; dynamic level
    for f in facts.need("quill::LoggerImpl::log_statement", "A", floor=8):
        targs = f.rec.get("targs") or []
        has_dyn = len(targs) > 1 and targs[1] == "true"
        inits = f.var_inits()
        prep = need_some(f.calls(r"::_prepare_write_buffer$"), "log_statement: reservation")
        tv = var_ref(prep[0]["args"][0])
        init = inits.get(tv)
        const_part = 0
        if isnode(init):
            for x in walk(init):
                pass
            const_part = sum_consts(init)
        site = "log_statement<%s|%s>" % (f.name.split("LoggerImpl<")[1].split(">")[0], ",".join(targs[:2]))
        ctx.ob("C04.R3c", site + ":header-size", const_part == 32,
               "the constant part of the reserved size (%s) equals the four header words (32)" % const_part, fn=f)
        dynp = f.rec["params"][0]["did"]
        adds = [n for n in f.walk() if n["k"] == "CompoundAssignOperator" and n["op"] == "+=" and var_ref(n["lhs"]) == tv]
        mc = [c for c in f.calls(r"^(std::)?memcpy$") if any(x["k"] == "DeclRefExpr" and x.get("did") == dynp for x in walk(c["args"][1]))]
        g = f.g
        encs = cpos(f, r"^quill::detail::encode<") + cpos(f, r"^quill::detail::encode$")
        ok = (len(adds) == 1 and len(mc) == 1) == has_dyn and (len(adds) == 0 and len(mc) == 0) == (not has_dyn)
        if has_dyn and ok:
            ok = const_val(adds[0]["rhs"]) == const_val(mc[0]["args"][2]) and all(g.dominates(encs, p) for p in g.positions(mc[0])) and \
                not g.exists_path(g.positions(mc[0]), encs)
        ctx.ob("C04.R3d", site + ":dynamic-level", ok,
               "the dynamic level is reserved and written iff has_dynamic_log_level (%s), with the same size, after the arguments" % has_dyn, fn=f)
    # decode side of the dynamic level: after the decoder call, same size as written (sizeof LogLevel)
    dl = [x for x in dseq if x[3] == "dynamic_log_level"]
    ok = len(dl) == 1 and all(not g.exists_path(g.positions(dl[0][0]), ind) for _ in [0]) and dl[0][2] == 1
    ctx.ob("C04.R3e", "decode:dynamic-level-after-arguments", ok,
           "the backend reads the dynamic level (1 byte) after the arguments were decoded", fn=dec)
    # control events
    fl = [x for x in dseq if x[3] == "flush_flag_tmp"]
    rm = [x for x in dseq if x[3] == "logger_removal_flag_tmp"]
    ok = len(fl) == 1 and fl[0][2] == 8 and len(rm) == 1 and rm[0][2] == 8 and bool(dec.calls(r"Codec<std::(__cxx11::)?basic_string<char.*>::decode_arg$"))
    fr = [f for f in facts.fn("quill::LoggerImpl::flush_log", "A")]
    fr_ok = all(any("log_statement<false, false, unsigned long>" in c["callee"] for c in f.calls(r"log_statement<")) for f in fr)
    rr = [f for f in facts.fn("quill::FrontendImpl::remove_logger_blocking", "A")]
    rr_ok = all(any(re.search(r"log_statement<false, false, unsigned long, const std::(__cxx11::)?basic_string<char", c["callee"]) for c in f.calls(r"log_statement<")) for f in rr)
    ctx.ob("C04.R3f", "control-records", ok and fr_ok and rr_ok and bool(fr) and bool(rr),
           "flush record = one 8-byte word on both sides; logger-removal record = 8-byte word then a std::string on both sides", fn=dec)


def _reach_both(g, allowed, own, pb):
    """is push_back reachable from the entry inside the node set `allowed` without passing a node of `own`?"""
    seen, todo = set(), [g.entry_node]
    own = set(own)
    pbs = set(pb)
    while todo:
        x = todo.pop()
        if x in seen or x not in allowed or x in own:
            continue
        seen.add(x)
        if x in pbs:
            return True
        for (y, _l) in g.succ.get(x, ()):
            todo.append(y)
    return False


def decode_routing(ctx, facts):
    """R3g/R3h: which kind of record is decoded how (the reader's side of the control-record layouts), and that a decoded statement
    gets its text"""
    from rules.common import enum_edges, only_when, never_when
    dec = facts.need("quill::detail::BackendWorker::_populate_transit_event_from_frontend_queue", "A")[0]
    g = dec.g
    cursor = dec.rec["params"][0]["did"]
    ind = g.pos_of(lambda n: isnode(n) and n.get("k") == "CallExpr" and n.get("indirect"))
    words = {}
    for c in dec.calls(r"^(std::)?memcpy$"):
        if var_ref(c["args"][1]) != cursor:
            continue
        d = strip(c["args"][0], casts=True)
        if isnode(d) and d["k"] == "UnaryOperator" and d["op"] == "&":
            t = strip(d["sub"])
            words[field_name(t) or t.get("name")] = g.positions(c)
    fl = words.get("flush_flag_tmp") or []
    rm = words.get("logger_removal_flag_tmp") or []
    en = facts.enum("quill::MacroMetadata::Event", "A")
    if not ind or not fl or not rm or not en:
        raise AnalysisBroken("_populate_transit_event_from_frontend_queue: decoder call / control words / Event enum not found")
    from rules.common import reach_under_enum
    names = [n for (n, _v) in en["enumerators"]]
    pb = npos(dec, dec.calls(r"TransitEventBuffer::push_back$"))
    table, bad = {}, []
    for e in names:
        r_ = reach_under_enum(g, r"MacroMetadata::event$", names, e)
        got = tuple(k for k, ps in (("decoder", ind), ("flush-word", fl), ("removal-word", rm)) if any(p_ in r_ for p_ in ps))
        table[e] = got
        want = ("flush-word",) if e == "Flush" else ("removal-word",) if e == "LoggerRemovalRequest" else ("decoder",)
        # ... and nothing is buffered for this kind without its own way of decoding
        own = {"decoder": ind, "flush-word": fl, "removal-word": rm}[want[0]]
        from rules.common import inconsistent_edges
        skipped = g.exists_path([g.entry_node], pb, avoid_nodes=own, avoid_edges=inconsistent_edges(g, r"MacroMetadata::event$", names, e))
        if got != want or skipped:
            bad.append("%s: %s%s" % (e, got, " (push_back reachable without it)" if skipped else ""))
    ctx.floor("C04.R3g", "Event enumerators", len(names), 6)
    ctx.ob("C04.R3g", "decode:record-kinds", not bad,
           "exhaustive over MacroMetadata::Event, deciding every test of event() under the assumption 'event() is E': the argument decoder "
           "stored in the header is what decodes every kind except Flush (exactly its flag word) and LoggerRemovalRequest (exactly its "
           "flag word and the logger name), and no kind is buffered without its own decoding step (%s)" % ("; ".join(bad) or "table as expected"), fn=dec)
    pop = npos(dec, dec.calls(r"BackendWorker::_populate_formatted_log_message$"))
    ok = bool(pop) and not g.exists_path(ind, pb, avoid_nodes=pop) and all(g.dominates(ind, p_) for p_ in pop)
    ctx.ob("C04.R3h", "decode:statement-gets-its-text", ok,
           "after the arguments were decoded every path to push_back formats the message (_populate_formatted_log_message), and the "
           "message is never formatted before the arguments of this record were decoded", fn=dec)


def formats_through_fmt(ctx, facts):
    """R3i: the text of a statement is produced by fmt from the template and the decoded arguments — with the same template
    processing the call site would apply (escaped braces!) — on every path; nothing but the error handlers puts other text there"""
    f = facts.need("quill::detail::BackendWorker::_populate_formatted_log_message", "A")[0]
    g = f.g
    tpl = f.rec["params"][1]["did"]
    vf = [c for c in f.calls(r"^fmtquill::(v\d+::)?vformat_to\b")]
    vp = npos(f, vf)
    uses_tpl = bool(vf) and all(any(x["k"] == "DeclRefExpr" and x.get("did") == tpl for x in walk(c["args"][1])) for c in vf)
    uses_store = bool(vf) and all(any(is_this_field(x, "_format_args_store") for x in walk(c)) for c in vf)
    from rules.common import try_stack, handler_info
    def in_handler(n):
        return any(n.get("k") == "CXXCatchStmt" or a["k"] == "CXXCatchStmt" for a in f.ancestors(n))
    other_text = [c for c in f.calls(r"::(append|push_back|assign|operator\+=|operator=|resize|try_resize)\b")
                  if any(x["k"] == "MemberExpr" and x.get("mname") == "formatted_msg" for x in walk(call_obj(c) if c["k"] != "CXXOperatorCallExpr" else c["args"][0]))
                  and not in_handler(c)]
    ok = bool(vp) and uses_tpl and uses_store and not other_text and not g.exists_path([g.entry_node], [g.exit_node], avoid_nodes=vp)
    ctx.ob("C04.R3i", "_populate_formatted_log_message:text-comes-from-fmt", ok,
           "the message is produced by fmtquill::vformat_to from the statement's template and the decoded argument store on every path "
           "(no shortcut copies the template or anything else into the message outside the error handlers: %d such write(s)) — a "
           "template without arguments is still a template ('{{' is one brace)" % len(other_text), fn=f)


def norm_ty(t):
    t = t.replace("const ", "").replace(" const", "").strip()
    t = re.sub(r"\b(\w+::)+", "", t)
    t = {"unsigned long": "uint64_t", "uint64_t": "uint64_t"}.get(t, t)
    return t


def sum_consts(e):
    e = strip(e, casts=True)
    if not isnode(e):
        return 0
    if "cval" in e and not any(x["k"] in ("CallExpr", "CXXMemberCallExpr") for x in walk(e)):
        return e["cval"]
    v = const_val(e)
    if v is not None and e["k"] in ("IntegerLiteral", "UnaryExprOrTypeTraitExpr"):
        return v
    if e["k"] == "BinaryOperator" and e["op"] == "+":
        return sum_consts(e["lhs"]) + sum_consts(e["rhs"])
    if e["k"] == "ParenExpr":
        return sum_consts(e.get("sub") or (e.get("c") or [None])[0])
    return 0


def reserve_commit(ctx, facts):
    for f in facts.need("quill::LoggerImpl::log_statement", "A", floor=8):
        g = f.g
        prep = need_some(f.calls(r"::_prepare_write_buffer$"), "reservation")
        com = need_some(f.calls(r"::finish_and_commit_write$"), "commit")
        vs = set(var_ref(c["args"][0]) for c in prep) | set(var_ref(c["args"][0]) for c in com)
        ok = len(vs) == 1 and None not in vs
        if ok:
            v = list(vs)[0]
            defs = npos(f, f.assignments_to_var(v))
            first = npos(f, prep)
            ok = not any(d in g.reach(first) for d in defs)
        site = "log_statement<%s|%s>" % (f.name.split("LoggerImpl<")[1].split(">")[0], ",".join((f.rec.get("targs") or [])[:2]))
        ctx.ob("C04.R4", site + ":reserved-equals-committed", ok,
               "the size reserved (also on retry) is the size committed: same variable, never redefined after the first reservation", fn=f)


def store_usage(ctx, facts):
    from rules.c10 import window_fns
    root, win = window_fns(facts, "A")
    allowed = set(id(f) for f in win) | {id(root)}
    bad = []
    n = 0
    for f in facts.fns:
        if f.config != "A" or f.rec.get("main"):
            continue
        if any(x["k"] == "MemberExpr" and x.get("mname") == "_format_args_store" for x in f.walk()):
            n += 1
            if id(f) not in allowed:
                bad.append(f.short)
    ctx.ob("C04.R5b", "_format_args_store:used-inside-the-read-window", not bad and n >= 3,
           "the decoded argument views are used only by the decode function and its callees, i.e. before finish_read lets the producer "
           "overwrite the bytes (%d user(s)%s)" % (n, (", outside: " + ", ".join(bad)) if bad else ""))


def string_flag(ctx, eff, core):
    """the 'contains string-like data' flag that gates the non-printable sanitiser is raised for every string-like decoded argument
    and the store is cleared per statement"""
    n = 0
    for f in eff.fn("quill::DynamicFormatArgStore::push_back", "A"):
        t = (f.rec.get("targs") or ["?"])[0]
        stringish = bool(re.search(r"basic_string_view<char|^char$|^const char \*$|basic_string<char", t))
        sets = [x for x in f.walk() if x["k"] == "BinaryOperator" and x["op"] == "=" and is_this_field(x["lhs"], "_has_string_related_type") and const_val(x["rhs"]) == 1]
        if not stringish:
            continue
        n += 1
        g = f.g
        sp = npos(f, sets)
        ok = bool(sp) and not g.exists_path([g.entry_node], [g.exit_node], avoid_nodes=sp)
        ctx.ob("C04.R6a", "DynamicFormatArgStore::push_back<%s>:marks-string" % t[:60], ok,
               "storing a decoded %s argument marks the statement as containing string-like data (the sanitiser is skipped otherwise)" % t[:60], fn=f)
    ctx.floor("C04.R6a", "string-like push_back instantiations", n, 2)
    # R6g: arguments that do not fit into a format-argument slot (containers, user types) are kept in a list of owned copies for as long
    # as the slots refer to them: push() links the new node in front of the whole existing list and hands out the copy inside the node;
    # an instantiation that stores an owned copy passes *that copy* to the slot, every other one passes its argument
    k = 0
    for f in eff.fn("quill::detail::DynamicArgList::push", "A")[:8]:
        k += 1
        g = f.g
        inits = f.var_inits()
        nn = [v for v, i in inits.items() if isnode(i) and any(x["k"] == "CXXNewExpr" for x in walk(i))]
        link = [x for x in f.walk() if x["k"] == "CXXOperatorCallExpr" and short(x.get("callee") or "").endswith("operator=") and len(x["args"]) == 2 and
                any(y["k"] == "MemberExpr" and y.get("mname") == "next" for y in walk(x["args"][0])) and any(is_this_field(y, "_head") for y in walk(x["args"][1]))]
        sethead = [x for x in f.walk() if x["k"] == "CXXOperatorCallExpr" and short(x.get("callee") or "").endswith("operator=") and len(x["args"]) == 2 and
                   is_this_field(strip(x["args"][0], casts=True), "_head") and any(var_ref(y) in nn for y in walk(x["args"][1]))]
        lp_, hp_ = npos(f, link), npos(f, sethead)
        rets = [g.node_ast(r) for r in g.return_nodes()]
        valv = [v for v, i in inits.items() if isnode(i) and any(y["k"] == "MemberExpr" and y.get("mname") == "value" and var_ref(strip(y.get("base"), casts=True)) in nn or
                                                               (y["k"] == "MemberExpr" and y.get("mname") == "value") for y in walk(i))]
        ok = len(nn) == 1 and len(link) == 1 and len(sethead) == 1 and all(g.dominates(lp_, p) for p in hp_) and \
            not g.exists_path([g.entry_node], [g.exit_node], avoid_nodes=hp_) and bool(rets) and all(var_ref(strip(r.get("val"), casts=True)) in valv for r in rets)
        if k <= 4:
            ctx.ob("C04.R6g", "DynamicArgList::push<%s>:keeps-the-list" % (f.rec.get("targs") or ["?"])[0][:50], ok,
                   "the new node takes over the existing list as its tail before it becomes the head (earlier copies stay alive while the "
                   "slots refer to them) and the reference returned is the copy inside the node", fn=f)
    ctx.floor("C04.R6g", "instantiations of DynamicArgList::push", k, 2)
    nocopy = re.compile(r"^(const )?(bool|char|signed char|unsigned char|short|unsigned short|int|unsigned int|long|unsigned long|long long|unsigned long long|"
                        r"float|double|long double|void \*|const void \*|(std|fmtquill)::basic_string_view<char.*>|fmtquill::(v\d+::)?basic_string_view<char>)$")
    miss = []
    for f in eff.fn("quill::DynamicFormatArgStore::push_back", "A"):
        t = (f.rec.get("targs") or ["?"])[0]
        is_enum = any(n_ == t for (n_, c_) in eff.enums)
        if not nocopy.match(t) and not is_enum and not f.calls(r"DynamicArgList::push<"):
            miss.append(t[:60])
    ctx.ob("C04.R6h", "DynamicFormatArgStore::push_back:class-type-arguments-are-copied", not miss,
           "every instantiation for a container / string / user type (anything but arithmetic, pointer and view types) stores an owned copy: "
           "the decoded object is a local of the decoder and is gone when the message is formatted (not copied: %s)" % (miss or "none"))
    for f in eff.fn("quill::DynamicFormatArgStore::push_back", "A"):
        pu = f.calls(r"DynamicArgList::push<")
        # the slot is written by the store's emplace_arg() helper or directly by _data.emplace_back() / push_back()
        em = f.calls(r"DynamicFormatArgStore::emplace_arg<") + \
            [c_ for c_ in f.calls(r"std::vector<.*>::(emplace_back|push_back)\b") if is_this_field(call_obj(c_), "_data")]
        if not pu:
            continue
        a0 = f.rec["params"][0]["did"]
        ok = len(em) == 1 and bool(em[0].get("args")) and any(x is pu[0] for x in walk(em[0]["args"][0])) and any(var_ref(y) == a0 for y in walk(pu[0]))
        k += 1
        if k <= 12:
            ctx.ob("C04.R6g", "DynamicFormatArgStore::push_back<%s>:slot-refers-to-the-owned-copy" % (f.rec.get("targs") or ["?"])[0][:50], ok,
                   "an instantiation that makes an owned copy hands the copy (the result of push()), not its short-lived argument, to the slot", fn=f)
    c = eff.need("quill::DynamicFormatArgStore::clear", "A")[0]
    ok = any(x["k"] == "BinaryOperator" and x["op"] == "=" and is_this_field(x["lhs"], "_has_string_related_type") and const_val(x["rhs"]) == 0 for x in c.walk()) and \
        any(is_call(x, r"std::vector<.*>::clear$") and is_this_field(call_obj(x), "_data") for x in c.walk())
    ctx.ob("C04.R6b", "DynamicFormatArgStore::clear", ok, "clear() empties the argument list and resets the flag", fn=c)
    m = 0
    for f in eff.fn("quill::detail::decode_and_store_args", "A"):
        g = f.g
        cl = cpos(f, r"DynamicFormatArgStore::clear$")
        de = cpos(f, r"::decode_and_store_arg<")
        ok = bool(cl) and bool(de) and all(g.dominates(cl, p) for p in de)
        m += 1
        if m <= 20:
            ctx.ob("C04.R6c", "decode_and_store_args#%d:clears-first" % m, ok,
                   "the decoder thunk clears the store before decoding a statement's arguments (no argument of the previous statement leaks)", fn=f)
    ctx.floor("C04.R6c", "decoder thunks", m, 10)
    f = core.need("quill::detail::BackendWorker::_populate_formatted_log_message", "A")[0]
    g = f.g
    san = cpos(f, r"::sanitize_non_printable_chars<")
    fmt = cpos(f, r"^fmtquill::(v\d+::)?vformat_to")
    hb = branches_on_call(f, r"DynamicFormatArgStore::has_string_related_type$")
    ok = bool(san) and bool(fmt) and bool(hb) and all(g.dominates(fmt, p) for p in san) and \
        not g.exists_path([g.entry_node], san, avoid_edges=[(b, t) for (b, t, c) in hb])
    clr = npos(f, [c for c in f.calls(r"::clear$") if any(x["k"] == "MemberExpr" and x.get("mname") == "formatted_msg" for x in walk(c))])
    ctx.ob("C04.R6e", "_populate_formatted_log_message:message-buffer-cleared-first", bool(clr) and bool(fmt) and all(g.dominates(clr, p) for p in fmt),
           "the reused transit event's message buffer is cleared before the statement is formatted into it", fn=f)
    ctx.ob("C04.R6d", "_populate_formatted_log_message:sanitise-after-format", ok,
           "the sanitiser runs on the formatted message, after formatting, for statements that carry string-like data", fn=f)

    def option_edges(fn):
        out = []
        for bid, b in fn.g.blocks.items():
            c = fn.g.term_cond(bid)
            if c is None:
                continue
            core, neg = core_and_neg(c)
            core = strip(core, casts=True)
            if is_call(core, r"std::function<bool \(char\)>::operator bool$") and \
                    any(x["k"] == "MemberExpr" and x.get("mname") == "check_printable_char" for x in walk(call_obj(core))):
                out.append((bid, "F" if neg else "T"))
        return out
    # R6i: the configured sanitisation is applied to every statement it is configured for: an ordinary statement with string-like data
    # right after formatting; a statement with run-time source metadata — whose text still carries the separators at that point — after
    # its parts were cut (_apply_runtime_metadata), whatever its arguments
    oe = option_edges(f)
    rt = []
    for bid, b in g.blocks.items():
        c = g.term_cond(bid)
        nc = norm_cmp(c) if c is not None else None
        if nc and nc[0] in ("==", "!=") and any(is_call(x, r"MacroMetadata::event$") for x in walk(c)) and \
                any(x["k"] == "DeclRefExpr" and x.get("dk") == "EnumConstant" and x.get("name", "").endswith("::LogWithRuntimeMetadata") for x in walk(c)):
            rt.append((bid, "T" if nc[0] == "!=" else "F"))       # label of 'not a runtime-metadata statement'
    all_true = oe + [(b, t) for (b, t, c) in hb] + rt
    ok_i = bool(oe) and bool(hb) and bool(rt) and bool(san)
    if ok_i:
        ok_i = all(g.exists_path([tnode(g, b)], san) for (b, t) in all_true) and \
            not g.exists_path([g.entry_node], san, avoid_edges=oe) and not g.exists_path([g.entry_node], san, avoid_edges=rt)
        # from the point where all three held: no way around
        for (b, t) in all_true:
            nxt = [y for (y, l2) in g.succ.get(tnode(g, b), ()) if l2 == t]
            others = [tnode(g, b2) for (b2, t2) in all_true if b2 != b]
            if not any(g.exists_path(nxt, [o]) for o in others):        # this is the last test on the chain
                ok_i = ok_i and not g.exists_path(nxt, [g.exit_node], avoid_nodes=san + npos(f, [x for x in f.walk() if x["k"] == "CXXThrowExpr"]) +
                                                  [q for t_ in [x for x in f.walk() if x["k"] == "CXXTryStmt"] for h in t_.get("handlers") or [] for q in (g.positions(h.get("body")) or [])])
    ctx.ob("C04.R6i", "_populate_formatted_log_message:sanitised-whenever-configured", ok_i,
           "the sanitiser is skipped only when the option is off, the statement has no string-like data, or it is a runtime-metadata "
           "statement (sanitised later); with all three tests passed it runs on every path", fn=f)
    am = core.need("quill::detail::BackendWorker::_apply_runtime_metadata", "A")[0]
    ag = am.g
    asan = npos(am, [c for c in am.calls(r"::sanitize_non_printable_chars\b")])
    aoe = option_edges(am)
    ok_j = bool(asan) and bool(aoe) and not ag.exists_path([ag.entry_node], asan, avoid_edges=aoe) and \
        all(not ag.exists_path([y for (y, l2) in ag.succ.get(tnode(ag, b), ()) if l2 == t], [ag.exit_node], avoid_nodes=asan) for (b, t) in aoe)
    ctx.ob("C04.R6j", "_apply_runtime_metadata:sanitised-iff-configured", ok_j,
           "a statement with run-time source metadata is sanitised exactly on the 'check_printable_char is set' outcome", fn=am)


def split_targs(t):
    """top-level template arguments of 'name<a, b<c>, d>'"""
    i = t.find("<")
    if i < 0 or not t.endswith(">"):
        return t, []
    name, body = t[:i], t[i + 1:-1]
    out, depth, cur = [], 0, ""
    for ch in body:
        if ch == "<":
            depth += 1
        elif ch == ">":
            depth -= 1
        if ch == "," and depth == 0:
            out.append(cur.strip())
            cur = ""
        else:
            cur += ch
    if cur.strip():
        out.append(cur.strip())
    return name, out


def order_preserved(ctx, facts):
    """R7: what the backend formats iterates in the caller's order: an ordered container is rebuilt with the caller's comparator
    (std::less<Key> may be re-bound to the decoded key type), sequence containers are rebuilt by appending"""
    n = 0
    for f in facts.fns:
        if f.config != "A" or f.base != "decode_arg" or not f.cls:
            continue
        m = re.match(r"^quill::Codec<(std::(?:multi)?(?:set|map)<.*>)>$", f.cls)
        if not m:
            continue
        name, targs = split_targs(m.group(1))
        is_map = name.endswith("map")
        cmp_in = targs[2] if is_map and len(targs) > 2 else (targs[1] if not is_map and len(targs) > 1 else None)
        key_in = targs[0]
        rname, rargs = split_targs(f.rec.get("cret", ""))
        if rname != name:
            raise AnalysisBroken("%s::decode_arg returns %s: shape not covered" % (f.cls, rname))
        cmp_out = rargs[2] if is_map and len(rargs) > 2 else (rargs[1] if not is_map and len(rargs) > 1 else None)
        key_out = rargs[0] if rargs else None
        if cmp_in is None:
            cmp_in = "std::less<%s>" % key_in
        if cmp_out is None:
            cmp_out = "std::less<%s>" % key_out
        default_in = cmp_in == "std::less<%s>" % key_in
        ok = (cmp_out == cmp_in) or (default_in and cmp_out == "std::less<%s>" % key_out)
        n += 1
        ctx.ob("C04.R7a", "%s:comparator-kept" % f.cls.replace("quill::", "")[:120], ok,
               "the container the backend formats is ordered by the caller's comparator (%s -> %s): elements are printed in the order the "
               "call site would print them" % (cmp_in, cmp_out), fn=f)
    ctx.floor("C04.R7a", "ordered-container decoders (incl. user comparators)", n, 8)
    # sequence containers are rebuilt by appending in decode order
    m = 0
    for f in facts.fns:
        if f.config != "A" or f.base != "decode_arg" or not f.cls:
            continue
        mm = re.match(r"^quill::Codec<std::(vector|deque|list)<", f.cls)
        if not mm:
            continue
        m += 1
        app = f.calls(r"::(emplace_back|push_back)\b")
        front = f.calls(r"::(emplace_front|push_front)\b")
        by_index = False
        # up-counting index variables: initialised with 0, incremented by one (++ / += 1) and changed in no other way — the counter of a
        # for loop or of its while form
        inits_ = f.var_inits()
        counters = set()
        for vid, i_ in inits_.items():
            if const_val(i_) != 0:
                continue
            incs = [x for x in f.walk() if (x["k"] == "UnaryOperator" and x["op"] == "++" and var_ref(x["sub"]) == vid) or
                    (x["k"] == "CompoundAssignOperator" and x["op"] == "+=" and var_ref(x["lhs"]) == vid and const_val(x["rhs"]) == 1)]
            other_w = [x for x in f.walk() if (x["k"] == "UnaryOperator" and x["op"] == "--" and var_ref(x["sub"]) == vid) or
                       (x["k"] == "CompoundAssignOperator" and var_ref(x["lhs"]) == vid and x not in incs) or
                       (x["k"] == "BinaryOperator" and x["op"] == "=" and var_ref(x["lhs"]) == vid)]
            if incs and not other_w:
                counters.add(vid)
        for lp in [n for n in f.walk() if n["k"] in ("ForStmt", "WhileStmt")]:
            for x in walk(lp.get("body")):
                if is_call(x, r"::operator\[\]") and len(x.get("args", [])) == 2 and var_ref(x["args"][1]) in counters:
                    by_index = True
        ctx.ob("C04.R7b", "%s:appends-in-order" % f.cls.replace("quill::", "")[:120], (bool(app) or by_index) and not front,
               "decoded elements are appended at the back, in the order they were encoded", fn=f)
    ctx.floor("C04.R7b", "sequence-container decoders", m, 5)
    # R7c: what the backend formats must iterate in the order the elements were encoded (= the caller's iteration order). A container
    # whose iteration order is not a function of its contents cannot be rebuilt by insertion without losing that order.
    kinds = {}
    for f in facts.fns:
        if f.config != "A" or f.base != "decode_arg" or not f.cls:
            continue
        mm = re.match(r"^quill::Codec<std::(unordered_(?:multi)?(?:set|map))<", f.cls)
        if not mm:
            continue
        rname, _ra = split_targs(f.rec.get("cret", ""))
        kinds.setdefault(mm.group(1), []).append((f, rname))
    for kind, lst in sorted(kinds.items()):
        f, rname = lst[0]
        keeps = all(not rn.split("::")[-1].startswith("unordered_") for (_f, rn) in lst)
        ctx.ob("C04.R7c", "%s:decoded-in-encoded-order" % kind, keeps,
               "the elements of a std::%s are encoded in the caller's iteration order, but decode_arg rebuilds a std::%s by insertion: "
               "the rebuilt table's bucket layout — and so the order in which the backend formats the elements — differs from the "
               "caller's whenever the caller's table was grown, reserved or rehashed differently (%d instantiation(s) analysed)" %
               (kind, lst[0][1].split("::")[-1].split("<")[0], len(lst)), fn=f)


def hex_escape(ctx, facts):
    """R8: the sanitiser writes \\x followed by the high and the low nibble of the byte, each masked to four bits"""
    fs = facts.fn("quill::detail::BackendWorker::sanitize_non_printable_chars", "A")
    if not fs:
        raise AnalysisBroken("sanitize_non_printable_chars not instantiated")
    for f in fs[:2]:
        subs = [n for n in f.walk() if n["k"] == "ArraySubscriptExpr" and var_ref(n["base"]) is not None and
                "char" in (strip(n["base"]).get("ty", "") if isnode(strip(n["base"])) else "")]
        idx = []
        for n in subs:
            i = strip(n["idx"], casts=True)
            if isnode(i) and i["k"] == "BinaryOperator" and i["op"] == "&" and 15 in (const_val(i["lhs"]), const_val(i["rhs"])):
                other_side = i["lhs"] if const_val(i["rhs"]) == 15 else i["rhs"]
                o = strip(other_side, casts=True)
                if isnode(o) and o["k"] == "BinaryOperator" and o["op"] == ">>" and const_val(o["rhs"]) == 4:
                    idx.append(("hi", n))
                elif var_ref(o) is not None:
                    idx.append(("lo", n))
                else:
                    idx.append(("?", n))
            else:
                idx.append(("unmasked", n))
        kinds = [k for (k, n) in idx]
        order_ok = kinds == ["hi", "lo"]
        ctx.ob("C04.R8a", "sanitize_non_printable_chars<%s>:nibbles-masked" % (f.rec.get("targs") or ["?"])[0][:40], order_ok,
               "a non-printable byte is written as its high nibble ((c >> 4) & 0xF) then its low nibble (c & 0xF), both masked so that bytes "
               ">= 0x80 (sign-extending char) index inside the 16-digit table (found: %s)" % kinds, fn=f)
        # the escape is backslash, 'x', hi, lo in this order; printable bytes are copied
        text = ""
        for x in f.walk():
            if x["k"] == "CharacterLiteral" and 0 < (x.get("val") or 0) < 128:
                text += chr(x["val"])
            elif x["k"] == "StringLiteral" and x.get("str") not in ("0123456789ABCDEF", "0123456789abcdef"):
                text += x.get("str", "")
        ctx.ob("C04.R8b", "sanitize_non_printable_chars<%s>:escape-prefix" % (f.rec.get("targs") or ["?"])[0][:40], "\\x" in text,
               "the escape is introduced by backslash-x (literal text found in the function: %r)" % text[:12], fn=f)
        # R8c: which bytes: the user's predicate decides both passes the same way — the 'something to escape' flag is raised on the 'not
        # printable' outcome, a byte is copied on 'printable' and escaped on the other
        g = f.g
        pe = [(b, t) for (b, t, c) in branches_on_call(f, r"std::function<bool \(char\)>::operator\(\)$")]
        flag = npos(f, [x for x in f.walk() if x["k"] == "BinaryOperator" and x["op"] == "=" and var_ref(x["lhs"]) is not None and const_val(x["rhs"]) == 1 and
                        "bool" in ((f.var_decls().get(var_ref(x["lhs"])) or {}).get("ty") or "")])
        esc = npos(f, [n for (k, n) in idx])
        ok_c = len(pe) == 2 and bool(flag) and bool(esc) and \
            not g.exists_path([g.entry_node], flag, avoid_edges=[(b, other(t)) for (b, t) in pe]) and \
            not g.exists_path([g.entry_node], esc, avoid_edges=[(b, other(t)) for (b, t) in pe])
        ctx.ob("C04.R8c", "sanitize_non_printable_chars<%s>:predicate-polarity" % (f.rec.get("targs") or ["?"])[0][:40], ok_c,
               "the flag that starts the rewrite and the escape itself are reached only through the 'predicate says not printable' outcome "
               "(%d predicate tests)" % len(pe), fn=f)


def dynamic_level_byte(ctx, core):
    """R2g: the trailing dynamic-level byte is written by log_statement<_, true, ...> and read by the backend exactly when the
    metadata level is Dynamic: every caller inside the library passes has_dynamic_log_level = true iff the metadata it hands over
    has LogLevel::Dynamic (the macros are covered by C16.R1; these are the control requests and helper entry points)"""
    n = 0
    for f in core.fns:
        if f.config != "A" or f.short.startswith("qv::") or f.rec.get("main"):
            continue
        if not (f.short.startswith("quill::LoggerImpl::") or f.short.startswith("quill::FrontendImpl::") or f.short.startswith("quill::detail::")):
            continue
        decls = f.var_decls()
        for c in f.calls(r"^quill::LoggerImpl<.*>::log_statement<"):
            m = re.search(r"::log_statement<(true|false), (true|false)", c["callee"])
            if not m or len(c["args"]) < 2:
                continue
            dyn = m.group(2) == "true"
            md = strip(c["args"][1], casts=True)
            mv = None
            if isnode(md) and md["k"] == "UnaryOperator" and md["op"] == "&":
                mv = var_ref(md["sub"])
            src = decls.get(mv, {}).get("init") if mv is not None else None
            if not isnode(src):
                continue  # metadata handed in from outside (the macro path): C16.R1
            lv = [x["name"].split("::")[-1] for x in walk(src) if x["k"] == "DeclRefExpr" and x.get("dk") == "EnumConstant" and "LogLevel::" in x.get("name", "")]
            if len(lv) != 1:
                raise AnalysisBroken("%s: level of the metadata constructed for a control request not identified" % f.short)
            n += 1
            ctx.ob("C04.R2g", "%s:dynamic-level-byte" % short(f.name)[:110], dyn == (lv[0] == "Dynamic"),
                   "log_statement<.., has_dynamic_log_level=%s> is called with metadata of level %s: the frontend appends the level byte "
                   "iff the flag is true, the backend consumes it iff the level is Dynamic" % (str(dyn).lower(), lv[0]), loc=c["loc"], fn=f)
    ctx.floor("C04.R2g", "control requests built inside the library", n, 8)


def member_helpers(ctx, facts):
    """R9: the documented helpers for user-defined codecs, and the placement path of DeferredFormatCodec"""
    spec = {"quill::compute_total_encoded_size": ("compute_encoded_size", 1, [0], 1), "quill::encode_members": ("encode", 3, [0, 1, 2], 3),
            "quill::decode_members": ("decode_arg", 2, [0], None)}
    for nm, (callee, first, shared, member_arg) in spec.items():
        fs = facts.need(nm, "A")
        for f in fs[:4]:
            ps = [p_["did"] for p_ in f.rec["params"]]
            members = ps[first:]
            calls = [c for c in f.calls(r"^quill::Codec<.*>::%s$" % callee)]
            ok = len(calls) == len(members) and len(members) >= 1
            if ok:
                # in source order = evaluation order of the comma fold
                calls = sorted(calls, key=lambda c: c["id"])
                for i, c in enumerate(calls):
                    for k in shared:
                        ok = ok and var_ref(c["args"][k]) == ps[k]
                    if member_arg is not None:
                        ok = ok and var_ref(c["args"][member_arg]) == members[i]
                    else:
                        # members[i] = Codec<Ti>::decode_arg(buffer)
                        par = f.parent(c)
                        asg = None
                        for a in f.ancestors(c):
                            if (a["k"] == "BinaryOperator" and a["op"] == "=") or (a["k"] == "CXXOperatorCallExpr" and short(a.get("callee") or "").endswith("operator=")):
                                asg = a
                                break
                        lhs = (asg["lhs"] if asg and asg["k"] == "BinaryOperator" else asg["args"][0]) if asg else None
                        ok = ok and lhs is not None and var_ref(lhs) == members[i]
            ctx.ob("C04.R9a", "%s<%d members>" % (nm.replace("quill::", ""), len(members)), ok,
                   "the helper makes exactly one Codec<Ti>::%s call per member, in member order, on the cursor / size cache / cache index "
                   "it was given (the summary the layout comparison uses for user codecs built with it)" % callee, fn=f)
    # R9b: the size-cache index is threaded by reference: a function that hands its own parameter on as the index of an encode call
    # must have received it by reference, or the callee's advance is lost and the next cached length is read from the wrong slot
    n = 0
    for f in facts.fns:
        if f.config != "A":
            continue
        pmap = {p_["did"]: p_ for p_ in f.rec.get("params") or []}
        if not pmap:
            continue
        for c in f.calls(r"(^quill::Codec<.*>::encode$|^quill::encode_members\b|^quill::(DeferredFormatCodec|DirectFormatCodec)<.*>::encode$)"):
            if len(c["args"]) < 3:
                continue
            v = var_ref(c["args"][2])
            if v in pmap:
                n += 1
                ty = pmap[v]["ty"].replace(" ", "")
                ctx.ob("C04.R9b", "%s:index-by-reference" % short(f.name)[:120], ty.endswith("&") and "const" not in ty,
                       "the cache index handed on to %s is this function's own parameter '%s' of type %s: it must be a non-const "
                       "reference so that the advance made by the callee reaches the caller" % (short(c["callee"])[:60], pmap[v]["name"], pmap[v]["ty"]), fn=f)
    ctx.floor("C04.R9b", "functions forwarding the size-cache index", n, 20)
    # R9c: align-up idiom of the placement path: (p + (a - 1)) & ~(a - 1), so the object starts within [p, p + a - 1] and ends inside
    # the sizeof + alignof - 1 bytes that were reserved
    al = facts.need("quill::DeferredFormatCodec::align_pointer", "A")
    for f in al[:3]:
        pp, ap = f.rec["params"][0]["did"], f.rec["params"][1]["did"]
        ok = False
        def a_minus_1(e):
            e = strip(e, casts=True)
            while isnode(e) and e["k"] == "ParenExpr":
                e = strip(e.get("sub") or (e.get("c") or [None])[0], casts=True)
            return isnode(e) and e["k"] == "BinaryOperator" and e["op"] == "-" and var_ref(e["lhs"]) == ap and const_val(e["rhs"]) == 1
        for r in f.g.return_nodes():
            v = f.g.node_ast(r).get("val")
            for x in walk(v):
                if x["k"] == "BinaryOperator" and x["op"] == "&":
                    l = strip(x["lhs"], casts=True)
                    while isnode(l) and l["k"] == "ParenExpr":
                        l = strip(l.get("sub") or (l.get("c") or [None])[0], casts=True)
                    r_ = strip(x["rhs"], casts=True)
                    plus = isnode(l) and l["k"] == "BinaryOperator" and l["op"] == "+" and \
                        ((any(y["k"] == "DeclRefExpr" and y.get("did") == pp for y in walk(l["lhs"])) and a_minus_1(l["rhs"])) or
                         (any(y["k"] == "DeclRefExpr" and y.get("did") == pp for y in walk(l["rhs"])) and a_minus_1(l["lhs"])))
                    mask = isnode(r_) and r_["k"] == "UnaryOperator" and r_["op"] == "~" and a_minus_1(r_["sub"])
                    ok = plus and mask
        ctx.ob("C04.R9c", "%s:align-up" % short(f.name)[:100], ok,
               "the placement address is (p + (alignment - 1)) & ~(alignment - 1): the first aligned address not below p, at most alignment - 1 "
               "bytes further, so the object ends inside the sizeof(T) + alignof(T) - 1 bytes reserved for it", fn=f)


def inlined_vector(ctx, facts):
    """R11: the per-thread size cache (InlinedVector<uint32_t, 12>) hands back the sizes it was given, in order — what the encode pass
    relies on. The storage is a union discriminated by `_capacity == N`: R11a: in every member the inline arm is read or written only
    on the 'capacity is N' outcome of a test that is still current (no write to _capacity in between) and the heap arm only on the other
    (the one assignment that activates the heap arm is followed by the capacity update). R11b: operator[] and assign refuse an index
    >= size() before they touch the storage; push_back stores at index _size and then increments it by one; clear() sets the size to 0.
    R11c: growing copies elements 0 .. size-1 from the active arm, doubles the capacity, and frees only a previous heap block."""
    for d in [f for f in facts.fns if f.config == "A" and short(f.cls or "") == "quill::detail::InlinedVector" and f.rec.get("dtor")][:1]:
        dg = d.g
        dd = [p for x in d.walk() if x["k"] == "CXXDeleteExpr" for p in (dg.positions(x) or [])]
        de = []
        for bid, b in dg.blocks.items():
            c = dg.term_cond(bid)
            nc = norm_cmp(c) if c is not None else None
            if nc and nc[0] in ("==", "!=") and any(is_this_field(x, "_capacity") for x in walk(c)):
                de.append((bid, "F" if nc[0] == "==" else "T"))      # label of 'on the heap'
        ctx.ob("C04.R11c", "InlinedVector::~InlinedVector:frees-heap-block-only", bool(dd) and bool(de) and not dg.exists_path([dg.entry_node], dd, avoid_edges=de) and
               all(not dg.exists_path([y for (y, l2) in dg.succ.get(tnode(dg, b), ()) if l2 == lab], [dg.exit_node], avoid_nodes=dd) for (b, lab) in de),
               "the destructor frees the heap block exactly on the 'capacity != N' outcome", fn=d)
    fns = [f for f in facts.fns if f.config == "A" and short(f.cls or "") == "quill::detail::InlinedVector" and not f.rec.get("ctor") and not f.rec.get("dtor")]
    by = {}
    for f in fns:
        by.setdefault(f.base, []).append(f)
    if not {"push_back", "operator[]", "clear"} <= set(by):
        raise AnalysisBroken("InlinedVector members not found: %s" % sorted(by))

    def arm_pos(f, arm):
        return [p for x in f.walk() if x["k"] == "MemberExpr" and x.get("mname") == arm for p in (f.g.positions(x) or [])]

    def is_inline_edges(f):
        out = []
        g = f.g
        for bid, b in g.blocks.items():
            c = g.term_cond(bid)
            nc = norm_cmp(c) if c is not None else None
            if nc and nc[0] in ("==", "!=") and any(is_this_field(x, "_capacity") for x in walk(c)) and \
                    any((x["k"] == "DeclRefExpr" and x.get("dk") in ("NonTypeTemplateParm",)) or x["k"] == "SubstNonTypeTemplateParmExpr" for x in walk(c)):
                out.append((bid, "T" if nc[0] == "==" else "F"))
        return out
    n = 0
    for name, fl in sorted(by.items()):
        f = fl[0]
        g = f.g
        inl, heap = arm_pos(f, "inline_buffer"), arm_pos(f, "heap_buffer")
        if not inl and not heap:
            continue
        n += 1
        e = is_inline_edges(f)
        capw = npos(f, [x for x in f.walk() if x["k"] == "BinaryOperator" and x["op"] == "=" and is_this_field(x["lhs"], "_capacity")])
        act_nodes = [x for x in f.walk() if x["k"] == "BinaryOperator" and x["op"] == "=" and isnode(strip(x["lhs"])) and strip(x["lhs"]).get("mname") == "heap_buffer"]
        activate = npos(f, act_nodes)
        heap_r = [p for x in f.walk() if x["k"] == "MemberExpr" and x.get("mname") == "heap_buffer" and not any(x is strip(a["lhs"]) for a in act_nodes)
                  for p in (g.positions(x) or [])]
        ok = bool(e) and not g.exists_path([g.entry_node], inl, avoid_edges=e) and \
            not g.exists_path([g.entry_node], heap_r, avoid_edges=[(b, other(l)) for (b, l) in e])
        # the test is still current: from a capacity write no arm access is reachable without passing a test again
        tests = [tnode(g, b) for (b, l) in e]
        ok = ok and not g.exists_path(capw, inl + heap_r, avoid_nodes=tests)
        # activation is followed by the capacity update on every path
        ok = ok and all(not g.exists_path([p], [g.exit_node] + tests, avoid_nodes=capw) for p in activate)
        ctx.ob("C04.R11a", "InlinedVector::%s:arm-by-capacity" % name, ok,
               "the inline arm is touched only on the 'capacity == N' outcome and the heap arm only on the other, with no capacity write "
               "between the test and the access; the assignment that installs a heap block is followed by the capacity update", fn=f)
    ctx.floor("C04.R11a", "InlinedVector members that touch the storage", n, 3)
    for name in ("operator[]", "assign"):
        for f in by.get(name, [])[:1]:
            g = f.g
            idx = f.rec["params"][0]["did"]
            thr = npos(f, [x for x in f.walk() if x["k"] == "CXXThrowExpr"])
            bad_e = []
            for bid, b in g.blocks.items():
                c = g.term_cond(bid)
                cs = cmp_sides(c) if c is not None else None
                if cs and is_this_field(strip(cs[2] if var_ref(strip(cs[1], casts=True)) == idx else cs[1], casts=True), "_size"):
                    # idx < size  (ok outcome T)  |  size <= idx  (bad outcome T)
                    if var_ref(strip(cs[1], casts=True)) == idx and cs[0] == "<":
                        bad_e.append((bid, "F"))
                    elif var_ref(strip(cs[2], casts=True)) == idx and cs[0] == "<=":
                        bad_e.append((bid, "T"))
            acc = arm_pos(f, "inline_buffer") + arm_pos(f, "heap_buffer")
            ok = bool(bad_e) and bool(thr) and bool(acc) and \
                all(not g.exists_path([y for (y, l2) in g.succ.get(tnode(g, b), ()) if l2 == lab], acc + [g.exit_node], avoid_nodes=thr) for (b, lab) in bad_e) and \
                not g.exists_path([g.entry_node], acc, avoid_nodes=[tnode(g, b) for (b, lab) in bad_e])
            ctx.ob("C04.R11b", "InlinedVector::%s:index-below-size" % name, ok,
                   "an index >= size() ends in a throw before the storage is touched (a stale slot beyond size() is never handed out)", fn=f)
    pb = by["push_back"][0]
    g = pb.g
    val = pb.rec["params"][0]["did"]
    stores = [x for x in pb.walk() if x["k"] == "BinaryOperator" and x["op"] == "=" and isnode(strip(x["lhs"])) and strip(x["lhs"])["k"] == "ArraySubscriptExpr" and
              var_ref(strip(x["rhs"], casts=True)) == val]
    at_size = bool(stores) and all(is_this_field(strip(strip(x["lhs"]).get("rhs") or strip(x["lhs"]).get("idx") or (strip(x["lhs"]).get("c") or [None, None])[1], casts=True), "_size") for x in stores)
    inc = [x for x in pb.walk() if (x["k"] == "UnaryOperator" and x.get("op") == "++" and is_this_field(x.get("sub"), "_size")) or
           (x["k"] == "CompoundAssignOperator" and x["op"] == "+=" and is_this_field(x["lhs"], "_size") and const_val(x["rhs"]) == 1)]
    sp, ip = npos(pb, stores), npos(pb, inc)
    thr = npos(pb, [x for x in pb.walk() if x["k"] == "CXXThrowExpr"])
    ok = at_size and len(inc) == 1 and not g.exists_path([g.entry_node], [g.exit_node], avoid_nodes=sp + thr) and \
        not g.exists_path(sp, [g.exit_node], avoid_nodes=ip) and not g.exists_path(ip, sp)
    ctx.ob("C04.R11b", "InlinedVector::push_back:append-at-size", ok,
           "the value is stored at index _size of the active arm on every path and _size is then incremented by one", fn=pb)
    for af in by.get("assign", [])[:1]:
        ag = af.g
        ai, av = af.rec["params"][0]["did"], af.rec["params"][1]["did"]
        ast = [x for x in af.walk() if x["k"] == "BinaryOperator" and x["op"] == "=" and isnode(strip(x["lhs"])) and strip(x["lhs"])["k"] == "ArraySubscriptExpr" and
               var_ref(strip(x["rhs"], casts=True)) == av and
               var_ref(strip(strip(x["lhs"]).get("rhs") or strip(x["lhs"]).get("idx") or (strip(x["lhs"]).get("c") or [None, None])[1], casts=True)) == ai]
        athr = npos(af, [x for x in af.walk() if x["k"] == "CXXThrowExpr"])
        ctx.ob("C04.R11b", "InlinedVector::assign:stores-at-index", bool(ast) and not ag.exists_path([ag.entry_node], [ag.exit_node], avoid_nodes=npos(af, ast) + athr),
               "the value is stored at the given index of the active arm on every path that does not throw (a size that a nested codec "
               "patches afterwards reaches the encode pass)", fn=af)
    cl = by["clear"][0]
    z = [x for x in cl.walk() if x["k"] == "BinaryOperator" and x["op"] == "=" and is_this_field(x["lhs"], "_size") and const_val(x["rhs"]) == 0]
    ctx.ob("C04.R11b", "InlinedVector::clear:size-zero", bool(z) and not cl.g.exists_path([cl.g.entry_node], [cl.g.exit_node], avoid_nodes=npos(cl, z)),
           "clear() sets the size to 0", fn=cl)
    # growth
    full = []
    for bid, b in g.blocks.items():
        c = g.term_cond(bid)
        nc = norm_cmp(c) if c is not None else None
        if nc and nc[0] in ("==", "!=") and any(is_this_field(x, "_size") for x in walk(c)) and any(is_this_field(x, "_capacity") for x in walk(c)):
            full.append((bid, "T" if nc[0] == "==" else "F"))
    news = [x for x in pb.walk() if x["k"] == "CXXNewExpr"]
    dels = [x for x in pb.walk() if x["k"] == "CXXDeleteExpr"]
    newcap = [v for v, i in pb.var_inits().items() if isnode(i) and any(x["k"] == "BinaryOperator" and x["op"] == "*" and const_val(x["rhs"]) == 2 and is_this_field(strip(x["lhs"], casts=True), "_capacity") for x in walk(i))]
    capw = [x for x in pb.walk() if x["k"] == "BinaryOperator" and x["op"] == "=" and is_this_field(x["lhs"], "_capacity")]
    loops = [x for x in pb.walk() if x["k"] == "ForStmt"]
    copies_ok = len(loops) == 2
    for lp in loops:
        iv = None
        for d in walk(lp.get("init")) if lp.get("init") is not None else []:
            if d.get("k") == "Var" and const_val(d.get("init")) == 0:
                iv = d["did"]
        cs = cmp_sides(lp.get("cond")) if lp.get("cond") is not None else None
        copies_ok = copies_ok and iv is not None and cs is not None and cs[0] == "<" and var_ref(strip(cs[1], casts=True)) == iv and is_this_field(strip(cs[2], casts=True), "_size")
        # the body copies element i of the active arm to element i of the new block
        cp = [x for x in walk(lp.get("body")) if x["k"] == "BinaryOperator" and x["op"] == "=" and
              isnode(strip(x["lhs"])) and strip(x["lhs"])["k"] == "ArraySubscriptExpr" and isnode(strip(x["rhs"], casts=True)) and strip(x["rhs"], casts=True)["k"] == "ArraySubscriptExpr"]

        def sub_idx(e):
            e = strip(e, casts=True)
            return e.get("rhs") or e.get("idx") or (e.get("c") or [None, None])[1]

        def sub_base(e):
            e = strip(e, casts=True)
            return e.get("lhs") or e.get("base") or (e.get("c") or [None])[0]
        copies_ok = copies_ok and len(cp) == 1 and var_ref(strip(sub_idx(cp[0]["lhs"]), casts=True)) == iv and var_ref(strip(sub_idx(cp[0]["rhs"]), casts=True)) == iv and \
            var_ref(strip(sub_base(cp[0]["lhs"]), casts=True)) is not None and \
            any(y["k"] == "MemberExpr" and y.get("mname") in ("inline_buffer", "heap_buffer") for y in walk(sub_base(cp[0]["rhs"]))) and \
            not [y for y in walk(lp.get("body")) if y["k"] in ("BreakStmt", "ContinueStmt", "ReturnStmt")]
    e = is_inline_edges(pb)
    dp = npos(pb, dels)
    del_ok = len(dels) == 1 and bool(e) and not g.exists_path([g.entry_node], dp, avoid_edges=[(b, other(l)) for (b, l) in e])
    grow_ok = bool(full) and len(news) == 1 and len(newcap) == 1 and len(capw) == 1 and var_ref(strip(capw[0]["rhs"], casts=True)) == newcap[0] and \
        not g.exists_path([g.entry_node], npos(pb, news), avoid_edges=full)
    nd = [v for v, i in pb.var_inits().items() if isnode(i) and any(x is news[0] for x in walk(i))] if news else []
    inst = [x for x in pb.walk() if x["k"] == "BinaryOperator" and x["op"] == "=" and isnode(strip(x["lhs"])) and strip(x["lhs"]).get("mname") == "heap_buffer" and
            var_ref(strip(x["rhs"], casts=True)) in nd]
    grow_ok = grow_ok and len(inst) == 1 and not g.exists_path(npos(pb, news), [g.exit_node], avoid_nodes=npos(pb, inst) + thr) and \
        not g.exists_path(npos(pb, inst), npos(pb, loops))
    ctx.ob("C04.R11c", "InlinedVector::push_back:growth", grow_ok and copies_ok and del_ok,
           "a new block of twice the capacity is allocated exactly on 'size == capacity' (%s), elements 0 .. size-1 are copied from the active "
           "arm (%s), only a previous heap block is freed (%s) and the capacity becomes the new one" % (grow_ok, copies_ok, del_ok), fn=pb)


def c_string_terminators(ctx, facts):
    """R12: what the decoder measures with strnlen was terminated by the encoder. A C string is copied without its terminator (len - 1
    bytes) and the terminator written at buffer[len - 1]; a char array in which no terminator was found within its N elements (the
    'len > N' outcome) is copied whole and terminated at buffer[N] — both before the cursor moves on by len. (The layout comparison of
    R1 counts bytes; which byte is the terminator is invisible to it.)"""
    n = 0
    for f in facts.fns:
        if f.config != "A" or f.base != "encode" or not re.match(r"^quill::Codec<(const char \*|char \*|(const )?char ?\[\d+\])>::", f.name):
            continue
        g = f.g
        buf = f.rec["params"][0]["did"]
        is_arr = "[" in f.name.split("Codec<")[1].split(">::")[0]
        adv = npos(f, [x for x in f.walk() if x["k"] == "CompoundAssignOperator" and x["op"] == "+=" and var_ref(strip(x["lhs"], casts=True)) == buf])
        zs = []
        for x in f.walk():
            if x["k"] == "BinaryOperator" and x["op"] == "=" and isnode(strip(x["lhs"])) and strip(x["lhs"])["k"] == "ArraySubscriptExpr":
                sub = strip(x["lhs"])
                base = sub.get("lhs") or sub.get("base") or (sub.get("c") or [None])[0]
                idx = sub.get("rhs") or sub.get("idx") or (sub.get("c") or [None, None])[1]
                if var_ref(strip(base, casts=True)) == buf and const_val(x["rhs"]) == 0 or \
                        (var_ref(strip(base, casts=True)) == buf and any(const_val(y) == 0 for y in walk(x["rhs"]))):
                    zs.append((x, idx))
        n += 1
        if not is_arr:
            ok = len(zs) == 1 and isnode(strip(zs[0][1], casts=True)) and strip(zs[0][1], casts=True)["k"] == "BinaryOperator" and strip(zs[0][1], casts=True)["op"] == "-" and \
                const_val(strip(zs[0][1], casts=True)["rhs"]) == 1
            zp = npos(f, [z for (z, i) in zs])
            ok = ok and bool(adv) and not g.exists_path([g.entry_node], adv, avoid_nodes=zp)
            ctx.ob("C04.R12", "%s:terminator-at-len-1" % f.name.split("::encode")[0][:60], ok,
                   "the encoder writes the terminator at buffer[len - 1] on every path before the cursor advances", fn=f)
        else:
            N = int(re.search(r"\[(\d+)\]", f.name).group(1))
            big = []
            for bid, b in g.blocks.items():
                c = g.term_cond(bid)
                cs = cmp_sides(c) if c is not None else None
                if cs and ((const_val(cs[1]) == N and cs[0] == "<") or (const_val(cs[1]) == N + 1 and cs[0] == "<=")):
                    big.append((bid, "T"))       # N < len : no terminator inside the array
                elif cs and ((const_val(cs[2]) == N and cs[0] == "<=") or (const_val(cs[2]) == N + 1 and cs[0] == "<")):
                    big.append((bid, "F"))
            zp = npos(f, [z for (z, i) in zs if const_val(i) == N])
            ok = bool(big) and bool(zp) and bool(adv) and \
                all(not g.exists_path([y for (y, l2) in g.succ.get(tnode(g, b), ()) if l2 == lab], adv, avoid_nodes=zp) for (b, lab) in big)
            ctx.ob("C04.R12", "%s:unterminated-array-gets-terminator" % f.name.split("::encode")[0][:60], ok,
                   "on the 'no terminator within the %d elements' outcome the encoder writes one at buffer[%d] before the cursor advances" % (N, N), fn=f)
    ctx.floor("C04.R12", "C-string / char-array encoders", n, 2)


def stores_one_argument(ctx, facts):
    """R13: every decode_and_store_arg hands exactly one argument to the store on every path — the format string has one placeholder per
    logged argument, so an argument that is decoded but not stored shifts every later one ('argument not found'), and one stored twice
    shifts them the other way. (Codecs whose decode_and_store_arg formats the value itself — the deferred-format codec pushes the bound
    formatter — are covered through their own push_back.)"""
    n, bad = 0, []
    for f in facts.fns:
        if f.config != "A" or f.base != "decode_and_store_arg" or not (f.name.startswith("quill::Codec<") or "Codec<" in f.name):
            continue
        g = f.g
        pushes = npos(f, f.calls(r"DynamicFormatArgStore::push_back<"))
        nested = npos(f, [c for c in f.calls(r"Codec<.*>::decode_and_store_arg$") if c.get("callee") != f.name])
        n += 1
        cnt = g.count_on_paths([g.entry_node], [g.exit_node], pushes + nested)
        if cnt[g.exit_node] != (1, 1):
            bad.append("%s %s" % (f.name.replace("quill::", "")[:70], cnt[g.exit_node]))
    ctx.floor("C04.R13", "decode_and_store_arg instantiations", n, 30)
    ctx.ob("C04.R13", "decode_and_store_arg:stores-exactly-one-argument", not bad,
           "each of the %d instantiations calls DynamicFormatArgStore::push_back (or hands on to one nested decode_and_store_arg) exactly "
           "once on every path (others: %s)" % (n, "; ".join(bad[:5]) or "none"))
