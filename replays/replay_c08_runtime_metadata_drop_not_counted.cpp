// C08: "a statement is delivered intact or reported dropped" — LOG_RUNTIME_METADATA statements refused by a full dropping queue.
// log_statement counts a refusal only when the event kind is Log; the kind of these statements is LogWithRuntimeMetadata.
#include "quill/Backend.h"
#include "quill/Frontend.h"
#include "quill/LogMacros.h"
#include "quill/Logger.h"
#include "quill/sinks/Sink.h"
#include <atomic>
#include <cstdio>
#include <string>
struct FO { static constexpr quill::QueueType queue_type = quill::QueueType::BoundedDropping; static constexpr size_t initial_queue_capacity = 4096;
  static constexpr uint32_t blocking_queue_retry_interval_ns = 800; static constexpr size_t unbounded_queue_max_capacity = 4096;
  static constexpr quill::HugePagesPolicy huge_pages_policy = quill::HugePagesPolicy::Never; };
using F = quill::FrontendImpl<FO>; using L = quill::LoggerImpl<FO>;
struct Cnt : quill::Sink { std::atomic<int> n{0};
  void write_log(quill::MacroMetadata const*, uint64_t, std::string_view, std::string_view, std::string const&, std::string_view,
                 quill::LogLevel, std::string_view, std::string_view, std::vector<std::pair<std::string, std::string>> const*, std::string_view, std::string_view) override { ++n; }
  void flush_sink() override {} };
int main(int argc, char** argv) {
  bool runtime = !(argc > 1 && std::string(argv[1]) == "plain");
  std::atomic<long> reported{0};
  quill::BackendOptions bo;
  bo.error_notifier = [&](std::string const& s) { auto p = s.find("Dropped "); if (p != std::string::npos) reported += std::atol(s.c_str() + p + 8); };
  auto sink = F::create_or_get_sink<Cnt>("cnt");
  L* l = F::create_or_get_logger("root", sink);
  // no backend yet: the 4 KiB queue fills up, the rest is refused
  int refused = 0, accepted = 0;
  for (int i = 0; i < 400; ++i) {
    if (runtime) { if (l->should_log_statement(quill::LogLevel::Info)) {
        static constexpr char const* f = "runtime {}" QUILL_MAGIC_SEPARATOR "{}" QUILL_MAGIC_SEPARATOR "{}" QUILL_MAGIC_SEPARATOR "{}";
        static constexpr quill::MacroMetadata md{"[placeholder]", "[placeholder]", f, nullptr, quill::LogLevel::Dynamic, quill::MacroMetadata::Event::LogWithRuntimeMetadata};
        (l->template log_statement<false, true>(quill::LogLevel::Info, &md, i, "file.cpp", 7, "fn") ? accepted : refused)++; } }
    else { static constexpr quill::MacroMetadata md{"a.cpp:1", "fn", "plain {}", nullptr, quill::LogLevel::Info, quill::MacroMetadata::Event::Log};
        (l->template log_statement<false, false>(quill::LogLevel::None, &md, i) ? accepted : refused)++; }
  }
  quill::Backend::start(bo);
  l->flush_log();
  quill::Backend::stop();
  int delivered = static_cast<Cnt*>(sink.get())->n.load();
  std::printf("[%s] attempted 400: accepted %d, refused %d; delivered %d, reported dropped %ld\n", runtime ? "runtime-metadata" : "plain", accepted, refused, delivered, reported.load());
  bool ok = delivered == accepted && reported.load() == refused;
  std::printf("%s\n", ok ? "OK: every statement delivered or reported" : "DROPS NOT REPORTED");
  return ok ? 0 : 1;
}
