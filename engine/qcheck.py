#!/usr/bin/env python3
"""qcheck — driver of the static checks.

usage: python3 engine/qcheck.py <ID> [--tier quick|thorough]
       python3 engine/qcheck.py --replay out/violations/<ID>/<file>.json

exit 0: every rule instance of the property holds on everything analysed
exit 1: at least one instance violated (prints VIOLATION property=<ID> replay=<path>)
exit 2: analysis broken (anchor vanished / floor not reached / witness does not parse);
        never a pass, never a VIOLATION line
"""
import argparse
import hashlib
import importlib
import json
import os
import sys
import time
import traceback

sys.path.insert(0, os.path.dirname(os.path.abspath(__file__)))
import qlib  # noqa: E402
from qlib import AnalysisBroken  # noqa: E402

VERIF = qlib.VERIF
OUTROOT = os.environ.get("QV_OUT", VERIF)  # self-test runs redirect evidence/violations away from /verif


class Ctx:
    def __init__(self, pid, tier):
        self.floor_failures = []
        self.pid = pid
        self.tier = tier
        self.obligations = []
        self.notes = []
        self._facts = {}
        self.units = set()
        self.functions = set()
        self.stats = {"cfg_paths_examined": 0, "call_sites": 0}
        self.only = None  # (rule, site) filter for --replay

    # ---- facts
    def facts(self, witness="core.cpp", config="A", extra_flags=()):
        key = (witness, config, tuple(extra_flags))
        if key not in self._facts:
            path = qlib.extract(witness, config, extra_flags)
            self._facts[key] = qlib.Facts().load(path, config, unit=witness)
            self.units.add((witness, config) + tuple(extra_flags))
        return self._facts[key]

    # ---- obligations
    def ob(self, rule, site, ok, what, loc="", fn=None, detail=None):
        """record one rule instance. site is a stable identifier (function + anchor), not a line."""
        if fn is not None:
            self.functions.add((fn.name, fn.config))
            if not loc:
                loc = fn.loc
        o = {"rule": rule, "site": site, "ok": bool(ok), "what": what, "loc": loc,
             "fn": fn.name if fn is not None else None, "config": fn.config if fn is not None else None}
        if detail is not None:
            o["detail"] = detail
        self.obligations.append(o)
        return bool(ok)

    def note(self, text):
        self.notes.append(text)

    def floor(self, rule, what, got, minimum):
        """a rule that matches fewer instances than were confirmed by hand must not pass vacuously: recorded, and raised as analysis
        broken at the end of the run (deferred so that the remaining rules still run and can name the construct that went missing)"""
        if got < minimum:
            self.floor_failures.append("%s: %s — %d instance(s) found, floor confirmed by hand is %d" % (rule, what, got, minimum))


def load_known():
    findings, fixed = [], []
    p = os.path.join(VERIF, "known_findings.txt")
    if os.path.exists(p):
        for line in open(p):
            line = line.strip()
            if not line or line.startswith("#"):
                continue
            if line.startswith("finding:"):
                d = dict(kv.split("=", 1) for kv in line[len("finding:"):].split() if "=" in kv and kv.split("=", 1)[0] in ("property", "rule", "site"))
                d["text"] = line
                findings.append(d)
            elif line.startswith("fixed:"):
                fixed.append(line)
    return findings, fixed


def write_evidence(pid, tier, ctx, wall, violations, status, extra=None):
    obs = ctx.obligations
    distinct = set()
    for o in obs:
        distinct.add((o["rule"], o["site"], o.get("fn"), o.get("config")))
    samples = []
    seen_rules = set()
    for o in obs:
        if o["rule"] not in seen_rules:
            seen_rules.add(o["rule"])
            samples.append({k: o[k] for k in ("rule", "site", "what", "loc", "ok")})
    mod = RULES.get(pid)
    ev = {
        "property_id": pid,
        "tier": tier,
        "seed": int(os.environ.get("VERIF_SEED", "0") or 0),
        "level": "other",
        "coverage": {
            "explanation": (getattr(mod, "EXPLANATION", "") if mod else "") +
                           " Decided statically from the current /repo tree: facts (resolved AST + clang CFG per "
                           "template instantiation) are re-extracted by the qfacts clang plugin on every run; "
                           "no quill code is executed.",
            "rule": "one obligation = one rule instance (rule id, site = function instantiation + anchor) generated "
                    "from the tree on this run; distinct = distinct (rule, site, instantiation, config); non-trivial = "
                    "the rule body examined at least one construct of the anchored function",
            "obligations": len(obs),
            "discharged": sum(1 for o in obs if o["ok"]),
            "evaluations": len(obs),
            "distinct_nontrivial": len(distinct),
            "samples": samples[:40],
            "functions_analysed": len(ctx.functions),
            "witness_units": sorted("%s[%s]" % (u[0], u[1]) for u in ctx.units),
            "configs": sorted(set(u[1] for u in ctx.units)),
            "rules": sorted(seen_rules),
            "status": status,
            "checker_cmd": "python3 engine/qcheck.py %s --tier %s" % (pid, tier),
            "trusted_base": ["clang 14 front end and CFG builder", "engine/qfacts.cc (fact extractor)",
                             "engine/qlib.py (graph queries)", "engine/rules/%s.py (rule tables)" % pid.lower()],
            "not_decided": getattr(mod, "NOT_DECIDED", "") if mod else "",
            "notes": ctx.notes,
        },
        "assumptions": list(getattr(mod, "ASSUMPTIONS", [])) if mod else [],
        "wall_s": round(wall, 3),
        "violations": violations,
    }
    if mod is not None and getattr(mod, "EXHAUSTIVE", None):
        ev["coverage"]["exhaustive"] = True
        ev["coverage"]["exhaustive_over"] = mod.EXHAUSTIVE
    if extra:
        ev["coverage"].update(extra)
    os.makedirs(os.path.join(OUTROOT, "evidence"), exist_ok=True)
    with open(os.path.join(OUTROOT, "evidence", pid + ".json"), "w") as fh:
        json.dump(ev, fh, indent=1)


RULES = {}

# Behavioural dependencies between properties: the dependent property's check also evaluates the rules of the property whose
# mechanism it relies on (reported as <dependent>/<rule>), so that a change which breaks, say, the ordering mechanism (C05) is
# reported by the flush guarantee (C06) that is stated in terms of it.
DEPENDS = {
    "C03": ["C01", "C02"],        # exactly-once / in-order delivery rests on both queues
    "C06": ["C05", "C03"],        # the cross-thread clause of flush_log rests on the timestamp-ordering mechanism; 'earlier statements
                                  # are written' rests on the hand-over chain (a thread whose queue the backend never reads never flushes)
    "C07": ["C03", "C06"],        # the exit drain uses the hand-over chain; 'is in the destination' rests on the flush chain of the sinks
    "C08": ["C01"],               # 'delivered intact and in order' rests on the bounded queue
    "C10": ["C06"],               # 'disturbs nothing else' includes the flush guarantee of the healthy sinks
    "C11": ["C01"],               # 'a statement that fits the current buffer' is decided by the bounded queue's space guard
    "C15": ["C14"],               # time rotation renames/names/bounds files through the same _rotate_files machinery as size rotation
}


class Prefixed:
    """forwards obligations of a dependency's rules under the dependent property's id"""

    def __init__(self, ctx, prefix):
        self._ctx, self._prefix = ctx, prefix

    def ob(self, rule, *a, **k):
        return self._ctx.ob(self._prefix + "/" + rule, *a, **k)

    def floor(self, rule, *a, **k):
        return self._ctx.floor(self._prefix + "/" + rule, *a, **k)

    def __getattr__(self, n):
        return getattr(self._ctx, n)


def load_rules(pid):
    if pid not in RULES:
        RULES[pid] = importlib.import_module("rules." + pid.lower())
    return RULES[pid]


def run_property(pid, tier, only=None, quiet=False):
    t0 = time.time()
    ctx = Ctx(pid, tier)
    ctx.only = only
    try:
        mod = load_rules(pid)
        mod.run(ctx)
        for dep in DEPENDS.get(pid, []):
            load_rules(dep).run(Prefixed(ctx, pid))
        if not ctx.obligations:
            raise AnalysisBroken("no obligation was generated for %s" % pid)
        if ctx.floor_failures:
            raise AnalysisBroken("; ".join(ctx.floor_failures))
    except AnalysisBroken as e:
        msg = str(e)
        # Obligations evaluated before the analysis broke stand on their own: a violation among them is reported as such (exit 1) and
        # the break is named next to it; with no violation the outcome is 'analysis broken' (exit 2) — never a pass.
        broken_msg = msg.replace("\n", " | ")[:1500]
        if only is None and any(not o["ok"] for o in ctx.obligations):
            print("ANALYSIS-INCOMPLETE property=%s %s" % (pid, broken_msg))
            ctx.note("analysis incomplete: " + broken_msg[:400])
        else:
            print("ANALYSIS-BROKEN property=%s %s" % (pid, broken_msg))
            if only is None:
                write_evidence(pid, tier, ctx, time.time() - t0, 0, "analysis-broken: " + msg[:500])
            return 2
    except Exception:
        traceback.print_exc()
        print("ANALYSIS-BROKEN property=%s internal error in the checker" % pid)
        if only is None:
            write_evidence(pid, tier, ctx, time.time() - t0, 0, "analysis-broken: internal error")
        return 2

    findings, _fixed = load_known()
    bad = [o for o in ctx.obligations if not o["ok"]]
    if os.environ.get("QV_DUMP"):   # debugging aid: list the obligations whose rule id contains the given text
        for o in ctx.obligations:
            if os.environ["QV_DUMP"] in o["rule"]:
                print("    [%s] %s %s @ %s : %s" % ("ok" if o["ok"] else "NO", o["rule"], o["site"], o["loc"], o["what"][:200]))
    if only is not None:
        sel = [o for o in ctx.obligations if o["rule"] == only[0] and o["site"] == only[1]]
        for o in sel:
            print("%s %s %s @ %s : %s" % ("HOLDS   " if o["ok"] else "VIOLATED", o["rule"], o["site"], o["loc"], o["what"]))
            if o.get("detail"):
                print("    " + json.dumps(o["detail"])[:2000])
        if not sel:
            print("rule instance no longer generated on this tree: %s %s" % only)
            return 2
        return 1 if any(not o["ok"] for o in sel) else 0

    new = []
    known_hit = []
    for o in bad:
        k = [f for f in findings if f.get("property") == pid and f.get("rule") == o["rule"] and f.get("site") == o["site"]]
        if k:
            known_hit.append((o, k[0]))
        else:
            new.append(o)
    printed = set()
    for o, k in known_hit:
        key = (o["rule"], o["site"])
        if key in printed:
            continue
        printed.add(key)
        print("KNOWN-FINDING: property=%s rule=%s site=%s %s" % (pid, o["rule"], o["site"], o["what"]))
    vdir = os.path.join(OUTROOT, "out", "violations", pid)
    printed = set()
    for o in new:
        key = (o["rule"], o["site"], o.get("fn"))
        if key in printed:
            continue
        printed.add(key)
        os.makedirs(vdir, exist_ok=True)
        hid = hashlib.sha1(("%s|%s|%s" % key).encode()).hexdigest()[:10]
        path = os.path.join(vdir, "%s-%s.json" % (o["rule"].replace(".", "_").replace("/", "-"), hid))
        with open(path, "w") as fh:
            json.dump({"property": pid, "tier": tier, **o}, fh, indent=1)
        print("  %s violated at %s in %s: %s" % (o["rule"], o["loc"], o.get("fn"), o["what"]))
        print("VIOLATION property=%s replay=%s" % (pid, os.path.relpath(path, OUTROOT)))
    wall = time.time() - t0
    write_evidence(pid, tier, ctx, wall, len(new), "violations" if new else "pass",
                   {"known_findings_hit": len(known_hit)})
    if not quiet:
        print("%s: %d obligations, %d discharged, %d violated (%d known), %d functions, %.1fs"
              % (pid, len(ctx.obligations), len(ctx.obligations) - len(bad), len(bad), len(known_hit),
                 len(ctx.functions), wall))
    return 1 if new else 0


def main():
    ap = argparse.ArgumentParser()
    ap.add_argument("pid", nargs="?")
    ap.add_argument("--tier", default=os.environ.get("VERIF_TIER", "quick"))
    ap.add_argument("--replay")
    a = ap.parse_args()
    os.chdir(VERIF)
    if a.replay:
        rec = json.load(open(a.replay))
        sys.exit(run_property(rec["property"], rec.get("tier", "quick"), only=(rec["rule"], rec["site"])))
    if not a.pid:
        ap.error("property id required")
    tier = a.tier if a.tier in ("quick", "thorough") else "quick"
    sys.exit(run_property(a.pid.upper(), tier))


if __name__ == "__main__":
    main()
