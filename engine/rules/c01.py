"""C01 — bounded SPSC queue: necessary structural conditions (DESIGN §4 C01)."""
import re
from qlib import (peel_not, AnalysisBroken, atomic_op, is_release, is_acquire, is_this_field, field_name, strip, norm_cmp,
                  expr_key, is_call, const_val, is_null, isnode, walk, short, var_ref, EXPLICIT_CASTS)
import roles as roles_mod

EXPLANATION = ("Bounded SPSC queue. R1: per atomic position field, single storing role, every publishing store >= release, "
               "every cross-role load >= acquire (C++11 orders, not x86-TSO). R2: every plain mutable field is touched by one "
               "thread role only (roles inferred over the resolved call graph from frontend/backend entry points). R3: the "
               "record is written before it is published (encode precedes finish_and_commit_write on all CFG paths; finish "
               "precedes commit; the published value is the private position). R4: every path of prepare_write that grants a "
               "reservation passes a 'does not fit' guard with outcome false; guard normalises to capacity - T(writer - "
               "reader_cache) < n; the two copies of the guard agree and the acquire reload lies between them; empty() likewise. "
               "R5: mask = capacity-1, capacity = next_power_of_two, storage = k*capacity with k>=2, returned pointers are "
               "storage + (pos & mask). Checked for T in {size_t,uint32_t,uint16_t,uint8_t}."
               ' R5e: compile-time witness (static_assert table evaluated by the compiler) for is_power_of_two / max_power_of_two. R5f (= C20.R6b): every mmap call asks for the one full length, which covers request + header + alignment.')
TECHNIQUE = 'static analysis: custom checker over clang AST/CFG facts (memory orders, thread roles, path rules) plus a compile-time witness (static_assert table) for the constexpr power-of-two helpers'
NOT_DECIDED = ("Sufficiency of these conditions: linearizability over all interleavings, the batch arithmetic, wrap-around "
               "of the counters as values. Those need a model checker / prover over the queue's state space.")
ASSUMPTIONS = ["single producer thread and single consumer thread per queue (API contract)",
               "clang's CFG of the instantiation is a sound over-approximation of control flow (no EH edges: queue methods are noexcept)"]

CLS = "quill::detail::BoundedSPSCQueueImpl"
PRODUCER_FIELDS_HINT = ("_writer_pos", "_reader_pos_cache")
CONSUMER_FIELDS_HINT = ("_reader_pos", "_writer_pos_cache")


def methods_of(facts, clsname, config):
    return [f for f in facts.fns if f.config == config and f.cls == clsname and not f.rec.get("ctor") and not f.rec.get("dtor")]


def field_accesses(fn):
    """[(field, 'R'|'W'|'A', node)] for this->field accesses; W when assigned/compound-assigned/inc/dec,
    A when an atomic member op is applied"""
    out = []
    writes = set()
    for n in fn.walk():
        if n["k"] in ("BinaryOperator", "CompoundAssignOperator") and n["op"] in ("=", "+=", "-=", "*=", "/=", "|=", "&=", "^=", "<<=", ">>="):
            l = strip(n["lhs"])
            if isnode(l) and l["k"] == "MemberExpr":
                writes.add(l["id"])
        if n["k"] == "UnaryOperator" and n["op"] in ("++", "--"):
            l = strip(n["sub"])
            if isnode(l) and l["k"] == "MemberExpr":
                writes.add(l["id"])
    for n in fn.walk():
        if n["k"] == "MemberExpr" and n.get("dk") == "Field" and is_this_field(n):
            out.append((n["mname"], "W" if n["id"] in writes else "R", n))
    return out


def role_by_method(facts, config):
    """role per method base name, inferred on the size_t instantiation through the call graph"""
    r, proots, croots = roles_mod.infer(facts, config)
    if not proots or not croots:
        raise AnalysisBroken("role inference: no frontend or backend roots found")
    out = {}
    for f in facts.fns:
        if f.config == config and f.cls == CLS + "<unsigned long>":
            out[f.base] = r.get(id(f), set())
    return out


def run(ctx):
    # QUILL_X86ARCH compiles extra code into the queue (cache-line flushes, prefetch): config C is part of the quick tier too
    configs = ["A", "C"] if ctx.tier == "quick" else ["A", "B", "C"]
    for cfg in configs:
        facts = ctx.facts("core.cpp", cfg)
        classes = [c for c in facts.cls_all(CLS, cfg)]
        ctx.floor("C01", "instantiations of BoundedSPSCQueueImpl", len(classes), 4)
        mrole = role_by_method(facts, cfg)
        for crec in classes:
            check_class(ctx, facts, cfg, crec, mrole)
        check_publish_last(ctx, facts, cfg)
        check_power_of_two(ctx, facts, cfg)
        # the storage handed out lies inside what was mapped: every mmap call (huge-page attempt and fallback) asks for the full length (= C20.R6b)
        from rules import c20
        c20.mapping_agreement(ctx, facts, cfg, "C01.R5f")
    power_of_two_witness(ctx)


def check_class(ctx, facts, cfg, crec, mrole):
    cname = crec["name"]
    T = re.search(r"<(.*)>$", cname).group(1)
    tag = "BoundedSPSCQueueImpl<%s>" % T
    meths = methods_of(facts, cname, cfg)
    byname = {m.base: m for m in meths}
    for need in ("prepare_write", "finish_write", "commit_write", "finish_and_commit_write", "prepare_read",
                 "finish_read", "commit_read", "empty"):
        if need not in byname:
            raise AnalysisBroken("anchor %s::%s not found (config %s)" % (cname, need, cfg))
    fields = {f["name"]: f for f in crec["fields"]}
    for need in ("_atomic_writer_pos", "_atomic_reader_pos", "_writer_pos", "_reader_pos", "_reader_pos_cache",
                 "_writer_pos_cache", "_capacity", "_mask", "_storage"):
        if need not in fields:
            raise AnalysisBroken("anchor field %s::%s not found" % (cname, need))
    atomics = [n for n, f in fields.items() if f["cty"].startswith("std::atomic<")]
    tbits = fields["_writer_pos"]["bits"]

    def role_of(m):
        r = mrole.get(m.base)
        if r is None:
            return set()
        return r

    # ---------------- R1 atomic orders
    ops = []  # (method, field, atomic_op)
    for m in meths:
        for n in m.walk():
            a = atomic_op(n)
            if a and a["obj"] is not None and is_this_field(a["obj"]):
                ops.append((m, field_name(a["obj"]), a))
    for af in atomics:
        storers = [(m, a) for (m, f, a) in ops if f == af and a["kind"] in ("store", "rmw")]
        loaders = [(m, a) for (m, f, a) in ops if f == af and a["kind"] in ("load", "rmw")]
        sroles = set()
        for m, a in storers:
            sroles |= role_of(m)
        ctx.ob("C01.R1a", "%s::%s:single-writer-role" % (tag, af), len(sroles) <= 1 and len(storers) >= 1,
               "atomic %s is stored by %d site(s) in role(s) %s (must be exactly one role)" % (af, len(storers), sorted(sroles)),
               loc=fields[af]["loc"], fn=storers[0][0] if storers else meths[0])
        for m, a in storers:
            ctx.ob("C01.R1b", "%s::%s:store-order@%s" % (tag, m.base, af), is_release(a["order"]),
                   "store to %s in %s has order %s (>= release required to publish the payload bytes)" % (af, m.base, a["order"]),
                   loc=a["node"]["loc"], fn=m)
        for m, a in loaders:
            other = bool(role_of(m) - sroles) or not role_of(m)
            if other:
                ctx.ob("C01.R1c", "%s::%s:load-order@%s" % (tag, m.base, af), is_acquire(a["order"]),
                       "cross-role load of %s in %s has order %s (>= acquire required)" % (af, m.base, a["order"]),
                       loc=a["node"]["loc"], fn=m)
            else:
                ctx.ob("C01.R1d", "%s::%s:own-load@%s" % (tag, m.base, af), True,
                       "owner's re-load of %s in %s (%s) — relaxed is sufficient" % (af, m.base, a["order"]),
                       loc=a["node"]["loc"], fn=m)
    # must-have: commit_write publishes _writer_pos to _atomic_writer_pos on every path; commit_read publishes _reader_pos when it publishes
    for mname, af, pf in (("commit_write", "_atomic_writer_pos", "_writer_pos"),):
        m = byname[mname]
        g = m.g
        st = [a for (mm, f, a) in ops if mm is m and f == af and a["kind"] == "store" and is_this_field(a["value"], pf)]
        pos = [p for a in st for p in g.positions(a["node"])]
        ok = bool(pos) and not g.exists_path([g.entry_node], [g.exit_node], avoid_nodes=pos)
        ctx.ob("C01.R3c", "%s::%s:publishes-%s" % (tag, mname, pf), ok,
               "every path through %s stores the private position %s into %s" % (mname, pf, af), fn=m)
    m = byname["commit_read"]
    st_all = [a for (mm, f, a) in ops if mm is m and f == "_atomic_reader_pos" and a["kind"] == "store"]
    ctx.ob("C01.R3c", "%s::commit_read:publishes-_reader_pos" % tag,
           len(st_all) >= 1 and all(is_this_field(a["value"], "_reader_pos") for a in st_all),
           "commit_read's store(s) to _atomic_reader_pos publish the private position _reader_pos (found %d store(s))" % len(st_all), fn=m)

    # ---------------- R2 ownership of plain fields
    acc = {}
    for m in meths:
        for (f, rw, n) in field_accesses(m):
            acc.setdefault(f, []).append((m, rw, n))
    for fname, frec in fields.items():
        if frec.get("const") or frec["cty"].startswith("std::atomic<"):
            continue
        rs = set()
        users = []
        for (m, rw, n) in acc.get(fname, []):
            r = role_of(m)
            rs |= r
            users.append("%s[%s]" % (m.base, "".join(sorted(r)) or "-"))
        ctx.ob("C01.R2", "%s::%s:owner" % (tag, fname), len(rs) <= 1,
               "plain field %s is accessed from role(s) %s via %s — must be one thread role" % (fname, sorted(rs), sorted(set(users))),
               loc=frec["loc"], fn=meths[0])
    # methods reachable from both roles may only touch const fields
    for m in meths:
        if len(role_of(m)) > 1:
            touched = [f for (f, rw, n) in field_accesses(m) if not fields[f].get("const")]
            ctx.ob("C01.R2", "%s::%s:shared-method" % (tag, m.base), not touched,
                   "%s is reachable from both thread roles and touches non-const field(s) %s" % (m.base, sorted(set(touched))), fn=m)

    # ---------------- R3 finish before commit
    m = byname["finish_and_commit_write"]
    g = m.g
    fin = [p for n in m.calls(r"::finish_write$") for p in g.positions(n)]
    com = [p for n in m.calls(r"::commit_write$") for p in g.positions(n)]
    ok = bool(fin) and bool(com) and not g.exists_path([g.entry_node], com, avoid_nodes=fin) and not g.exists_path(com, fin) \
        and not g.exists_path([g.entry_node], [g.exit_node], avoid_nodes=com)
    ctx.ob("C01.R3b", "%s::finish_and_commit_write:order" % tag, ok,
           "finish_write precedes commit_write on every path and commit_write is always reached", fn=m)
    m = byname["finish_write"]
    incs = [n for n in m.walk() if n["k"] == "CompoundAssignOperator" and n["op"] == "+=" and is_this_field(n["lhs"], "_writer_pos")]
    ctx.ob("C01.R3b", "%s::finish_write:advances-_writer_pos" % tag, len(incs) == 1 and var_ref(incs[0]["rhs"]) is not None,
           "finish_write advances the private writer position by its argument", fn=m)
    m = byname["finish_read"]
    incs = [n for n in m.walk() if n["k"] == "CompoundAssignOperator" and n["op"] == "+=" and is_this_field(n["lhs"], "_reader_pos")]
    ctx.ob("C01.R3b", "%s::finish_read:advances-_reader_pos" % tag, len(incs) == 1 and var_ref(incs[0]["rhs"]) is not None,
           "finish_read advances the private reader position by its argument", fn=m)

    # ---------------- R4 guards
    check_prepare_write(ctx, tag, byname["prepare_write"], tbits)
    check_empty(ctx, tag, byname["empty"])
    m = byname["prepare_read"]
    g = m.g
    # non-null return only when empty() was false
    emp = [p for n in m.calls(r"::empty$") for p in g.positions(n)]
    nonnull = g.return_nodes(lambda r: not is_null(r.get("val")))
    ok = bool(emp) and bool(nonnull) and all(g.dominates(emp, r) for r in nonnull)
    # the branch on empty(): true edge must not reach a non-null return
    br = g.branch_edges_on(lambda c: any(is_call(x, r"::empty$") for x in walk(c)))
    ok2 = bool(br)
    for (bid, c) in br:
        neg = cond_negated(c)
        lab_empty = "F" if neg else "T"
        if g.exists_path([(bid, len(g.blocks[bid]["el"]))], nonnull, avoid_edges=[(bid, "F" if lab_empty == "T" else "T")]):
            ok2 = False
    ctx.ob("C01.R4c", "%s::prepare_read:guard" % tag, ok and ok2,
           "prepare_read hands out a read pointer only on the not-empty outcome of empty()", fn=m)

    # ---------------- R5 constants / contiguity
    check_layout_constants(ctx, facts, cfg, tag, cname, byname)


def cond_negated(c):
    c = strip(c)
    neg = False
    while isnode(c) and c["k"] == "UnaryOperator" and c["op"] == "!":
        neg = not neg
        c = strip(c["sub"])
    return neg


def free_space_shape(cond, tbits, nparam):
    """does cond normalise to  _capacity - T(_writer_pos - _reader_pos_cache) < n ?  returns (ok, key, why)"""
    nc = norm_cmp(cond)
    if nc is None:
        return (None, None, "not a comparison")
    # find the raw operands again to look at structure
    c = strip(cond)
    neg = False
    while isnode(c) and c["k"] == "UnaryOperator" and c["op"] == "!":
        neg = not neg
        c = strip(c["sub"])
    op = c["op"]
    l, r = c["lhs"], c["rhs"]
    from qlib import CMP_NEG, CMP_FLIP
    if neg:
        op = CMP_NEG[op]
    if op in (">", ">="):
        op = CMP_FLIP[op]
        l, r = r, l
    # now  l op r  with op in < <= == !=
    if var_ref(r) != nparam:
        return (None, nc, "right operand is not the requested size")
    ls = strip(l)
    if not (isnode(ls) and ls["k"] == "BinaryOperator" and ls["op"] == "-" and is_this_field(ls["lhs"], "_capacity")):
        return (None, nc, "left operand is not capacity - used")
    used = strip(ls["rhs"])
    had_cast = False
    cast_bits_ok = True
    while isnode(used) and used["k"] in EXPLICIT_CASTS:
        had_cast = True
        used = strip(used["sub"])
    if not (isnode(used) and used["k"] == "BinaryOperator" and used["op"] == "-" and
            is_this_field(used["lhs"], "_writer_pos") and is_this_field(used["rhs"], "_reader_pos_cache")):
        return (None, nc, "used space is not writer_pos - reader_pos_cache")
    if not had_cast and tbits < 32:
        return (False, nc, "modular distance of a %d-bit position is not cast back to the position type (integer promotion breaks wrap-around)" % tbits)
    if op != "<":
        return (False, nc, "guard is '%s' — a record that exactly fits the released space must be granted and one byte more refused ('<')" % op)
    return (True, nc, "ok")


def check_prepare_write(ctx, tag, m, tbits):
    g = m.g
    params = m.rec["params"]
    if len(params) != 1:
        raise AnalysisBroken("prepare_write signature changed")
    nparam = params[0]["did"]
    guards = []
    for bid, b in g.blocks.items():
        if b.get("term") != "IfStmt":
            continue
        c = g.term_cond(bid)
        if c is None or norm_cmp(c) is None:
            continue
        ok, key, why = free_space_shape(c, tbits, nparam)
        guards.append((bid, c, ok, key, why))
    shaped = [x for x in guards if x[2] is not None]
    if not shaped:
        raise AnalysisBroken("%s::prepare_write: no space guard of a recognised shape (%s)" % (tag, [x[4] for x in guards]))
    for (bid, c, ok, key, why) in shaped:
        ctx.ob("C01.R4a", "%s::prepare_write:guard-shape#%d" % (tag, shaped.index((bid, c, ok, key, why))), ok,
               "space guard normalises to capacity - T(writer - reader_cache) < n : %s" % why, loc=c["loc"], fn=m)
    nonnull = g.return_nodes(lambda r: not is_null(r.get("val")))
    if not nonnull:
        raise AnalysisBroken("%s::prepare_write: no granting return" % tag)
    # every path to a grant passes some guard with outcome false: remove all F edges of guards -> grant unreachable
    avoid = [(bid, "F") for (bid, c, ok, key, why) in shaped]
    granted_unguarded = g.exists_path([g.entry_node], nonnull, avoid_edges=avoid)
    ctx.ob("C01.R4b", "%s::prepare_write:grant-guarded" % tag, not granted_unguarded,
           "every path that returns a write pointer passes a 'does not fit' guard with outcome false", fn=m)
    # twin agreement + reload between
    ctx.ob("C01.R4d", "%s::prepare_write:twin-guards" % tag, len(shaped) >= 2 and len(set(x[3] for x in shaped)) == 1,
           "the guard before and after the acquire reload are the same predicate (%d guard(s), %d distinct)" % (len(shaped), len(set(x[3] for x in shaped))), fn=m)
    # refusal only after a reload: every path to 'return nullptr' passes an assignment _reader_pos_cache = acquire load
    reloads = []
    for n in m.walk():
        if n["k"] == "BinaryOperator" and n["op"] == "=" and is_this_field(n["lhs"], "_reader_pos_cache"):
            a = atomic_op(strip(n["rhs"]))
            if a and a["kind"] == "load" and is_this_field(a["obj"], "_atomic_reader_pos"):
                reloads.append(n)
    rp = [p for n in reloads for p in g.positions(n)]
    nulls = g.return_nodes(lambda r: is_null(r.get("val")))
    ok = bool(rp) and bool(nulls) and not g.exists_path([g.entry_node], nulls, avoid_nodes=rp)
    # and a guard is evaluated after the reload on the way to refusal
    if ok:
        for (bid, c, okk, key, why) in shaped:
            pass
        after = g.reach(rp)
        ok = any((bid, len(g.blocks[bid]["el"])) in after for (bid, c, okk, key, why) in shaped)
    ctx.ob("C01.R4e", "%s::prepare_write:refuse-after-reload" % tag, ok,
           "a reservation is refused only after re-loading the published reader position and re-evaluating the guard", fn=m)
    # returned pointer
    for r in nonnull:
        rn = g.node_ast(r)
        ctx.ob("C01.R5a", "%s::prepare_write:pointer" % tag, ptr_shape(rn.get("val"), "_writer_pos"),
               "granted pointer is _storage + (_writer_pos & _mask)", loc=rn["loc"], fn=m)


def ptr_shape(v, pos):
    v = strip(v)
    if not (isnode(v) and v["k"] == "BinaryOperator" and v["op"] == "+"):
        return False
    a, b = strip(v["lhs"]), strip(v["rhs"])
    if not is_this_field(a, "_storage"):
        a, b = b, a
    if not is_this_field(a, "_storage"):
        return False
    b = strip(b, casts=True)
    if not (isnode(b) and b["k"] == "BinaryOperator" and b["op"] == "&"):
        return False
    x, y = b["lhs"], b["rhs"]
    return (is_this_field(x, pos) and is_this_field(y, "_mask")) or (is_this_field(y, pos) and is_this_field(x, "_mask"))


def check_empty(ctx, tag, m):
    g = m.g
    eqs = []
    for bid, b in g.blocks.items():
        if b.get("term") != "IfStmt":
            continue
        c = g.term_cond(bid)
        nc = norm_cmp(c) if c is not None else None
        if nc and nc[0] in ("==", "!="):
            sc = strip(c)
            ops_ = (strip(sc["lhs"]), strip(sc["rhs"])) if sc["k"] == "BinaryOperator" else None
            if ops_ and {field_name(ops_[0]), field_name(ops_[1])} == {"_writer_pos_cache", "_reader_pos"}:
                eqs.append((bid, c, nc))
    # `return _writer_pos_cache == _reader_pos;` is a test and its two exits in one: 'empty' exactly on equal
    ret_eq, ret_ne = [], []
    for r in g.return_nodes():
        rn = g.node_ast(r)
        v = strip(rn.get("val")) if isnode(rn) else None
        nv = norm_cmp(v) if isnode(v) else None
        if nv and nv[0] in ("==", "!=") and isnode(v):
            core = peel_not(v)
            if isnode(core) and core["k"] == "BinaryOperator" and {field_name(strip(core["lhs"])), field_name(strip(core["rhs"]))} == {"_writer_pos_cache", "_reader_pos"}:
                (ret_eq if nv[0] == "==" else ret_ne).append(r)
    if not eqs and not ret_eq and not ret_ne:
        raise AnalysisBroken("%s::empty: emptiness test of a recognised shape not found" % tag)
    ctx.ob("C01.R4d", "%s::empty:twin-tests" % tag, len(eqs) + len(ret_eq) >= 2 and len(set((e[2][1], e[2][2]) for e in eqs)) <= 1,
           "empty() tests writer_pos_cache == reader_pos before and after the acquire reload with the same predicate (%d test(s))" % (len(eqs) + len(ret_eq)), fn=m)
    reloads = []
    for n in m.walk():
        if n["k"] == "BinaryOperator" and n["op"] == "=" and is_this_field(n["lhs"], "_writer_pos_cache"):
            a = atomic_op(strip(n["rhs"]))
            if a and a["kind"] == "load" and is_this_field(a["obj"], "_atomic_writer_pos"):
                reloads.append(n)
    rp = [p for n in reloads for p in g.positions(n)]
    lit_trues = g.return_nodes(lambda r: const_val(r.get("val")) == 1)
    lit_falses = g.return_nodes(lambda r: const_val(r.get("val")) == 0)
    trues = lit_trues + ret_eq + ret_ne
    falses = lit_falses + ret_eq + ret_ne
    if not trues or not falses:
        raise AnalysisBroken("%s::empty: true/false returns not found" % tag)
    ok = bool(rp) and not g.exists_path([g.entry_node], trues, avoid_nodes=rp)
    ctx.ob("C01.R4e", "%s::empty:true-after-reload" % tag, ok,
           "empty() reports 'empty' only after re-loading the published writer position (acquire)", fn=m)
    # 'true' is returned only through the equal-outcome of a test evaluated after the reload;
    # 'false' never through the equal-outcome of the last test
    eq_edges = []
    ne_edges = []
    for (bid, c, nc) in eqs:
        eq_lab = "T" if nc[0] == "==" else "F"
        eq_edges.append((bid, eq_lab))
        ne_edges.append((bid, "F" if eq_lab == "T" else "T"))
    ok = not g.exists_path([g.entry_node], lit_trues, avoid_edges=eq_edges) and not ret_ne
    ctx.ob("C01.R4b", "%s::empty:true-only-when-equal" % tag, ok,
           "empty() returns true only through the positions-equal outcome", fn=m)
    after = g.reach(rp)
    late = [(bid, c, nc) for (bid, c, nc) in eqs if (bid, len(g.blocks[bid]["el"])) in after]
    late_ret = [r for r in ret_eq if r in after]
    ok = (bool(late) or bool(late_ret)) and not ret_ne
    for (bid, c, nc) in late:
        eq_lab = "T" if nc[0] == "==" else "F"
        if g.exists_path([(bid, len(g.blocks[bid]["el"]))], lit_falses, avoid_edges=[(bid, "F" if eq_lab == "T" else "T")]):
            ok = False
    if not late and g.exists_path(rp, lit_falses):
        # after the reload nothing but the returned comparison decides: a literal 'not empty' behind the reload is unconditional
        ok = False
    ctx.ob("C01.R4b", "%s::empty:false-only-when-different" % tag, ok,
           "after the reload, the positions-equal outcome never leads to 'not empty' (a committed record is not reported twice / an empty queue is not read)", fn=m)


def check_layout_constants(ctx, facts, cfg, tag, cname, byname):
    ctors = [f for f in facts.fns if f.config == cfg and f.cls == cname and f.rec.get("ctor") and f.rec.get("inits")]
    if not ctors:
        raise AnalysisBroken("%s: constructor not found" % tag)
    c = ctors[0]
    inits = {i["member"]: i["expr"] for i in c.rec["inits"] if i.get("written")}
    for need in ("_capacity", "_mask", "_storage"):
        if need not in inits:
            raise AnalysisBroken("%s: constructor does not initialise %s in its initialiser list" % (tag, need))
    cap = strip(inits["_capacity"], casts=True)
    ok = any(is_call(x, r"::next_power_of_two") for x in walk(cap))
    ctx.ob("C01.R5b", "%s::ctor:_capacity" % tag, ok, "capacity is rounded by next_power_of_two", loc=cap.get("loc", ""), fn=c)
    mk = strip(inits["_mask"], casts=True)
    ok = isnode(mk) and mk["k"] == "BinaryOperator" and mk["op"] == "-" and is_this_field(mk["lhs"], "_capacity") and const_val(mk["rhs"]) == 1
    ctx.ob("C01.R5b", "%s::ctor:_mask" % tag, ok, "mask = capacity - 1", loc=mk.get("loc", "") if isnode(mk) else "", fn=c)
    # allocation size = k * capacity, k >= 2
    allocs = [n for n in walk(inits["_storage"]) if is_call(n, r"::_alloc_aligned$")]
    ok = False
    why = "no _alloc_aligned call in the _storage initialiser"
    if allocs:
        sz = strip(allocs[0]["args"][0], casts=True)
        ok, why = size_is_k_capacity(sz)
    ctx.ob("C01.R5c", "%s::ctor:_storage-size" % tag, ok,
           "storage is k*capacity bytes with literal k >= 2 so that a record starting below capacity stays contiguous (%s)" % why, fn=c)
    m = byname["prepare_read"]
    g = m.g
    for r in g.return_nodes(lambda r: not is_null(r.get("val"))):
        rn = g.node_ast(r)
        ctx.ob("C01.R5a", "%s::prepare_read:pointer" % tag, ptr_shape(rn.get("val"), "_reader_pos"),
               "read pointer is _storage + (_reader_pos & _mask)", loc=rn["loc"], fn=m)


def size_is_k_capacity(sz):
    if not (isnode(sz) and sz["k"] == "BinaryOperator" and sz["op"] == "*"):
        return (False, "size is not a product")
    a, b = sz["lhs"], sz["rhs"]
    for (k, cap) in ((a, b), (b, a)):
        kv = const_val(k)
        if kv is not None and is_this_field(strip(cap, casts=True), "_capacity"):
            return (kv >= 2, "k=%s" % kv)
    return (False, "size is not k * _capacity")


def check_publish_last(ctx, facts, cfg):
    """R3a: in every log_statement instantiation the record bytes are written before the commit."""
    fns = facts.need("quill::LoggerImpl::log_statement", cfg, floor=8)
    for f in fns:
        g = f.g
        commit = [p for n in f.calls(r"::finish_and_commit_write$") for p in g.positions(n)]
        if not commit:
            ctx.ob("C01.R3a", "log_statement:commit-present", False, "log_statement never commits the reservation", fn=f)
            continue
        writes = []
        for n in f.calls():
            cs = short(n.get("callee") or "")
            if cs.endswith("::_encode_header") or cs == "quill::detail::encode" or cs in ("memcpy", "std::memcpy"):
                writes.extend(g.positions(n))
        hdr = [p for n in f.calls(r"::_encode_header$") for p in g.positions(n)]
        enc = [p for n in f.calls(r"^quill::detail::encode<") for p in g.positions(n)] + \
              [p for n in f.calls(r"^quill::detail::encode$") for p in g.positions(n)]
        ok = bool(hdr) and bool(enc)
        ok = ok and not g.exists_path(commit, writes)
        ok = ok and not g.exists_path([g.entry_node], commit, avoid_nodes=hdr)
        ok = ok and not g.exists_path([g.entry_node], commit, avoid_nodes=enc)
        site = "log_statement<%s>:publish-last" % ",".join(f.rec.get("targs", [])[:2])
        ctx.ob("C01.R3a", site, ok,
               "header and arguments are encoded before finish_and_commit_write on every path and nothing is written through the buffer afterwards", fn=f)


def check_power_of_two(ctx, facts, cfg):
    """R5d: next_power_of_two can only return a power of two (mask = capacity - 1 relies on it)"""
    from rules.common import branches_on_call, tnode, other
    fs = facts.need("quill::detail::next_power_of_two", cfg, floor=2)
    for f in fs:
        g = f.g
        T = (f.rec.get("targs") or ["?"])[0]
        n = f.rec["params"][0]["did"]
        decls = f.var_decls()
        pb = [(b, t, c) for (b, t, c) in branches_on_call(f, r"::is_power_of_two$") if any(x["k"] == "DeclRefExpr" and x.get("did") == n for x in walk(c))]
        ok = True
        kinds = []
        for r in g.return_nodes():
            v = strip(g.node_ast(r).get("val"), casts=True)
            cv = const_val(v)
            vid = var_ref(v)
            if cv is not None and vid != n:
                good = cv > 0 and (cv & (cv - 1)) == 0
                kinds.append("const %s" % cv)
            elif vid == n:
                good = bool(pb) and not g.exists_path([g.entry_node], [r], avoid_edges=[(b, t) for (b, t, c) in pb])
                kinds.append("n when is_power_of_two(n)")
            elif vid is not None and vid in decls:
                init = decls[vid].get("init")
                asg = [x for x in f.assignments_to_var(vid) if x["op"] == "="]
                shifts = [x for x in f.walk() if x["k"] == "CompoundAssignOperator" and var_ref(x["lhs"]) == vid]
                good = const_val(init) == 1 and not asg and bool(shifts) and \
                    all((x["op"] == "<<=" and const_val(x["rhs"]) == 1) or (x["op"] == "*=" and const_val(x["rhs"]) == 2) for x in shifts) and \
                    not [x for x in f.walk() if x["k"] == "UnaryOperator" and x["op"] in ("++", "--") and var_ref(x["sub"]) == vid]
                kinds.append("1 << k")
            else:
                good = False
                kinds.append("?")
            ok = ok and good
        ctx.ob("C01.R5d", "next_power_of_two<%s>:returns-power-of-two" % T, ok and bool(kinds),
               "every value next_power_of_two can return is a power of two by construction (%s)" % ", ".join(kinds), fn=f)
        # the doubling loop stops as soon as result >= n
        loops = [x for x in f.walk() if x["k"] == "WhileStmt"]
        okl = False
        for lp in loops:
            nc = norm_cmp(lp["cond"])
            c = strip(lp["cond"])
            if nc and nc[0] == "<" and isnode(c) and c["k"] == "BinaryOperator":
                small, big = (c["lhs"], c["rhs"]) if c["op"] in ("<", "<=") else (c["rhs"], c["lhs"])
                okl = var_ref(big) == n and var_ref(small) is not None and var_ref(small) != n
        ctx.ob("C01.R5d", "next_power_of_two<%s>:not-smaller-than-request" % T, okl,
               "doubling continues while result < n: the result is the first power of two that is >= n (never smaller than requested)", fn=f)
    ip = facts.need("quill::detail::is_power_of_two", cfg)[0]
    rets = [ip.g.node_ast(r) for r in ip.g.return_nodes()]
    ok = len(rets) == 1
    if ok:
        from rules.common import flatten
        parts = flatten(rets[0]["val"], "&&")
        p0 = ip.rec["params"][0]["did"]
        nz = any(norm_cmp(x) and norm_cmp(x)[0] == "!=" and "0" in norm_cmp(x)[1:] and any(y["k"] == "DeclRefExpr" and y.get("did") == p0 for y in walk(x)) for x in parts)
        bit = False
        for x in parts:
            nc = norm_cmp(x)
            if nc and nc[0] == "==" and "0" in nc[1:]:
                for y in walk(x):
                    if y["k"] == "BinaryOperator" and y["op"] == "&":
                        a, b = strip(y["lhs"], casts=True), strip(y["rhs"], casts=True)
                        for (u, v) in ((a, b), (b, a)):
                            if var_ref(u) == p0 and isnode(v) and v["k"] == "BinaryOperator" and v["op"] == "-" and var_ref(v["lhs"]) == p0 and const_val(v["rhs"]) == 1:
                                bit = True
        ok = nz and bit and len(parts) == 2
    ctx.ob("C01.R5d", "is_power_of_two:definition", ok, "is_power_of_two(n) is n != 0 && (n & (n - 1)) == 0", fn=ip)


def power_of_two_witness(ctx, rule="C01.R5e"):
    """R5e: compile-time witness for the two constexpr helpers next_power_of_two rests on: is_power_of_two(n) is 'exactly one bit set' for
    every n up to 2^16 and for 2^k - 1, 2^k, 2^k + 1 (k <= 63); max_power_of_two<T>() is 2^(bits-1) for the four unsigned index types."""
    import ctw
    vals = set(range(0, 65537))
    for k in range(0, 64):
        for d in (-1, 0, 1):
            v = (1 << k) + d
            if 0 <= v < (1 << 64):
                vals.add(v)
    vals.add((1 << 64) - 1)
    rows = ["{%dull, %s}" % (v, "true" if bin(v).count("1") == 1 else "false") for v in sorted(vals)]
    bad = ctw.static_table("pow2", '#include "quill/core/MathUtilities.h"\n#include <cstdint>\nnamespace d = quill::detail;\n'
                           'static_assert(d::max_power_of_two<uint8_t>() == 128u && d::max_power_of_two<uint16_t>() == 32768u && '
                           'd::max_power_of_two<uint32_t>() == 2147483648u && d::max_power_of_two<uint64_t>() == 9223372036854775808ull, "chunk 0");',
                           "unsigned long long n; bool p;", rows, "d::is_power_of_two(r.n) == r.p", step=4096)
    ctx.units.add(("pow2-witness", "A"))
    ctx.ob(rule, "MathUtilities:is_power_of_two/max_power_of_two", not bad,
           "compile-time witness over %d values (0..65536 and 2^k-1, 2^k, 2^k+1 for k <= 63): is_power_of_two is 'exactly one bit set'; "
           "max_power_of_two<T>() is 2^(bits-1) for uint8/16/32/64%s" % (len(rows), ("; mismatch at row(s) %s" % bad[:4]) if bad else ""),
           loc="core/MathUtilities.h")
