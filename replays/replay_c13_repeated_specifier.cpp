// C13 defect 8: a pattern repeating the same fractional specifier was accepted and rendered a raw "%Qms".
#include "quill/backend/TimestampFormatter.h"
#include <cstdio>
int main(){
  try {
    quill::detail::TimestampFormatter tf{"%H:%M:%S.%Qms|%Qms", quill::Timezone::GmtTime};
    auto sv = tf.format_timestamp(std::chrono::nanoseconds{1700000000123456789LL});
    std::printf("accepted, rendered: %.*s\n", (int)sv.size(), sv.data());
    return 1;
  } catch (std::exception const& e) { std::printf("rejected: %s\n", e.what()); return 0; }
}
