"""qir — LLVM-IR call graph / effect analysis (DESIGN §2.2).

The witness is compiled with `clang++ -O0 -Xclang -disable-O0-optnone -S -emit-llvm` against the *current* tree; at -O0
nothing is inlined, so every call the source (and the compiler: implicit constructors, conversions, operator new inside
std::string) makes is an edge. Only the call graph is inspected; nothing is executed."""
import hashlib
import os
import re
import subprocess
from collections import defaultdict, deque

import qlib
from qlib import AnalysisBroken

DEFINE_RE = re.compile(r'^define\s.*?@("[^"]+"|[\w.$]+)\(')
DECLARE_RE = re.compile(r'^declare\s.*?@("[^"]+"|[\w.$]+)\(')
CALL_RE = re.compile(r'\b(?:call|invoke)\b.*?(?:@("[^"]+"|[\w.$]+)|(%[\w.]+|%"[^"]+"))\(')


def emit_ir(witness, config="A", extra_flags=()):
    wpath = witness if os.path.isabs(witness) else os.path.join(qlib.VERIF, "witness", witness)
    h = hashlib.sha256()
    h.update(qlib.tree_hash().encode())
    with open(wpath, "rb") as fh:
        h.update(fh.read())
    flags = qlib.CONFIGS[config] + list(extra_flags)
    h.update(" ".join(flags).encode())
    h.update(qlib.SRC.encode())
    os.makedirs(qlib.CACHE, exist_ok=True)
    out = os.path.join(qlib.CACHE, "ir-%s-%s-%s.ll" % (os.path.basename(wpath).replace(".cpp", ""), config, h.hexdigest()[:24]))
    if os.path.exists(out) and os.path.getsize(out) > 0:
        return out
    tmp = out + ".tmp%d" % os.getpid()
    cmd = ["clang++"] + flags + ["-I" + qlib.SRC, "-I" + os.path.join(qlib.VERIF, "witness"), "-O0", "-Xclang", "-disable-O0-optnone",
                                 "-S", "-emit-llvm", "-w", wpath, "-o", tmp]
    r = subprocess.run(cmd, capture_output=True, text=True)
    if r.returncode != 0 or not os.path.exists(tmp):
        if os.path.exists(tmp):
            os.unlink(tmp)
        raise AnalysisBroken("effect witness %s does not compile against the current tree:\n%s" % (os.path.basename(wpath), r.stderr[-3000:]))
    os.replace(tmp, out)
    prefix = "ir-%s-%s-" % (os.path.basename(wpath).replace(".cpp", ""), config)
    import time
    for f in os.listdir(qlib.CACHE):
        if f.startswith(prefix) and os.path.join(qlib.CACHE, f) != out and ".tmp" not in f:
            try:
                if time.time() - os.path.getmtime(os.path.join(qlib.CACHE, f)) > 1800:
                    os.unlink(os.path.join(qlib.CACHE, f))
            except OSError:
                pass
    return out


def demangle(names):
    names = list(names)
    if not names:
        return {}
    r = subprocess.run(["c++filt"], input="\n".join(names) + "\n", capture_output=True, text=True)
    outs = r.stdout.split("\n")
    return {n: (outs[i] if i < len(outs) and outs[i] else n) for i, n in enumerate(names)}


class CallGraph:
    def __init__(self, path):
        self.defined = {}      # mangled -> first line number
        self.declared = set()
        self.edges = defaultdict(set)       # caller -> callees (mangled)
        self.indirect = defaultdict(int)    # caller -> number of indirect call sites
        cur = None
        with open(path) as fh:
            for ln, line in enumerate(fh, 1):
                if line.startswith("define"):
                    m = DEFINE_RE.match(line)
                    if m:
                        cur = m.group(1).strip('"')
                        self.defined[cur] = ln
                    continue
                if line.startswith("declare"):
                    m = DECLARE_RE.match(line)
                    if m:
                        self.declared.add(m.group(1).strip('"'))
                    continue
                if line.startswith("}"):
                    cur = None
                    continue
                if cur is None:
                    continue
                if " call " in line or " invoke " in line or line.lstrip().startswith(("call ", "invoke ", "tail call", "musttail call", "notail call")):
                    for m in CALL_RE.finditer(line):
                        if m.group(1):
                            callee = m.group(1).strip('"')
                            if callee.startswith("llvm."):
                                continue
                            self.edges[cur].add(callee)
                        elif m.group(2):
                            if "asm " in line or " asm sideeffect" in line:
                                continue
                            self.indirect[cur] += 1
        allnames = set(self.defined) | self.declared
        for s in self.edges.values():
            allnames |= s
        self.dem = demangle(sorted(allnames))

    def name(self, m):
        return self.dem.get(m, m)

    def find(self, regex):
        rx = re.compile(regex)
        return [m for m in self.defined if rx.search(self.name(m))]

    def reach(self, roots, cut=None):
        """BFS from roots. cut(caller_dem, callee_dem) -> True means the edge is a named cold edge and is not followed.
        Returns parent map {node: parent} (roots map to None)."""
        parent = {}
        dq = deque()
        for r in roots:
            parent[r] = None
            dq.append(r)
        while dq:
            x = dq.popleft()
            for y in sorted(self.edges.get(x, ())):
                if y in parent:
                    continue
                if cut and cut(self.name(x), self.name(y)):
                    continue
                parent[y] = x
                dq.append(y)
        return parent

    def chain(self, parent, node):
        out = []
        while node is not None:
            out.append(self.name(node))
            node = parent.get(node)
        return list(reversed(out))
