#!/usr/bin/env python3
"""mutsample — probe the sensitivity of the checks with generic mutation operators (not a MANIFEST command, not a check).

For each property the functions named in its anchors (properties.jsonl: anchors.mechanism[].where) are located in the anchor
files of /repo/include; inside their bodies single-token mutants are generated (relational operator shifted, && <-> ||, condition
negated, integer literal +1, true <-> false, a call/assignment statement deleted, memory order weakened). A fixed-seed sample is
applied one at a time to a scratch copy and the check of that property is run (QV_SRC/QV_OUT; /repo is not touched).
  rc=1  -> killed (reported), rc=2 -> does not parse / analysis broken (not counted), rc=0 -> SURVIVOR.
Survivors are *candidates*: many are equivalent or irrelevant to the property; each has to be read. The purpose is to find
necessary conditions no rule looks at yet.
usage: mutsample.py --ids C13,C14 [--n 40] [--seed 1] [--jobs 8] [--list]"""
import argparse, json, os, random, re, shutil, subprocess, sys, tempfile
from concurrent.futures import ThreadPoolExecutor
VERIF = os.path.dirname(os.path.dirname(os.path.abspath(__file__)))
INC = "/repo/include/quill"


def func_ranges(text, names):
    """[(name, first_body_line, last_body_line)] for definitions of the named functions (brace matching from the first '{')"""
    lines = text.split("\n")
    out = []
    for i, l in enumerate(lines):
        for nm in names:
            if re.search(r"(?<![\w.>:])" + re.escape(nm) + r"\s*\(", l) and not l.strip().startswith(("//", "*", "return", "if", "while")) and \
                    not re.search(r"[=;]\s*$", l.split("//")[0].rstrip()) and "(" in l:
                # definition if a '{' follows before a ';'
                j = i
                depth_par = 0
                found = None
                while j < min(i + 12, len(lines)):
                    s = lines[j].split("//")[0]
                    if "{" in s and (j > i or s.index("{") > s.find(nm)):
                        found = j
                        break
                    if ";" in s and j >= i and s.rstrip().endswith(";"):
                        break
                    j += 1
                if found is None:
                    continue
                depth = 0
                k = found
                started = False
                while k < len(lines):
                    s = re.sub(r'"(\\.|[^"\\])*"', '""', lines[k].split("//")[0])
                    s = re.sub(r"'(\\.|[^'\\])'", "''", s)
                    for ch in s:
                        if ch == "{":
                            depth += 1
                            started = True
                        elif ch == "}":
                            depth -= 1
                    if started and depth == 0:
                        break
                    k += 1
                if k > found + 1:
                    out.append((nm, found + 1, k - 1))
    # drop nested duplicates
    uniq = []
    for r in sorted(set(out), key=lambda r: (r[1], -r[2])):
        if not any(u[1] <= r[1] and r[2] <= u[2] for u in uniq):
            uniq.append(r)
    return uniq


OPS = [
    ("rel", re.compile(r" (<=|>=|<|>|==|!=) "), {"<": ["<="], "<=": ["<"], ">": [">="], ">=": [">"], "==": ["!="], "!=": ["=="]}),
    ("logic", re.compile(r" (&&|\|\|) "), {"&&": ["||"], "||": ["&&"]}),
    ("bool", re.compile(r"\b(true|false)\b"), {"true": ["false"], "false": ["true"]}),
    ("order", re.compile(r"memory_order_(release|acquire|acq_rel|seq_cst)"), {"release": ["relaxed"], "acquire": ["relaxed"], "acq_rel": ["relaxed"], "seq_cst": ["relaxed"]}),
]


def mutants_of_line(line):
    code = line.split("//")[0]
    if not code.strip() or code.strip().startswith(("#", "*", "/*", "static_assert", "assert", "template", "QUILL_ASSERT")):
        return []
    out = []
    masked = re.sub(r'"(\\.|[^"\\])*"', lambda m: '"' + "_" * (len(m.group(0)) - 2) + '"', code)
    for (kind, rx, table) in OPS:
        for m in rx.finditer(masked):
            tok = m.group(1)
            if kind == "rel" and tok in ("<", ">") and re.search(r"\w<[\w:, ]*>", masked):  # template brackets nearby: skip
                continue
            for rep in table[tok]:
                s, e = m.span(1)
                out.append((kind, code[:s] + rep + code[e:] + line[len(code):]))
    # integer literal + 1 (not in template args / array sizes of declarations)
    for m in re.finditer(r"(?<![\w.\"'])(\d+)(?![\w.\"'])", masked):
        v = int(m.group(1))
        if v > 4096:
            continue
        s, e = m.span(1)
        out.append(("const", code[:s] + str(v + 1) + code[e:] + line[len(code):]))
    # negate condition
    m = re.match(r"^(\s*)(if|while) \((.*)\)\s*$", code.rstrip())
    if m and "constexpr" not in code and m.group(3).count("(") == m.group(3).count(")"):
        out.append(("neg", "%s%s (!(%s))" % (m.group(1), m.group(2), m.group(3))))
    # delete a call / assignment statement
    st = code.strip()
    if st.endswith(";") and not st.startswith(("return", "break", "continue", "using", "typedef", "throw", "QUILL_THROW", "case", "default", "}", "static", "constexpr")) and \
            not re.match(r"^(const |auto |std::|size_t |uint\d+_t |int |bool |char |time_t |tm |fs::|typename )", st) and \
            (re.match(r"^[\w:>.\-\[\]\*\(\)]+\s*(\+|-|\|)?=[^=]", st) or re.match(r"^[\w:>.\-\[\]\*]+\(.*\);$", st) or re.match(r"^(\+\+|--)?[\w:>.\-\[\]]+(\+\+|--)?;$", st)) and \
            st.count("(") == st.count(")"):
        out.append(("del", code[:len(code) - len(code.lstrip())] + ";" + line[len(code):]))
    return out


def targets(props, ids):
    res = {}
    for d in props:
        if d["id"] not in ids:
            continue
        names = set()
        for m in d["anchors"].get("mechanism", []):
            for tok in re.findall(r"[A-Za-z_][\w]*(?:::~?[A-Za-z_]\w*)*", m["where"]):
                last = tok.split("::")[-1]
                if last[0].islower() or last[0] == "_" or last[0] == "~":
                    names.add(last)
        files = []
        for f in d["anchors"]["files"]:
            p = os.path.join("/repo", f)
            if os.path.isdir(p):
                files += [os.path.join(p, x) for x in sorted(os.listdir(p)) if x.endswith(".h")]
            elif os.path.exists(p):
                files.append(p)
        res[d["id"]] = (sorted(names), files)
    return res


def body_ranges(text):
    """[(label, first, last)] line ranges of every brace block that looks like a function body (a '{' line or line end preceded by
    a ')' [const] [noexcept] [override] line) — used by --whole-file"""
    lines = text.split("\n")
    out = []
    i = 0
    n = len(lines)
    while i < n:
        code = lines[i].split("//")[0].rstrip()
        prev = lines[i - 1].split("//")[0].rstrip() if i > 0 else ""
        opens_here = code.strip() == "{" and re.search(r"\)\s*(const)?\s*(noexcept(\(.*\))?)?\s*(override|final)?\s*$", prev) and \
            not re.match(r"^\s*(if|for|while|switch|else|do|QUILL_CATCH|QUILL_TRY|catch)\b", prev)
        inline = re.search(r"\)\s*(const)?\s*(noexcept(\(.*\))?)?\s*(override|final)?\s*\{\s*[^}]*$", code) and \
            not re.match(r"^\s*(if|for|while|switch|else|do|QUILL_CATCH|catch)\b", code) and code.strip() != "{"
        if opens_here or inline:
            depth, k, started = 0, i, False
            while k < n:
                s_ = re.sub(r'"(\\.|[^"\\])*"', '""', lines[k].split("//")[0])
                s_ = re.sub(r"'(\\.|[^'\\])'", "''", s_)
                for ch in s_:
                    if ch == "{":
                        depth += 1
                        started = True
                    elif ch == "}":
                        depth -= 1
                if started and depth == 0:
                    break
                k += 1
            m = re.search(r"([~\w]+)\s*\([^()]*(\([^()]*\)[^()]*)*\)[^()]*$", prev if opens_here else code.split("{")[0])
            label = m.group(1) if m else "?"
            if k > i + 1:
                out.append((label, i + 1, k - 1))
                i = k
        i += 1
    return out


def not_compiled_here(lines):
    """line numbers inside a preprocessor region that is only compiled on Windows (#if defined(_WIN32) ... [#else]) — mutants there
    are equivalent on this platform"""
    skip = set()
    stack = []          # [win_only_now, win_positive]
    for i, l in enumerate(lines):
        s = l.strip()
        if s.startswith("#if"):
            pos = bool(re.search(r"defined\s*\(?\s*_WIN32|#ifdef\s+_WIN32", s)) and not re.search(r"!\s*defined\s*\(?\s*_WIN32|#ifndef\s+_WIN32", s) and "||" not in s
            neg = bool(re.search(r"!\s*defined\s*\(?\s*_WIN32|#ifndef\s+_WIN32", s)) and "&&" not in s and "||" not in s
            stack.append([pos, pos, neg])
        elif s.startswith("#elif") and stack:
            stack[-1][0] = False
        elif s.startswith("#else") and stack:
            stack[-1][0] = stack[-1][2]
        elif s.startswith("#endif") and stack:
            stack.pop()
        if any(t[0] for t in stack):
            skip.add(i)
    return skip


def gen(pid, names, files, whole=False):
    out = []
    for p in files:
        text = open(p).read()
        lines = text.split("\n")
        win = not_compiled_here(lines)
        for (nm, a, b) in (body_ranges(text) if whole else func_ranges(text, names)):
            for ln in range(a, b + 1):
                if ln in win:
                    continue
                for (kind, new) in mutants_of_line(lines[ln]):
                    if new != lines[ln]:
                        out.append(dict(pid=pid, file=os.path.relpath(p, INC), fn=nm, line=ln + 1, kind=kind, old=lines[ln], new=new))
    return out


def run_union(m, tier, file_props):
    """run every check anchored at the mutant's file; killed if any reports it"""
    tmp = tempfile.mkdtemp(prefix="qv-")
    try:
        shutil.copytree("/repo/include", os.path.join(tmp, "include"))
        p = os.path.join(tmp, "include", "quill", m["file"])
        lines = open(p).read().split("\n")
        assert lines[m["line"] - 1] == m["old"]
        lines[m["line"] - 1] = m["new"]
        open(p, "w").write("\n".join(lines))
        env = dict(os.environ, QV_SRC=os.path.join(tmp, "include"), QV_OUT=os.path.join(tmp, "out"))
        killers, rcs = [], []
        for pid in file_props:
            r = subprocess.run([sys.executable, os.path.join(VERIF, "engine", "qcheck.py"), pid, "--tier", tier], capture_output=True, text=True, env=env, cwd=VERIF)
            rcs.append(r.returncode)
            if r.returncode == 1:
                rules = sorted(set(l.split()[0] for l in r.stdout.splitlines() if l.startswith("  C") and " violated at " in l))
                killers.append("%s(%s)" % (pid, ",".join(rules)[:60]))
            if r.returncode == 2 and "does not parse" in r.stdout:
                return m, 2, [], "does not parse"
        rc = 1 if killers else (2 if all(x == 2 for x in rcs) else (0 if 2 not in rcs else 3))
        return m, rc, killers, ""
    finally:
        shutil.rmtree(tmp, ignore_errors=True)


def run(m, tier):
    tmp = tempfile.mkdtemp(prefix="qv-")
    try:
        shutil.copytree("/repo/include", os.path.join(tmp, "include"))
        p = os.path.join(tmp, "include", "quill", m["file"])
        lines = open(p).read().split("\n")
        assert lines[m["line"] - 1] == m["old"]
        lines[m["line"] - 1] = m["new"]
        open(p, "w").write("\n".join(lines))
        env = dict(os.environ, QV_SRC=os.path.join(tmp, "include"), QV_OUT=os.path.join(tmp, "out"))
        r = subprocess.run([sys.executable, os.path.join(VERIF, "engine", "qcheck.py"), m["pid"], "--tier", tier], capture_output=True, text=True, env=env, cwd=VERIF)
        rules = sorted(set(l.split()[0] for l in r.stdout.splitlines() if l.startswith("  C") and " violated at " in l))
        return m, r.returncode, rules, (r.stdout.splitlines()[-1] if r.stdout.strip() else r.stderr[-200:])
    finally:
        shutil.rmtree(tmp, ignore_errors=True)


def main():
    ap = argparse.ArgumentParser()
    ap.add_argument("--ids", required=True); ap.add_argument("--n", type=int, default=40); ap.add_argument("--seed", type=int, default=1)
    ap.add_argument("--jobs", type=int, default=8); ap.add_argument("--list", action="store_true"); ap.add_argument("--tier", default="quick")
    ap.add_argument("--kinds", default="")
    ap.add_argument("--file", default="", help="only mutants in files whose path contains this text")
    ap.add_argument("--fns", default="", help="extra function names (comma separated) added to every property's targets")
    ap.add_argument("--whole-file", action="store_true", help="mutate every function body of the anchor files, not only the anchored functions")
    ap.add_argument("--union", action="store_true", help="run every check anchored at the mutant's file; a mutant survives only if none reports it")
    ap.add_argument("--add-file", default="", help="extra files (relative to include/quill, comma separated) that are not anchors of any property but that the "
                    "properties given with --ids rest on; mutated as if anchored, and in --union mode checked by all of --ids")
    a = ap.parse_args()
    props = [json.loads(l) for l in open(os.path.join(VERIF, "properties.jsonl"))]
    ids = a.ids.split(",")
    tg = targets(props, ids)
    todo = []
    for pid in ids:
        names, files = tg[pid]
        files = files + [os.path.join(INC, x) for x in a.add_file.split(",") if x and os.path.join(INC, x) not in files]
        names = sorted(set(names) | set(x for x in a.fns.split(",") if x))
        ms = [m for m in gen(pid, names, files, whole=a.whole_file) if a.file in m["file"]]
        if a.kinds:
            ms = [m for m in ms if m["kind"] in a.kinds.split(",")]
        fns = sorted(set((m["file"], m["fn"]) for m in ms))
        print("%s: %d candidate mutants in %d functions: %s" % (pid, len(ms), len(fns), ", ".join("%s" % f for _, f in fns)))
        random.Random(a.seed).shuffle(ms)
        todo += ms[:a.n]
    if a.list:
        for m in todo:
            print("%s %s:%d [%s] %s  ->  %s" % (m["pid"], m["file"], m["line"], m["kind"], m["old"].strip(), m["new"].strip()))
        return 0
    stats = {}
    if a.union:
        fmap = {}
        for d in props:
            for f in d["anchors"]["files"]:
                fmap.setdefault(os.path.relpath(os.path.join("/repo", f), INC), []).append(d["id"])
        for x in a.add_file.split(","):
            if x:
                fmap.setdefault(x, [])
                fmap[x] = sorted(set(fmap[x]) | set(ids))

        def props_of(rel):
            out = list(fmap.get(rel, []))
            for k, v in fmap.items():
                if k.endswith("/") or (k + "/") == rel[:len(k) + 1]:
                    if rel.startswith(k.rstrip("/") + "/"):
                        out += v
            return sorted(set(out))
        seen = set()
        uniq = []
        for m in todo:
            key = (m["file"], m["line"], m["new"])
            if key not in seen:
                seen.add(key)
                uniq.append(m)
        with ThreadPoolExecutor(a.jobs) as ex:
            for m, rc, killers, last in ex.map(lambda m: run_union(m, a.tier, props_of(m["file"])), uniq):
                st = stats.setdefault(m["file"], dict(killed=0, survived=0, broken=0))
                if rc == 1:
                    st["killed"] += 1
                    print("killed   %s:%d [%s] by %s" % (m["file"], m["line"], m["kind"], " ".join(killers)[:160]))
                elif rc == 0:
                    st["survived"] += 1
                    print("SURVIVOR %s %s:%d (%s) [%s]\n    - %s\n    + %s" % ("ALL", m["file"], m["line"], m["fn"], m["kind"], m["old"].strip(), m["new"].strip()))
                elif rc == 3:
                    st["undecided"] = st.get("undecided", 0) + 1
                    print("undecided %s:%d (%s) [%s] some check exits 2 (analysis broken), none reports: %s" % (m["file"], m["line"], m["fn"], m["kind"], m["new"].strip()[:100]))
                else:
                    st["broken"] += 1
        for f, st in sorted(stats.items()):
            print("%s: killed %d, survived %d, undecided (exit 2 in some check, no report) %d, not parsed / all broken %d" % (f, st["killed"], st["survived"], st.get("undecided", 0), st["broken"]))
        return 0
    with ThreadPoolExecutor(a.jobs) as ex:
        for m, rc, rules, last in ex.map(lambda m: run(m, a.tier), todo):
            st = stats.setdefault(m["pid"], dict(killed=0, survived=0, broken=0))
            if rc == 1:
                st["killed"] += 1
            elif rc == 0:
                st["survived"] += 1
                print("SURVIVOR %s %s:%d (%s) [%s]\n    - %s\n    + %s" % (m["pid"], m["file"], m["line"], m["fn"], m["kind"], m["old"].strip(), m["new"].strip()))
            else:
                st["broken"] += 1
                print("broken   %s %s:%d (%s) [%s] %s | %s" % (m["pid"], m["file"], m["line"], m["fn"], m["kind"], m["new"].strip()[:90], last[:140]))
    for pid, st in sorted(stats.items()):
        print("%s: killed %d, survived %d, not parsed / analysis broken %d" % (pid, st["killed"], st["survived"], st["broken"]))
    return 0


if __name__ == "__main__":
    sys.exit(main())
